#!/venv/bin/python
"""smoke test of the replay path: for every property and sub-check, the first and last unit of the quick tier is pushed through a JSON
round trip (as a replay file would) and executed by the REPLAY function; any exception is a harness bug."""
import importlib, json, os, sys, traceback
sys.path.insert(0, os.path.dirname(os.path.dirname(os.path.abspath(__file__))))
from mc import core
bad = 0
only = sys.argv[1:]
for i in range(1, 21):
    pid = "C%02d" % i
    if only and pid not in only:
        continue
    mod = importlib.import_module("mc.props." + pid.lower())
    for name, sc in mod.SUBCHECKS.items():
        cases = sc.cases("quick", 0)
        for c in (cases[:1] + cases[-1:]) if len(cases) > 1 else cases:
            rt = json.loads(json.dumps(core._clean(c)))
            try:
                out = mod.REPLAY[name](rt)
                assert isinstance(out, list)
                print(pid, name, "ok", len(out))
            except Exception:
                bad += 1
                print(pid, name, "REPLAY PATH FAILS:", traceback.format_exc()[-600:])
sys.exit(1 if bad else 0)
