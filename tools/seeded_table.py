#!/usr/bin/env python3
"""regenerates /verif/seeded/SUMMARY.md from the meta.json files"""
import glob, json, os
V = os.path.dirname(os.path.dirname(os.path.abspath(__file__)))
rows = []
for m in sorted(glob.glob(os.path.join(V, "seeded", "*", "meta.json"))):
    d = json.load(open(m))
    name = os.path.basename(os.path.dirname(m))
    patch = open(os.path.join(os.path.dirname(m), "patch.diff")).read()
    files = sorted(set(l[6:] for l in patch.splitlines() if l.startswith("+++ b/")))
    needs = " ".join(d.get("needs", "").split())[:300]
    det = d.get("detected_by", {})
    rows.append((name, d["property"], ", ".join(files), ", ".join("%s:%s" % (k, "caught" if v else "MISSED") for k, v in sorted(det.items()))
                 + (" (after the check was strengthened; missed at first trial)" if d.get("strengthened_after_miss") else ""), needs))
with open(os.path.join(V, "seeded", "SUMMARY.md"), "w") as f:
    f.write("# Seeded property-breaking changes and the checks that catch them\n\n")
    f.write("| seeded | breaks | files | quick-tier checks run against it | what it needs to manifest |\n|---|---|---|---|---|\n")
    for r in rows:
        f.write("| %s | %s | %s | %s | %s |\n" % tuple(x.replace("|", "/") for x in r))
    n = len(rows)
    own = sum(1 for r in rows if ("%s:caught" % r[1]) in r[3])
    anyc = sum(1 for r in rows if ":caught" in r[3])
    f.write("\n%d seeded changes; %d reported by the quick check of the property they were filed under, %d by the quick check of some property "
            "(a change filed under one property whose effect is a violation of another property's statement is reported by that other check).\n" % (n, own, anyc))
print(open(os.path.join(V, "seeded", "SUMMARY.md")).read()[-400:])
