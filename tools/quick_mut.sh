#!/bin/bash
# usage: quick_mut.sh <worktree> <k> <Cnn> [check args]   -- applies mutant<k>.patch on a scratch copy of /repo's cyecca and runs the check
wt=$1; k=$2; c=$3; shift 3
d=$(mktemp -d /tmp/qm.XXXXXX)
cp -r /repo/cyecca $d/cyecca
(cd $d && patch -s -p1 < $wt/mutant$k.patch) || { echo "patch failed"; rm -rf $d; exit 3; }
cd /verif && VERIF_OUT=$d/out CYECCA_SRC=$d ./check $c "$@" 2>&1 | grep -E 'VIOLATION|KNOWN|HARNESS|tier=|Error' | cut -c1-400 | awk 'NR<=3{print} END{print "lines="NR}' 
rm -rf $d
