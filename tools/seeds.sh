#!/bin/bash
# run every check's quick tier for several seeds into a scratch output dir; report anything that is not silent
cd "$(dirname "$0")/.."
/venv/bin/python -m compileall -q mc > /dev/null || { echo "COMPILE-ERROR in mc/"; exit 2; }
OUT=${1:-/tmp/seeds_out}
SEEDS=${2:-"0 1 2 3"}
rm -rf "$OUT"; mkdir -p "$OUT"
for s in $SEEDS; do
  for i in $(seq -w 1 20); do
    r=$(VERIF_SEED=$s VERIF_OUT=$OUT ./check C$i --tier quick 2>&1)
    rc=$?
    line=$(echo "$r" | grep "tier=" | tail -1)
    echo "seed=$s C$i rc=$rc $line"
    if [ $rc -ne 0 ]; then echo "$r" | grep -E "VIOLATION|HARNESS" | cut -c1-400 | head -5; fi
  done
done
