#!/usr/bin/env python3
import sys,json,glob
for f in sorted(glob.glob(sys.argv[1] if len(sys.argv)>1 else '/tmp/try3_c*.log')):
    for l in open(f):
        l=l.strip()
        if not l.startswith('{'): continue
        try: d=json.loads(l)
        except Exception: print(f, 'unparsable', l[:200]); continue
        ch=d.get('checks',{})
        print(d['property'], 'm'+d['mutant'], 'confirmed' if d.get('confirmed') else 'NOT-CONFIRMED(suite=%s demo=%s/%s)'%(d.get('suite_ok'),d.get('demo_with'),d.get('demo_without')), {c:('CAUGHT' if v['detected'] else 'MISSED: '+v['summary'][-120:]) for c,v in ch.items()}, d.get('status',''))
