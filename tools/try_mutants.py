#!/usr/bin/env python3
"""confirm sub-agent mutants and run the checks against them.
usage: try_mutants.py <worktree> <property id> [--keep]
For each mutant<k>.patch in the worktree: update worktree to /repo HEAD, apply, run the repository suite (must be 212 passed),
run demo (must exit != 0), run ./check <pid> with CYECCA_SRC=<worktree> (records whether VIOLATION), revert, run demo (must exit 0).
Confirmed mutants are stored as /verif/seeded/<pid>-<k>/{patch.diff,demo.py,meta.json}."""
import glob, json, os, re, shutil, subprocess, sys, time
wt, pid = sys.argv[1], sys.argv[2]
extra_checks = [a for a in sys.argv[3:] if a.startswith("C")]
V = "/verif"
def sh(cmd, **kw):
    return subprocess.run(cmd, shell=True, capture_output=True, text=True, **kw)
head = sh("git -C /repo rev-parse HEAD").stdout.strip()
sh(f"git -C {wt} checkout -q -- . ; git -C {wt} checkout -q --detach {head}")
notes = open(os.path.join(wt, "NOTES.md")).read() if os.path.exists(os.path.join(wt, "NOTES.md")) else ""
out = []
for patch in sorted(glob.glob(os.path.join(wt, "mutant*.patch"))):
    k = re.search(r"mutant(\d+)\.patch", patch).group(1)
    demo = os.path.join(wt, f"demo{k}.py")
    rec = dict(property=pid, mutant=k, patch=os.path.basename(patch))
    a = sh(f"git -C {wt} apply {patch}")
    if a.returncode != 0:
        rec["status"] = "patch does not apply to current /repo HEAD: " + a.stderr[:200]
        out.append(rec); print(rec); continue
    env = f"cd {wt} && PYTHONPATH={wt}"
    t = sh(f"{env} /venv/bin/python -m pytest -q -p no:cacheprovider -x --deselect tests/estimate/attitude/test_attitude.py::Test_Attitude::test_generate_code --deselect tests/estimate/attitude/test_attitude.py::Test_Attitude::test_replay tests 2>&1 | tail -3")
    rec["suite"] = t.stdout.strip().splitlines()[-1] if t.stdout.strip() else "?"
    rec["suite_ok"] = bool(re.search(r"\b212 passed", rec["suite"])) and "failed" not in rec["suite"]
    d1 = sh(f"{env} timeout 600 /venv/bin/python {demo}")
    rec["demo_with"] = d1.returncode
    checks = {}
    for c in [pid] + extra_checks:
        outdir = f"/tmp/mut_out_{pid}_{k}"
        r = sh(f"cd {V} && VERIF_OUT={outdir} CYECCA_SRC={wt} ./check {c} --tier quick 2>&1 | grep -E 'VIOLATION|KNOWN-FINDING|HARNESS|tier=' | cut -c1-260")
        lines = r.stdout.strip().splitlines()
        viol = [l for l in lines if l.startswith("VIOLATION")]
        checks[c] = dict(detected=bool(viol), n_violation_lines=len(viol), first=(viol[0] if viol else ""), summary=lines[-1] if lines else "")
        shutil.rmtree(outdir, ignore_errors=True)
    rec["checks"] = checks
    sh(f"git -C {wt} checkout -q -- .")
    d0 = sh(f"{env} timeout 600 /venv/bin/python {demo}")
    rec["demo_without"] = d0.returncode
    rec["confirmed"] = rec["suite_ok"] and rec["demo_with"] != 0 and rec["demo_without"] == 0
    if rec["confirmed"]:
        dst = os.path.join(V, "seeded", f"{pid}-{k}")
        n = 1
        while os.path.exists(dst) and open(os.path.join(dst, "patch.diff")).read() != open(patch).read():
            n += 1; dst = os.path.join(V, "seeded", f"{pid}-{k}-{n}")
        os.makedirs(dst, exist_ok=True)
        shutil.copy(patch, os.path.join(dst, "patch.diff"))
        shutil.copy(demo, os.path.join(dst, "demo.py"))
        m = re.search(r"(?ms)^(#+\s*)?[^\n]*[Mm]utant\s*%s\b.*?(?=^(#+\s*)?[^\n]*[Mm]utant\s*%d\b|\Z)" % (k, int(k) + 1), notes)
        json.dump(dict(property=pid, breaks=pid, needs=(m.group(0).strip()[:1500] if m else notes[:1500]),
                       ran=dict(suite=rec["suite"], demo_exit_with_patch=rec["demo_with"], demo_exit_without=rec["demo_without"],
                                repo_head=head, checks=checks),
                       detected_by={c: v["detected"] for c, v in checks.items()}), open(os.path.join(dst, "meta.json"), "w"), indent=1)
        rec["stored"] = dst
    out.append(rec)
    print(json.dumps(rec)[:900])
json.dump(out, open(f"/tmp/mutants_{pid}.json", "w"), indent=1)
