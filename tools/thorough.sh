#!/bin/bash
# run every check's thorough tier into a scratch output dir; report timing and anything not silent
cd "$(dirname "$0")/.."
/venv/bin/python -m compileall -q mc > /dev/null || { echo "COMPILE-ERROR in mc/"; exit 2; }
OUT=${1:-/tmp/thorough_out}
LIST=${2:-"$(seq -w 1 20)"}
mkdir -p "$OUT"
for i in $LIST; do
  t0=$(date +%s)
  r=$(VERIF_OUT=$OUT ./check C$i --tier thorough 2>&1)
  rc=$?
  echo "C$i rc=$rc $(( $(date +%s) - t0 ))s $(echo "$r" | grep "tier=" | tail -1)"
  if [ $rc -ne 0 ]; then echo "$r" | grep -E "VIOLATION|HARNESS" | cut -c1-400 | head -5; fi
done
