#!/usr/bin/env python3
"""re-run the quick check of a stored seeded change against a scratch copy of /repo's library with the patch applied and update
meta.json (detected_by, ran.checks, strengthened_after_miss).  usage: recheck_seeded.py <seeded id> [...]   (or --all-missed / --all)"""
import glob, json, os, shutil, subprocess, sys, tempfile
V = "/verif"
ids = sys.argv[1:]
allm = sorted(os.path.basename(os.path.dirname(p)) for p in glob.glob(V + "/seeded/*/meta.json"))
if ids == ["--all"]:
    ids = allm
elif ids == ["--all-missed"]:
    ids = [i for i in allm if not all(json.load(open(f"{V}/seeded/{i}/meta.json")).get("detected_by", {}).values())]
for sid in ids:
    d = f"{V}/seeded/{sid}"
    meta = json.load(open(d + "/meta.json"))
    tmp = tempfile.mkdtemp(prefix="rs.", dir="/tmp")
    try:
        shutil.copytree("/repo/cyecca", tmp + "/cyecca")
        a = subprocess.run(f"cd {tmp} && patch -s -p1 < {d}/patch.diff", shell=True, capture_output=True, text=True)
        if a.returncode != 0:
            print(sid, "patch does not apply:", a.stdout[-200:]); continue
        for c in list(meta.get("detected_by", {meta["property"]: False})):
            r = subprocess.run(f"cd {V} && VERIF_OUT={tmp}/out CYECCA_SRC={tmp} ./check {c} --tier quick 2>&1 | grep -E 'VIOLATION|KNOWN-FINDING|HARNESS|tier=' | cut -c1-260",
                               shell=True, capture_output=True, text=True)
            lines = r.stdout.strip().splitlines()
            viol = [l for l in lines if l.startswith("VIOLATION")]
            was = meta.get("detected_by", {}).get(c)
            if viol and was is False:
                meta["strengthened_after_miss"] = True
                meta.setdefault("ran", {}).setdefault("first_trial_checks", meta.get("ran", {}).get("checks"))
            meta.setdefault("detected_by", {})[c] = bool(viol)
            meta.setdefault("ran", {})["checks"] = dict(meta.get("ran", {}).get("checks") or {})
            meta["ran"]["checks"][c] = dict(detected=bool(viol), n_violation_lines=len(viol), first=(viol[0] if viol else ""), summary=lines[-1] if lines else "")
            print(sid, c, "CAUGHT" if viol else "MISSED", (viol[0][:200] if viol else (lines[-1] if lines else "")))
        json.dump(meta, open(d + "/meta.json", "w"), indent=1)
    finally:
        shutil.rmtree(tmp, ignore_errors=True)
