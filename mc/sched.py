"""explore.sched - stateless, deviation-bounded exploration of simpy tie-breaks.

simpy fires events tied at the same (time, priority) in FIFO order of their creation.  Which node or process was created
first is an accident of wiring, so every order of *exactly* tied events is a legitimate schedule.  ControlledCore.step asks a
Chooser which of the tied events fires next (choice 0 = simpy's FIFO default).  explore() enumerates all choice sequences with at
most `bound` deviations from FIFO (iterative context bounding with "deviation" in place of "preemption"): it replays a prefix
(an out-of-range choice or a different number of tied events than recorded is a hard error), takes choice 0 afterwards, and
branches on every later tie point inside the window.  Each execution is built on a fresh Core (live generators cannot be copied).
"""
from __future__ import annotations

import contextlib
import heapq
import io

import simpy
from simpy.core import EmptySchedule

with contextlib.redirect_stdout(io.StringIO()):
    import cyecca.sim.uros as uros


class ReplayDivergence(Exception):
    pass


class Chooser:
    def __init__(self, prefix=(), recorded=None, window=None):
        self.prefix = list(prefix)
        self.recorded = recorded  # list of n_options for the prefix part (checked on replay)
        self.points = []  # (n_options, time) for every tie point met
        self.choices = []
        self.window = window  # only tie points with time <= window are branch points (None = all)

    def choose(self, n, now):
        i = len(self.points)
        self.points.append((n, now))
        if i < len(self.prefix):
            c = self.prefix[i]
            if c >= n:
                raise ReplayDivergence("choice %d out of range %d at tie point %d" % (c, n, i))
            if self.recorded is not None and i < len(self.recorded) and self.recorded[i] != n:
                raise ReplayDivergence("tie point %d had %d options, recorded %d" % (i, n, self.recorded[i]))
        else:
            c = 0
        self.choices.append(c)
        return c


class ControlledCore(uros.Core):
    """uros.Core whose simultaneous events are ordered by a Chooser"""
    chooser = None  # set on the class before construction by the harness (launch_sim builds the Core itself)
    observer = None  # optional callable(core) invoked after every fired event

    def step(self):
        q = self._queue
        if not q:
            raise EmptySchedule()
        ch = type(self).chooser
        t0, p0 = q[0][0], q[0][1]
        if ch is not None:
            tied = [e for e in q if e[0] == t0 and e[1] == p0]
            if len(tied) > 1:
                tied.sort(key=lambda e: e[2])
                k = ch.choose(len(tied), t0)
                if k != 0:
                    entry = tied[k]
                    q.remove(entry)
                    heapq.heapify(q)
                    self._now = entry[0]
                    self._fire(entry[3])
                    return
        self._now, _, _, event = heapq.heappop(q)
        self._fire(event)

    def _fire(self, event):
        callbacks, event.callbacks = event.callbacks, None
        for callback in callbacks:
            callback(event)
        if type(self).observer is not None:
            type(self).observer(self)
        if not event._ok and not hasattr(event, "_defused"):
            exc = type(event._value)(*event._value.args)
            exc.__cause__ = event._value
            raise exc


def explore(run_once, bound, window=None, max_runs=None):
    """run_once(chooser) -> observation.  Yields (choices, points, observation) for every schedule with <= bound deviations
    whose deviations all lie at tie points with time <= window."""
    stack = [([], None)]
    n = 0
    while stack:
        prefix, recorded = stack.pop()
        ch = Chooser(prefix, recorded, window)
        obs = run_once(ch)
        n += 1
        yield list(ch.choices), list(ch.points), obs
        if max_runs is not None and n >= max_runs:
            return
        dev = sum(1 for c in prefix if c != 0)
        if dev >= bound:
            continue
        for i in range(len(prefix), len(ch.points)):
            nopt, tm = ch.points[i]
            if window is not None and tm > window:
                break
            for alt in range(1, nopt):
                newp = ch.choices[:i] + [alt]
                stack.append((newp, [p[0] for p in ch.points[:i + 1]]))
