"""Boring reference models, independent of the library.

Rotations are produced from axis-angle by Rodrigues evaluated in mpmath (40 digits) and rounded
to doubles; matrix algebra afterwards is numpy double (error ~1e-16, against tolerances of 1e-9).
Textbook maps quaternion->R, MRP->R (through the quaternion), Euler-3-2-1->R.
"""
from __future__ import annotations

import functools
import math

import mpmath
import numpy as np
import scipy.linalg

MP = mpmath.mp.clone()
MP.dps = 50


def hat(v):
    x, y, z = v
    return np.array([[0.0, -z, y], [z, 0.0, -x], [-y, x, 0.0]])


def vee3(M):
    return np.array([M[2, 1], M[0, 2], M[1, 0]])


@functools.lru_cache(maxsize=200000)
def _rot_cached(x, y, z):
    v = [MP.mpf(x), MP.mpf(y), MP.mpf(z)]
    th2 = v[0] * v[0] + v[1] * v[1] + v[2] * v[2]
    th = MP.sqrt(th2)
    K = MP.matrix([[0, -v[2], v[1]], [v[2], 0, -v[0]], [-v[1], v[0], 0]])
    if th == 0:
        a, b = MP.mpf(1), MP.mpf(1) / 2
    else:
        a = MP.sin(th) / th
        h = MP.sin(th / 2)
        b = 2 * h * h / th2
    R = MP.eye(3) + a * K + b * (K * K)
    return tuple(float(R[i, j]) for i in range(3) for j in range(3))


def rot(v):
    """exp([v]x) as a 3x3 double array, correctly rounded from 50-digit arithmetic"""
    return np.array(_rot_cached(float(v[0]), float(v[1]), float(v[2]))).reshape(3, 3)


def rot_mp(v):
    """exp([v]x) as an mpmath matrix (50 digits)"""
    v = [MP.mpf(x) for x in v]
    th2 = v[0] * v[0] + v[1] * v[1] + v[2] * v[2]
    th = MP.sqrt(th2)
    K = MP.matrix([[0, -v[2], v[1]], [v[2], 0, -v[0]], [-v[1], v[0], 0]])
    if th == 0:
        return MP.eye(3) + K
    a = MP.sin(th) / th
    h = MP.sin(th / 2)
    b = 2 * h * h / th2
    return MP.eye(3) + a * K + b * (K * K)


def quat_of(v, sign=1):
    """unit quaternion (w,x,y,z) of rotation vector v, computed in 50 digits; sign=-1 gives -q"""
    vv = [MP.mpf(float(x)) for x in v]
    th = MP.sqrt(vv[0] ** 2 + vv[1] ** 2 + vv[2] ** 2)
    if th == 0:
        q = [MP.mpf(1), vv[0] / 2, vv[1] / 2, vv[2] / 2]
    else:
        s = MP.sin(th / 2) / th
        q = [MP.cos(th / 2), s * vv[0], s * vv[1], s * vv[2]]
    return np.array([sign * float(c) for c in q])


def mrp_of(v, shadow=False):
    """MRP of rotation vector v: axis*tan(theta/4); shadow=True gives the shadow-set representative
    -r/|r|^2 (same rotation)"""
    vv = [MP.mpf(float(x)) for x in v]
    th = MP.sqrt(vv[0] ** 2 + vv[1] ** 2 + vv[2] ** 2)
    if th == 0:
        r = [vv[0] / 4, vv[1] / 4, vv[2] / 4]
    else:
        s = MP.tan(th / 4) / th
        r = [s * c for c in vv]
    if shadow:
        n2 = r[0] ** 2 + r[1] ** 2 + r[2] ** 2
        if n2 == 0:
            raise ValueError("identity has no finite shadow MRP")
        r = [-c / n2 for c in r]
    return np.array([float(c) for c in r])


def R_from_quat(q):
    """textbook (Hamilton, active, body->world) quaternion to rotation matrix; q need not be unit:
    returns the rotation of q/|q|"""
    q = np.asarray(q, dtype=float)
    n2 = float(q @ q)
    w, x, y, z = q
    return np.array([
        [w * w + x * x - y * y - z * z, 2 * (x * y - w * z), 2 * (x * z + w * y)],
        [2 * (x * y + w * z), w * w - x * x + y * y - z * z, 2 * (y * z - w * x)],
        [2 * (x * z - w * y), 2 * (y * z + w * x), w * w - x * x - y * y + z * z]]) / n2


def quat_from_mrp(r):
    r = np.asarray(r, dtype=float)
    n2 = float(r @ r)
    return np.concatenate([[(1 - n2)], 2 * r]) / (1 + n2)


def R_from_mrp(r):
    return R_from_quat(quat_from_mrp(r))


def Rx(a):
    c, s = math.cos(a), math.sin(a)
    return np.array([[1, 0, 0], [0, c, -s], [0, s, c]])


def Ry(a):
    c, s = math.cos(a), math.sin(a)
    return np.array([[c, 0, s], [0, 1, 0], [-s, 0, c]])


def Rz(a):
    c, s = math.cos(a), math.sin(a)
    return np.array([[c, -s, 0], [s, c, 0], [0, 0, 1]])


def R_from_euler321(e):
    """body-fixed 3-2-1: (psi, theta, phi) -> Rz(psi) Ry(theta) Rx(phi)"""
    return Rz(e[0]) @ Ry(e[1]) @ Rx(e[2])


def euler321_of_R(R):
    """reference extraction away from gimbal lock"""
    th = math.asin(max(-1.0, min(1.0, -R[2, 0])))
    return np.array([math.atan2(R[1, 0], R[0, 0]), th, math.atan2(R[2, 1], R[2, 2])])


def rot_angle(R):
    """rotation angle in [0, pi] from a (near-)rotation matrix, robust near 0 and pi"""
    s = np.linalg.norm(vee3(R - R.T)) / 2.0
    c = (np.trace(R) - 1.0) / 2.0
    return math.atan2(s, c)


def rot_dist(R1, R2):
    return rot_angle(R1.T @ R2)


def logm_rot(R):
    """principal rotation vector of R (angle <= pi), reference; for angle near pi uses the symmetric part"""
    th = rot_angle(R)
    w = vee3(R - R.T) / 2.0
    s = np.linalg.norm(w)
    if th < 1e-7:
        return w
    if math.pi - th > 1e-3:
        return w * (th / s)
    # near pi: axis from the symmetric part
    S = (R + np.eye(3)) / 2.0
    k = int(np.argmax(np.diag(S)))
    ax = S[:, k] / math.sqrt(max(S[k, k], 1e-300))
    if w @ ax < 0:
        ax = -ax
    return ax * th


def is_rotation(R, tol=1e-9):
    R = np.asarray(R, dtype=float)
    if not np.all(np.isfinite(R)):
        return False
    return bool(np.max(np.abs(R.T @ R - np.eye(3))) <= tol and abs(np.linalg.det(R) - 1.0) <= tol)


def expm(M):
    return scipy.linalg.expm(np.asarray(M, dtype=float))


def expm_mp(M, dps=50):
    """matrix exponential in extended precision by scaling and squaring of the Taylor series"""
    ctx = MP
    n = len(M)
    A = ctx.matrix([[ctx.mpf(float(M[i][j])) for j in range(n)] for i in range(n)])
    nrm = max(sum(abs(A[i, j]) for j in range(n)) for i in range(n))
    s = 0
    while nrm > ctx.mpf(1) / 2:
        nrm /= 2
        s += 1
    A = A / (2 ** s)
    E = ctx.eye(n)
    term = ctx.eye(n)
    for k in range(1, 60):
        term = term * A / k
        E = E + term
        if max(abs(term[i, j]) for i in range(n) for j in range(n)) < ctx.mpf(10) ** (-(dps + 5)):
            break
    for _ in range(s):
        E = E * E
    return E


def mp_to_np(M):
    return np.array([[float(M[i, j]) for j in range(M.cols)] for i in range(M.rows)])


def solve_vee(basis, M, tol=1e-9):
    """un-wedge: least-squares coefficients c with sum c_i basis_i = M; also returns residual"""
    A = np.stack([b.reshape(-1) for b in basis], axis=1)
    c, res, rk, sv = np.linalg.lstsq(A, M.reshape(-1), rcond=None)
    r = float(np.max(np.abs(A @ c - M.reshape(-1)))) if M.size else 0.0
    return c, r
