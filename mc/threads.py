"""Preemption-bounded exploration of thread interleavings of the library's Python code.

Two (or more) callables run in real threads under a baton: exactly one thread runs at a time, and every `line` event inside a tracked
source file (`sys.settrace`) is a scheduling point at which the controller decides which thread continues.  `explore` enumerates all
schedules with at most `bound` preemptions (a switch away from a thread that could continue), stateless, by replaying choice prefixes
(Musuvathi / Qadeer iterative context bounding).  Executions always run to completion.

What this owns: the interleaving of Python-level statements of the tracked files.  What it does not: interleavings inside one statement
(C code under the GIL is atomic at this level), and files that are not tracked.  The library has no locks, so there is nothing to deadlock
on; a thread that raises ends its execution with the exception recorded as its result.
"""
from __future__ import annotations

import sys
import threading


class _Run:
    def __init__(self, fns, tracked, granularity="line"):
        self.fns = fns
        self.granularity = granularity
        self.tracked = tuple(tracked)
        self.n = len(fns)
        self.go = [threading.Semaphore(0) for _ in fns]
        self.ctl = threading.Semaphore(0)
        self.state = ["new"] * self.n  # new | at_point | done
        self.results = [None] * self.n
        self.where = [None] * self.n

    def _tracer(self, i):
        tracked = self.tracked

        def local(frame, event, arg):
            if event == "line":
                self.where[i] = (frame.f_code.co_filename.rsplit("/", 1)[-1], frame.f_lineno)
                self.state[i] = "at_point"
                self.ctl.release()
                self.go[i].acquire()
            return local

        def glob(frame, event, arg):
            if event == "call":
                fn_ = frame.f_code.co_filename
                for t_ in tracked:
                    if t_ in fn_:
                        if self.granularity == "call":
                            # coarser: one scheduling point per entry into a function of a tracked file
                            self.where[i] = (fn_.rsplit("/", 1)[-1], frame.f_lineno)
                            self.state[i] = "at_point"
                            self.ctl.release()
                            self.go[i].acquire()
                            return None
                        return local
            return None
        return glob

    def _body(self, i):
        self.go[i].acquire()
        sys.settrace(self._tracer(i))
        try:
            self.results[i] = ("ok", self.fns[i]())
        except BaseException as ex:  # noqa: BLE001
            self.results[i] = ("raises", "%s: %s" % (type(ex).__name__, str(ex)[:200]))
        finally:
            sys.settrace(None)
            self.state[i] = "done"
            self.ctl.release()


def run(fns, tracked, prefix, granularity="line"):
    """one execution: replays `prefix` (list of thread ids chosen at the successive scheduling points), afterwards keeps the running thread
    while it can continue and else takes the lowest id.  Returns (results, points) with points = [(enabled ids, chosen id, running id)]"""
    r = _Run(fns, tracked, granularity)
    ths = [threading.Thread(target=r._body, args=(i,), daemon=True) for i in range(r.n)]
    for t in ths:
        t.start()
    points = []
    alive = set(range(r.n))
    running = None
    k = 0
    while alive:
        enabled = sorted(alive)
        if k < len(prefix):
            ch = prefix[k]
            if ch not in alive:
                raise RuntimeError("schedule prefix diverged: thread %r not enabled at point %d (enabled %r)" % (ch, k, enabled))
        else:
            ch = running if running in alive else enabled[0]
        points.append((tuple(enabled), ch, running, r.where[ch]))
        k += 1
        running = ch
        r.go[ch].release()
        r.ctl.acquire()
        if r.state[ch] == "done":
            alive.discard(ch)
    for t in ths:
        t.join(timeout=5)
    return r.results, points


def explore(fns, tracked, bound, max_runs=20000, granularity="line"):
    """all schedules with at most `bound` preemptions.  Yields (choices, results, n_points).  `capped` attribute of the generator's
    return is reported through the last yielded tuple's fourth element (True if max_runs stopped the search)."""
    stack = [[]]
    nruns = 0
    while stack:
        prefix = stack.pop()
        results, points = run(fns, tracked, prefix, granularity)
        nruns += 1
        choices = [p[1] for p in points]
        yield choices, results, len(points), False
        if nruns >= max_runs:
            yield choices, results, len(points), True
            return
        # preemptions used before each point
        used = 0
        pre = []
        for (enabled, ch, running, _w) in points:
            pre.append(used)
            if running is not None and running in enabled and ch != running:
                used += 1
        for i in range(len(prefix), len(points)):
            enabled, ch, running, _w = points[i]
            for alt in enabled:
                if alt == ch:
                    continue
                cost = pre[i] + (1 if (running is not None and running in enabled and alt != running) else 0)
                if cost > bound:
                    continue
                stack.append(choices[:i] + [alt])
