"""Shared runner machinery: result accumulation, parallel map over forked workers,
known-findings matching, replay files, evidence files.

Every property module exposes
    LEVEL          : "model_checking" | "exploration"
    SUBCHECKS      : dict name -> object with
                       .cases(tier, seed)  -> list of JSON-serialisable cases (the bounded space)
                       .run(case)          -> Result            (explores ONE case / one config exhaustively)
    REPLAY         : dict name -> function(case) -> list[Failure dict]   (usually the same .run)
A *case* is either one input tuple (product explorer) or one whole configuration whose state space
is explored inside .run (words / history / sched explorers).  Nothing is sampled: .cases() returns
the whole bounded space and every element is executed.
"""
from __future__ import annotations

import hashlib
import json
import math
import multiprocessing as mp
import os
import sys
import time
import traceback
from collections import Counter

VERIF = os.path.dirname(os.path.dirname(os.path.abspath(__file__)))
NPROC = int(os.environ.get("VERIF_NPROC", "16"))


def jhash(obj) -> str:
    return hashlib.sha1(json.dumps(obj, sort_keys=True, default=str).encode()).hexdigest()[:16]


class Result:
    """What one unit of exploration reports back (picklable, mergeable)."""

    __slots__ = ("counters", "fails", "nontrivial", "outcomes", "samples", "sets", "notes")

    def __init__(self):
        self.counters = Counter()
        self.fails = []  # list of failure dicts
        self.nontrivial = set()  # hashes of distinct non-trivial cases
        self.outcomes = set()  # hashes of distinct observed outcomes
        self.samples = []
        self.sets = {}  # name -> set (e.g. path signatures, harvested boundaries)
        self.notes = []

    def count(self, name, n=1):
        self.counters[name] += n

    def add_set(self, name, item):
        self.sets.setdefault(name, set()).add(item)

    def fail(self, site, clause, cls, detail, sub=None, case=None):
        """site   = configuration + operation (call site)
        clause = which clause of the oracle failed
        cls    = input class (a small named predicate evaluated on the reference side)
        """
        # an exception text that can only come from a slip in the harness itself must never be reported as a violation of the library
        err = str(detail.get("error", "") or detail.get("msg", "")) if isinstance(detail, dict) else ""
        if err.startswith(("NameError", "UnboundLocalError")) or ("NameError: name" in err and "is not defined" in err):
            # only when the exception being handled right now was raised by a line of the harness itself (innermost frame under /verif);
            # the same exception types raised inside the library are findings
            tb = sys.exc_info()[2]
            inner = None
            while tb is not None:
                inner = tb.tb_frame.f_code.co_filename
                tb = tb.tb_next
            if inner is not None and os.path.abspath(inner).startswith(VERIF + os.sep):
                raise HarnessError("harness slip reported as a failure of %s: %s (raised in %s)" % (site, err, inner))
        self.fails.append(
            dict(site=site, clause=clause, cls=cls, detail=detail, sub=sub, case=case)
        )

    def merge(self, other: "Result"):
        for k, v in other.counters.items():
            if k.startswith("max_"):
                self.counters[k] = max(self.counters.get(k, 0), v)
            else:
                self.counters[k] += v
        self.fails.extend(other.fails)
        self.nontrivial |= other.nontrivial
        self.outcomes |= other.outcomes
        for s in other.samples:
            if len(self.samples) < 8:
                self.samples.append(s)
        for k, v in other.sets.items():
            self.sets.setdefault(k, set()).update(v)
        self.notes.extend(other.notes)


class HarnessError(Exception):
    pass


# ----------------------------------------------------------------------------------------------
# parallel map (fork AFTER the heavy import; never fork per execution)
# ----------------------------------------------------------------------------------------------
_WORK = {}
_KNOWN_FOR = {}
FAILFAST = int(os.environ.get("VERIF_FAILFAST", "150") or 150)


def _worker(args):
    key, idx = args
    fn, items = _WORK[key]
    try:
        return fn(items[idx])
    except HarnessError:
        raise
    except Exception as e:  # a crash of the harness itself must never be silent
        r = Result()
        r.notes.append("HARNESS-EXCEPTION in %s case %r: %s" % (key, items[idx], traceback.format_exc()))
        r.count("harness_exceptions")
        return r


def pmap(key, fn, items, nproc=None, chunks=1):
    """Run fn(item) -> Result for every item on forked workers; merge results deterministically."""
    nproc = nproc or NPROC
    _WORK[key] = (fn, items)
    pid_ = key.split(".")[0]
    if pid_ not in _KNOWN_FOR:
        _KNOWN_FOR[pid_] = load_known(pid_)
    total = Result()
    if not items:
        return total
    if nproc <= 1 or len(items) == 1:
        for i in range(len(items)):
            total.merge(_worker((key, i)))
        return total
    ctx = mp.get_context("fork")
    # an executor (not mp.Pool): a worker that dies (out of memory, crash inside a C extension) must end the run as a harness error,
    # not leave the parent waiting for a result that will never come
    from concurrent.futures import ProcessPoolExecutor
    from concurrent.futures.process import BrokenProcessPool
    pool = ProcessPoolExecutor(max_workers=min(nproc, len(items)), mp_context=ctx)
    try:
        for r in pool.map(_worker, [(key, i) for i in range(len(items))], chunksize=chunks):
            total.merge(r)
            if len(total.fails) >= FAILFAST and sum(1 for f in total.fails if match_known(_KNOWN_FOR.get(key.split(".")[0], []), f) is None) >= FAILFAST:
                # plenty of counterexamples: the verdict is decided; the remaining units are not explored (evidence says so)
                total.count("units_skipped_after_%d_failures" % FAILFAST)
                total.counters["capped"] = 1
                break
    except BrokenProcessPool as ex:
        raise HarnessError("a worker process of %s died (%s)" % (key, ex))
    finally:
        # all results are in (or the run is being abandoned): do not wait for the interpreter finalisation of the workers - objects of the
        # code under check (simulation cores, generators) can make a worker hang while it exits, and the verdict does not depend on that
        procs = list(getattr(pool, "_processes", {}).values())
        pool.shutdown(wait=False, cancel_futures=True)
        for pr in procs:
            pr.join(timeout=3)
            if pr.is_alive():
                pr.kill()
    return total


# ----------------------------------------------------------------------------------------------
# known findings
# ----------------------------------------------------------------------------------------------
def load_known(pid):
    path = os.path.join(VERIF, "known_findings.json")
    if not os.path.exists(path):
        return []
    with open(path) as f:
        data = json.load(f)
    return [e for e in data.get("findings", []) if e.get("property") == pid]


def fail_key(f):
    return "%s|%s|%s" % (f["site"], f["clause"], f["cls"])


def match_known(known, f):
    """Only *open* entries suppress; a fixed entry suppresses nothing."""
    k = fail_key(f)
    for e in known:
        if e.get("status") != "open":
            continue
        keys = e.get("keys") or [e.get("key")]
        if k in keys:
            return e
    return None


# ----------------------------------------------------------------------------------------------
# finishing a run: replay confirmation, VIOLATION / KNOWN-FINDING lines, evidence
# ----------------------------------------------------------------------------------------------
def _clean(o):
    """make JSON friendly (numpy scalars/arrays, sets, tuples, non-finite floats)"""
    try:
        import numpy as np
    except Exception:  # pragma: no cover
        np = None
    if isinstance(o, dict):
        return {str(k): _clean(v) for k, v in o.items()}
    if isinstance(o, (list, tuple)):
        return [_clean(v) for v in o]
    if isinstance(o, (set, frozenset)):
        return sorted((_clean(v) for v in o), key=lambda x: json.dumps(x, default=str))
    if np is not None:
        if isinstance(o, np.ndarray):
            return _clean(o.tolist())
        if isinstance(o, (np.floating,)):
            o = float(o)
        if isinstance(o, (np.integer,)):
            return int(o)
        if isinstance(o, (np.bool_,)):
            return bool(o)
    if isinstance(o, float):
        if math.isnan(o):
            return "nan"
        if math.isinf(o):
            return "inf" if o > 0 else "-inf"
        return o
    if isinstance(o, (int, str, bool)) or o is None:
        return o
    return str(o)


def unclean_float(x):
    if isinstance(x, str):
        return float(x)
    return x


def finish(pid, tier, seed, level, total: Result, t0, replay_fns, rule, assumptions, extra=None,
           exhaustive=True, min_nontrivial=2):
    known = load_known(pid)
    # VERIF_OUT redirects evidence + replays (used when running against a seeded mutant, so that the
    # committed evidence of the unchanged tree is not overwritten)
    OUT = os.environ.get("VERIF_OUT") or VERIF
    rdir = os.path.join(OUT, "replays", pid)
    os.makedirs(rdir, exist_ok=True)
    os.makedirs(os.path.join(OUT, "evidence"), exist_ok=True)

    # group failures by key, keep the FIRST (enumeration order = simplest first)
    by_key = {}
    for f in total.fails:
        by_key.setdefault(fail_key(f), []).append(f)

    exit_code = 0
    out_lines = []
    known_hit = {}
    n_viol = 0
    harness_err = []
    if total.counters.get("harness_exceptions"):
        harness_err.extend(total.notes)
    for k in by_key:
        f = by_key[k][0]
        e = match_known(known, f)
        if e is not None:
            known_hit.setdefault(e.get("id", e.get("what")), (e, f, len(by_key[k])))
            continue
        # confirm by re-executing the replay record in this process
        confirmed = None
        if f.get("sub") in replay_fns and f.get("case") is not None:
            try:
                again = replay_fns[f["sub"]](json.loads(json.dumps(_clean(f["case"]))))
                confirmed = any(fail_key(g) == k for g in again)
            except Exception:
                confirmed = False
                harness_err.append("replay of %s raised: %s" % (k, traceback.format_exc()))
            if not confirmed:
                harness_err.append("replay divergence for %s (did not fail again)" % k)
                continue
        path = os.path.join(rdir, jhash(k) + ".json")
        with open(path, "w") as fh:
            json.dump(_clean(dict(property=pid, key=k, sub=f.get("sub"), case=f.get("case"),
                                  site=f["site"], clause=f["clause"], cls=f["cls"],
                                  detail=f["detail"], occurrences=len(by_key[k]))), fh, indent=1)
        out_lines.append("VIOLATION property=%s replay=%s   # %s : %s" % (pid, path, k, json.dumps(_clean(f["detail"]))[:300]))
        n_viol += 1
        exit_code = 1

    for name, (e, f, n) in known_hit.items():
        print("KNOWN-FINDING: property=%s %s [%s] (%d explored cases hit it; e.g. %s)" % (
            pid, e.get("what"), e.get("id", ""), n, json.dumps(_clean(f["detail"]))[:160]))
    for l in out_lines:
        print(l)

    c = total.counters
    coverage = dict(
        evaluations=int(c.get("evaluations", 0)),
        distinct_nontrivial=len(total.nontrivial),
        distinct_outcomes=len(total.outcomes),
        rule=rule,
        samples=_clean(total.samples[:8]) or ["(none)"],
        exhaustive=bool(exhaustive),
        counters={k: int(v) for k, v in sorted(c.items())},
    )
    if level == "model_checking":
        coverage["states"] = int(c.get("states", 0))
        coverage["transitions"] = int(c.get("transitions", 0))
        coverage["traces_validated_against_impl"] = int(c.get("traces_validated_against_impl", 0))
        coverage["max_depth"] = int(c.get("max_depth", 0))
    for k, v in total.sets.items():
        coverage["n_" + k] = len(v)
        lst = _clean(v)
        coverage[k] = lst[:40]
    if extra:
        coverage.update(_clean(extra))
    ev = dict(property_id=pid, tier=tier, seed=int(seed), level=level, coverage=coverage,
              assumptions=list(assumptions), wall_s=round(time.time() - t0, 2),
              violations=n_viol,
              known_findings_hit=sorted(str(x) for x in known_hit.keys()))
    with open(os.path.join(OUT, "evidence", pid + ".json"), "w") as fh:
        json.dump(ev, fh, indent=1)

    # vacuity guards: a run that explored nothing, or nothing non-trivial, is a harness error
    if coverage["evaluations"] < 1 or coverage["distinct_nontrivial"] < min_nontrivial:
        harness_err.append("vacuous exploration: evaluations=%d distinct_nontrivial=%d" % (
            coverage["evaluations"], coverage["distinct_nontrivial"]))
    if level == "model_checking" and (coverage["states"] < 1 or coverage["transitions"] < 1) and n_viol == 0:
        harness_err.append("vacuous state exploration")  # (not when violations stopped the run before the state explorers were reached)
    print("%s tier=%s seed=%s evaluations=%d distinct_nontrivial=%d%s violations=%d known=%d wall=%.1fs" % (
        pid, tier, seed, coverage["evaluations"], coverage["distinct_nontrivial"],
        (" states=%d transitions=%d" % (coverage["states"], coverage["transitions"])) if level == "model_checking" else "",
        n_viol, len(known_hit), time.time() - t0))
    if harness_err:
        for h in harness_err[:10]:
            print("HARNESS-ERROR: " + str(h)[:3000], file=sys.stderr)
        return 2 if exit_code == 0 else exit_code
    return exit_code


# ----------------------------------------------------------------------------------------------
# module-level constants a user may override before deriving the functions
# ----------------------------------------------------------------------------------------------
def overridden(mods_fn, cache, explore_fn):
    """wrap an explore function: if the case carries `override` = {module key: {constant: value}}, the module attributes are set, the
    harness's cache of derived functions is dropped (so that everything is derived again from the overridden constants), the exploration
    runs, and constants and cache are restored.  The harness's references read the same module attributes, so they follow the override."""
    def run(case):
        ov = case.get("override")
        if not ov:
            return explore_fn(case)
        M = mods_fn()
        saved = []
        try:
            for mk, kv in ov.items():
                for k, v in kv.items():
                    if hasattr(M[mk], k):
                        saved.append((M[mk], k, getattr(M[mk], k)))
                        setattr(M[mk], k, v)
            cache.clear()
            r = explore_fn(case)
            for f in r.fails:
                f["cls"] = (f.get("cls") or "-") + ";constants_overridden"
            return r
        finally:
            for mod, k, v in saved:
                setattr(mod, k, v)
            cache.clear()
    return run
