"""Designed alphabets (simplest first).  VERIF_SEED only changes the generic members."""
from __future__ import annotations

import itertools
import math
import random

import numpy as np

from . import ref

S2 = math.sqrt(2.0)
S3 = math.sqrt(3.0)
PI = math.pi


def generic_axis(seed):
    rnd = random.Random(1000 + int(seed))
    while True:
        v = np.array([rnd.uniform(-1, 1) for _ in range(3)])
        n = np.linalg.norm(v)
        if 0.3 < n <= 1 and min(abs(v)) > 0.1:
            return v / n


def generic_vec(seed, n=3, scale=3.0):
    rnd = random.Random(2000 + int(seed) * 7 + n)
    return np.array([round(rnd.uniform(-scale, scale), 3) for _ in range(n)])


def _unit(v):
    v = np.array(v, dtype=float)
    return v / np.linalg.norm(v)


def axes(seed, small=False):
    """coordinate axes, face / space diagonals (exact ties between matrix diagonal entries), one seeded generic axis, and one
    off-axis direction dominated by each of +x, +y, +z, -x, -y, -z (the four Shepperd branches are selected by the dominant
    component and their off-axis terms and signs only show for such axes)"""
    a = [np.array([1.0, 0, 0]), np.array([0, 1.0, 0]), np.array([0, 0, 1.0]),
         np.array([1.0, 1.0, 0]) / S2, np.array([0, -1.0, 1.0]) / S2,
         np.array([1.0, 1.0, 1.0]) / S3, generic_axis(seed),
         _unit([0.9, 0.3, -0.3]), _unit([0.3, 0.9, 0.3]), _unit([-0.3, 0.3, 0.9]),
         _unit([-0.9, 0.3, 0.3]), _unit([0.3, -0.9, -0.3]), _unit([0.3, -0.3, -0.9])]
    if small:
        return [a[0], a[2], a[3], a[6], a[8], a[12]]
    return a


ANGLES_FULL = [0.0, 5e-324, 1e-200, 1e-160, 1e-12, 1e-8, 1e-6, 1e-4, 1e-3, 0.03, 0.1, PI / 4, 1.0, PI / 2,
               2 * PI / 3, 2.5, PI - 0.01, PI - 1e-4, PI - 1e-6, PI]
ANGLES_BEYOND = [PI + 0.1, 4.5, 6.0, 6.2]
ANGLES_SMALL = [0.0, 1e-6, 5e-3, 0.1, 1.0, PI / 2, 2.5]


def vecs(seed, n=3, small=False):
    if n == 3:
        v = [np.zeros(3), np.array([1.0, 0, 0]), np.array([1.0, -2.0, 3.0]), np.array([-40.0, 25.0, 7.0]),
             np.array([0, 2.0, 0]), generic_vec(seed, 3)]  # (0,2,0): a zero ahead of a non-zero entry (sparse storage)
    elif n == 2:
        v = [np.zeros(2), np.array([1.0, 0]), np.array([1.0, -2.0]), np.array([-40.0, 25.0]), np.array([0, 2.0]), generic_vec(seed, 2)]
    else:
        v = [np.zeros(n), np.eye(n)[0], generic_vec(seed, n)]
    if small:
        return [v[0], v[2], v[-1]]
    return v


def euler_edge_rotvecs():
    """rotation vectors of 3-2-1 Euler rotations with non-zero yaw and roll whose pitch is just outside the documented
    +-1e-3 rad gimbal band (1.0001e-3, 1.2e-3, 5e-3 from either pole): exactness is promised there"""
    out = []
    for sgn in (1.0, -1.0):
        for d in (1.0001e-3, 1.2e-3, 5e-3):
            for psi, phi in ((0.3, -0.4), (-2.0, 1.0)):
                R = ref.R_from_euler321([psi, sgn * (PI / 2 - d), phi])
                out.append(ref.logm_rot(R))
    return out


def rotvecs(seed, angles=None, small=False):
    """rotation vectors axis*angle; zero only once"""
    out = []
    seen = set()
    for th in (angles if angles is not None else (ANGLES_SMALL if small else ANGLES_FULL)):
        for ax in axes(seed, small=small):
            v = ax * th
            k = tuple(v.tolist())
            if k in seen:
                continue
            seen.add(k)
            out.append(v)
    if angles is None and not small:
        out.extend(euler_edge_rotvecs())
    return out


def so2_angles(seed):
    return [0.0, 1e-200, 1e-6, 1e-4, 1e-3, -5e-3, 0.05, 0.3, -0.7, PI / 2, 2.5, -3.0, PI - 1e-5, PI, 4.0, -5.5, 6.2]


def rot_reps(kind, v, include_noncanonical=True):
    """all representatives (raw parameter vectors) in parameterisation `kind` of the rotation exp([v]x).
    yields (tag, param, R_ref).  Representatives the property's quantifier excludes are not produced
    (Euler inside the +-1e-3 rad gimbal band)."""
    R = ref.rot(v)
    th = float(np.linalg.norm(v))
    out = []
    if kind == "Quat":
        out.append(("q+", ref.quat_of(v, +1), R))
        if include_noncanonical:
            out.append(("q-", ref.quat_of(v, -1), R))
    elif kind == "Mrp":
        # principal MRP needs |theta| <= pi ; for larger angles use the equivalent principal rotation
        if th <= PI + 1e-12:
            out.append(("r", ref.mrp_of(v), R))
            if include_noncanonical and th >= 0.5:
                out.append(("r_shadow", ref.mrp_of(v, shadow=True), R))
        else:
            out.append(("r_shadow_of_long", ref.mrp_of(v), R))
    elif kind == "Dcm":
        out.append(("R", R.reshape(-1, order="F").copy(), R))
    elif kind == "Euler":
        e = ref.euler321_of_R(R)
        if abs(abs(e[1]) - PI / 2) > 1.0e-3 * (1 + 1e-7):
            out.append(("e", e, ref.R_from_euler321(e)))
    else:
        raise ValueError(kind)
    return out


# ----------------------------------------------------------------------------------------------
# group / algebra element alphabets for an arbitrary layout (see lib.layout)
# ----------------------------------------------------------------------------------------------
def _slot_values(slot, seed, small):
    """list of (tag, raw_param_array, reference) for one slot.  reference: 3x3 R for rot, float for angle,
    vector for vec"""
    if slot[0] == "angle":
        vals = so2_angles(seed)
        if small:
            vals = [0.0, -5e-3, 0.3, -0.7, 2.5, 4.0]
        return [("a%g" % a, np.array([a]), a) for a in vals]
    if slot[0] == "vec":
        return [("v%d" % i, v, v) for i, v in enumerate(vecs(seed, slot[1], small=small))]
    if slot[0] == "rot":
        out = []
        for v in rotvecs(seed, small=small):
            for tag, p, R in rot_reps(slot[1], v):
                out.append(("%s(%s)" % (tag, ",".join("%.3g" % c for c in v)), p, R))
        return out
    if slot[0] == "rotvec":
        angs = (ANGLES_SMALL + [PI + 0.1]) if small else (ANGLES_FULL + ANGLES_BEYOND)
        vs = rotvecs(seed, angles=angs, small=small)
        if not small:
            vs = vs + euler_edge_rotvecs()  # exp / log targets just outside the Euler gimbal band (non-zero roll, both poles)
        return [("w(%s)" % ",".join("%.5g" % c for c in v), v, v) for v in vs]
    raise ValueError(slot)


def elements(layout, seed, small=False, cap_product=800):
    """deterministic list of elements: every slot value appears (sweep), plus the full Cartesian
    product of the small per-slot alphabets.  Each element: dict(tag, p (raw params), refs (per slot))."""
    full = [_slot_values(s, seed, small) for s in layout]
    sm = [_slot_values(s, seed, True) for s in layout]
    out, seen = [], set()

    def add(choice):
        p = np.concatenate([c[1] for c in choice]) if choice else np.zeros(0)
        k = p.tobytes()
        if k in seen:
            return
        seen.add(k)
        out.append(dict(tag="|".join(c[0] for c in choice), p=p, refs=[c[2] for c in choice]))

    # sweep: each slot through its full alphabet, others cycling
    primes = [1, 3, 5, 7, 11, 13, 17, 19, 23]
    for s, vals in enumerate(full):
        for i, v in enumerate(vals):
            choice = []
            for t, other in enumerate(full):
                if t == s:
                    choice.append(v)
                else:
                    choice.append(other[(i * primes[t % len(primes)] + t) % len(other)])
            add(choice)
    # full product of small alphabets (thinned deterministically if above cap)
    sizes = [len(v) for v in sm]
    total = int(np.prod(sizes)) if sizes else 0
    idx_lists = [list(range(n)) for n in sizes]
    while total > cap_product:
        j = int(np.argmax([len(l) for l in idx_lists]))
        idx_lists[j] = idx_lists[j][::2]
        total = int(np.prod([len(l) for l in idx_lists]))
    for combo in itertools.product(*idx_lists):
        add([sm[s][i] for s, i in enumerate(combo)])
    return out


def reduced(elems, n):
    """first-n-by-stride deterministic sub-list (always includes the first element)"""
    if len(elems) <= n:
        return list(elems)
    step = len(elems) / float(n)
    return [elems[int(i * step)] for i in range(n)]
