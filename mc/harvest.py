"""signature-flip bisection: find the code's own branch boundaries along designed rays.

walk(prog, make_args, ts) evaluates the path signature of the compiled program at every parameter
value t in the sorted list ts (make_args(t) -> flat args) and, whenever two neighbours differ,
bisects between them ON THE IMPLEMENTATION'S OWN SIGNATURE down to two adjacent doubles.  Returns
the list of (t_lo, t_hi) boundary pairs.  Deterministic in the code under check."""
from __future__ import annotations

import math

from . import sxvm


def _mid(lo, hi):
    if lo > 0 and hi > 0 and hi / lo > 4:
        m = math.sqrt(lo) * math.sqrt(hi)
    else:
        m = lo + (hi - lo) / 2
    return m


def bisect(sig_of, lo, hi, slo, shi, max_iter=2200):
    """invariant: sig(lo)=slo != sig(hi).  Returns adjacent doubles (lo, hi) with sig(lo)==slo != sig(hi)."""
    for _ in range(max_iter):
        m = _mid(lo, hi)
        if m <= lo or m >= hi:
            break
        sm = sig_of(m)
        if sm == slo:
            lo = m
        else:
            hi, shi = m, sm
    return lo, hi


def walk(prog, make_args, ts, dom=sxvm.FLOAT):
    def sig_of(t):
        return sxvm.run(prog, make_args(t), dom)[1]
    ts = sorted(ts)
    out = []
    prev_t, prev_s = ts[0], sig_of(ts[0])
    for t in ts[1:]:
        s = sig_of(t)
        if s != prev_s:
            lo, hi = prev_t, t
            slo = prev_s
            # there may be several flips between two neighbours; peel them off one by one
            guard = 0
            while slo != s and guard < 8:
                a, b = bisect(sig_of, lo, hi, slo, s)
                out.append((a, b))
                lo, slo = b, sig_of(b)
                guard += 1
        prev_t, prev_s = t, s
    return out
