"""signature-flip bisection: find the code's own branch boundaries along designed rays.

walk(prog, make_args, ts) evaluates the path signature of the compiled program at every parameter
value t in the sorted list ts (make_args(t) -> flat args) and, whenever two neighbours differ,
bisects between them ON THE IMPLEMENTATION'S OWN SIGNATURE down to two adjacent doubles.  Returns
the list of (t_lo, t_hi) boundary pairs.  Deterministic in the code under check."""
from __future__ import annotations

import math

from . import sxvm


def _mid(lo, hi):
    if lo > 0 and hi > 0 and hi / lo > 4:
        m = math.sqrt(lo) * math.sqrt(hi)
    else:
        m = lo + (hi - lo) / 2
    return m


def bisect(sig_of, lo, hi, slo, shi, max_iter=2200):
    """invariant: sig(lo)=slo != sig(hi).  Returns adjacent doubles (lo, hi) with sig(lo)==slo != sig(hi)."""
    for _ in range(max_iter):
        m = _mid(lo, hi)
        if m <= lo or m >= hi:
            break
        sm = sig_of(m)
        if sm == slo:
            lo = m
        else:
            hi, shi = m, sm
    return lo, hi


def walk(prog, make_args, ts, dom=sxvm.FLOAT, pieces=False):
    """pieces=True: the pieces of floor / ceil / sign / fabs / fmod are part of the signature (a quantiser or a dead band written without a
    comparison is a boundary all the same)"""
    def sig_of(t):
        if pieces:
            st = []
            s_ = sxvm.run(prog, make_args(t), dom, steps=st)[1]
            return s_, tuple(st)
        return sxvm.run(prog, make_args(t), dom)[1]
    ts = sorted(ts)
    out = []
    prev_t, prev_s = ts[0], sig_of(ts[0])
    for t in ts[1:]:
        s = sig_of(t)
        if s != prev_s:
            lo, hi = prev_t, t
            slo = prev_s
            # there may be several flips between two neighbours; peel them off one by one
            guard = 0
            while slo != s and guard < 8:
                a, b = bisect(sig_of, lo, hi, slo, s)
                out.append((a, b))
                lo, slo = b, sig_of(b)
                guard += 1
        prev_t, prev_s = t, s
    return out


def margin_walk(prog, make_args, ts, per_cell=32, dom=sxvm.FLOAT):
    """windows that open and close again between two neighbours (a single comparison on a non-monotone quantity, e.g. sin^2(theta/2) < c
    around every whole turn): both neighbours have the same signature, so `walk` sees nothing.  Here the operand DIFFERENCE of every
    comparison (its margin) is followed on a finer grid (`per_cell` points per cell); where |margin| has a local minimum without a sign
    change, the minimum is located by golden-section search, and if the margin changes sign there, the window's edges are bisected.
    Returns boundary pairs (t_lo, t_hi) like `walk`, plus the point inside each window as (t_in, t_in)."""
    def eval_(t):
        m = []
        s_ = sxvm.run(prog, make_args(t), dom, margins=m)[1]
        return s_, m
    ts = sorted(ts)
    out = []
    gr = (math.sqrt(5) - 1) / 2
    for lo, hi in zip(ts, ts[1:]):
        if not (hi > lo):
            continue
        if lo > 0 and hi / lo > 50:
            pts = [lo * (hi / lo) ** (k / per_cell) for k in range(per_cell + 1)]
        else:
            pts = [lo + (hi - lo) * k / per_cell for k in range(per_cell + 1)]
        ev = [eval_(t) for t in pts]
        ncmp = min(len(m) for _, m in ev) if ev else 0
        for j in range(ncmp):
            g = [m[j] for _, m in ev]
            for k in range(1, len(pts) - 1):
                a, b, c = g[k - 1], g[k], g[k + 1]
                if not all(math.isfinite(v) for v in (a, b, c)):
                    continue
                if (a > 0) == (b > 0) == (c > 0) and abs(b) <= abs(a) and abs(b) <= abs(c) and (abs(b) < abs(a) or abs(b) < abs(c)):
                    # golden-section search for the minimum of |margin_j| on [pts[k-1], pts[k+1]]
                    x0, x3 = pts[k - 1], pts[k + 1]
                    x1, x2 = x3 - gr * (x3 - x0), x0 + gr * (x3 - x0)
                    f1, f2 = eval_(x1)[1][j], eval_(x2)[1][j]
                    sgn = b > 0
                    found = None
                    for _ in range(80):
                        for xx, ff in ((x1, f1), (x2, f2)):
                            if math.isfinite(ff) and (ff > 0) != sgn:
                                found = xx
                        if found is not None or not (x3 - x0) > 4e-16 * max(abs(x0), abs(x3), 1e-300):
                            break
                        if abs(f1) < abs(f2):
                            x3, x2, f2 = x2, x1, f1
                            x1 = x3 - gr * (x3 - x0)
                            f1 = eval_(x1)[1][j]
                        else:
                            x0, x1, f1 = x1, x2, f2
                            x2 = x0 + gr * (x3 - x0)
                            f2 = eval_(x2)[1][j]
                    if found is not None:
                        s_in = eval_(found)[0]
                        out.append((found, found))
                        for outside in (pts[k - 1], pts[k + 1]):
                            s_out = eval_(outside)[0]
                            if s_out != s_in:
                                def sig_of(t):
                                    return sxvm.run(prog, make_args(t), dom)[1]
                                a_, b_ = (outside, found) if outside < found else (found, outside)
                                sa_ = sig_of(a_)
                                out.append(bisect(sig_of, a_, b_, sa_, sig_of(b_)))
    return out


def ray_members(prog, make_args, ts, per_cell=12, pieces=True, dom=sxvm.FLOAT, cap=400):
    """parameter values on both sides of every outcome change of the compiled program along the ray t -> make_args(t), t in the sorted
    grid ts: signature flips between neighbours (walk, incl. the pieces of floor / sign / ...), and windows that open and close between
    neighbours (margin_walk).  Returns a sorted list of distinct t."""
    out = set()
    try:
        for a, b in walk(prog, make_args, ts, dom, pieces=pieces):
            out.add(a)
            out.add(b)
            # one more member well inside the cell behind the boundary (a window wider than an ulp but narrower than the grid)
        for a, b in margin_walk(prog, make_args, ts, per_cell=per_cell, dom=dom):
            out.add(a)
            out.add(b)
    except (ZeroDivisionError, OverflowError, ValueError):
        pass
    out = sorted(out)
    if len(out) > cap:
        step = len(out) / cap
        out = [out[int(k * step)] for k in range(cap)]
    return out


# ---------------------------------------------------------------------------------------------------------------------------
# generic harvesting for the Lie-group explorers: members next to every comparison the compiled operation makes along designed rays
# ---------------------------------------------------------------------------------------------------------------------------
_CACHE = {}


def lie_members(B, op, seed, tier="quick"):
    """raw parameter vectors (algebra vectors for exp / ad / wedge / Jacobians, group parameters otherwise) on both sides of every
    comparison outcome change of the compiled operation `op` of the built group B along rays: rotation angle 0 .. 6.2 rad about a
    coordinate, a diagonal and a generic axis (other slots fixed generic), and translation magnitude 0 .. 1e3.  A comparison that a
    change introduces BETWEEN two alphabet members (a window, a table lookup, a guard) flips the signature somewhere between them and is
    bisected down to adjacent doubles like the code's own thresholds."""
    import numpy as np
    from . import alpha, lib, ref
    key = (B.name, op, seed, tier)
    if key in _CACHE:
        return _CACHE[key]
    f = B.get(op)
    out = []
    if f is None:
        _CACHE[key] = out
        return out
    prog = sxvm.compile_fn(f)
    alg = op in ("exp", "ad", "wedge", "left_jacobian", "right_jacobian", "left_jacobian_inv", "right_jacobian_inv", "bracket")
    layout = lib.alg_layout(B.G) if alg else lib.layout(B.G)
    nin = f.n_in()
    axs = alpha.axes(seed)
    ray_axes = [axs[2], axs[3], axs[6]] if tier != "thorough" else [axs[0], axs[1], axs[2], axs[3], axs[5], axs[6], axs[9]]
    angle_grid = sorted(set(alpha.ANGLES_FULL + alpha.ANGLES_BEYOND + [math.pi + 1e-6, math.pi + 1e-4, 2 * math.pi - 1e-6]))
    mag_grid = [0.0, 1e-9, 1e-6, 1e-3, 0.03, 0.3, 1.0, 3.0, 10.0, 100.0, 1e3]

    def base_parts(zero_vec=False):
        parts = []
        for k, sl in enumerate(layout):
            if sl[0] == "angle":
                parts.append(np.array([0.4]))
            elif sl[0] == "vec":
                parts.append(np.zeros(sl[1]) if zero_vec else alpha.generic_vec(seed + k, sl[1]))
            elif sl[0] == "rotvec":
                parts.append(axs[6] * 0.7)
            else:
                parts.append(alpha.rot_reps(sl[1], axs[6] * 0.7)[0][1])
        return parts

    def second():
        # the fixed second operand of binary operations
        return list(np.concatenate(base_parts()))

    def mk_for(slot, setter):
        def mk(t):
            parts = base_parts()
            parts[slot] = setter(t)
            a = [list(np.concatenate(parts))]
            return a + [second()] * (nin - 1)
        return mk
    rays = []
    for k, sl in enumerate(layout):
        if sl[0] == "angle":
            rays.append((mk_for(k, lambda t: np.array([t])), [-6.2, -4.0, -math.pi, -2.5, -0.7, -1e-3, 0.0, 1e-6, 1e-3, 0.3, 1.0, 2.5, math.pi, 4.0, 6.2]))
        elif sl[0] == "vec":
            d = alpha.generic_vec(seed + 3, sl[1])
            d = d / max(np.linalg.norm(d), 1e-9)
            rays.append((mk_for(k, lambda t, d=d: d * t), mag_grid))
        elif sl[0] == "rotvec":
            for ax in ray_axes:
                rays.append((mk_for(k, lambda t, ax=ax: ax * t), angle_grid))
        else:
            kind = sl[1]
            for ax in ray_axes:
                def setter(t, ax=ax, kind=kind):
                    reps = alpha.rot_reps(kind, ax * t)
                    if not reps:  # inside the Euler gimbal band: use the band edge representative of the neighbouring angle
                        reps = alpha.rot_reps(kind, ax * (t + 2.1e-3)) or alpha.rot_reps(kind, ax * (t - 2.1e-3))
                    return reps[0][1]
                rays.append((mk_for(k, setter), angle_grid))
    # relation rays: the direction of a translational part swept from parallel to perpendicular to (and beyond) the rotation axis, and the
    # direction of a second translational part swept relative to the first (nearly parallel / nearly proportional inputs)
    phi_grid = [0.0, 1e-12, 1e-9, 1e-6, 1e-4, 1e-2, 0.3, 1.2, math.pi / 2, math.pi - 1e-2, math.pi - 1e-6, math.pi]
    vec_slots = [k for k, sl in enumerate(layout) if sl[0] == "vec" and sl[1] == 3]
    rot_slots = [k for k, sl in enumerate(layout) if sl[0] in ("rotvec", "rot")]
    if vec_slots and rot_slots:
        w_ax = axs[6]
        n_ax = np.cross(w_ax, axs[3])
        n_ax = n_ax / np.linalg.norm(n_ax)
        for vk in vec_slots:
            for mag in (2.5, 1e-3):
                rays.append((mk_for(vk, lambda t, mag=mag: mag * (math.cos(t) * w_ax + math.sin(t) * n_ax)), phi_grid))
    if len(vec_slots) >= 2:
        v1 = alpha.generic_vec(seed + vec_slots[0], 3)
        v1u = v1 / np.linalg.norm(v1)
        n2 = np.cross(v1u, axs[5])
        n2 = n2 / np.linalg.norm(n2)
        for sc in (0.7, -3.0):
            rays.append((mk_for(vec_slots[1], lambda t, sc=sc: sc * np.linalg.norm(v1) * (math.cos(t) * v1u + math.sin(t) * n2)), phi_grid))
    per_cell = 40 if tier == "thorough" else 12
    for mk, grid in rays:
        try:
            for lo, hi in walk(prog, mk, grid) + margin_walk(prog, mk, grid, per_cell=per_cell):
                for t in (lo, hi):
                    p = np.array(mk(t)[0], dtype=float)
                    if np.all(np.isfinite(p)):
                        out.append(p)
        except Exception:
            continue  # a ray the representation cannot follow (e.g. no representative) contributes nothing
    # de-duplicate
    seen, uniq = set(), []
    for p in out:
        kb = p.tobytes()
        if kb not in seen:
            seen.add(kb)
            uniq.append(p)
    _CACHE[key] = uniq
    return uniq
