"""Keyword / dict calls of the shipped CasADi Functions.

The harnesses call the shipped Functions by position, in the order their meaning dictates (thrust trim first, ...).  Generated code,
`f(name=value)` and `f.call({name: value})` users bind by NAME.  A Function whose name list does not line up with its expression
list is still correct by position and wrong by name.  `agree` makes one call by position and one by keyword - the keyword names
being the ones the harness's own positional meaning implies - and demands identical outputs (and the same for the output names)."""
from __future__ import annotations

import casadi as ca
import numpy as np

from . import order


def agree(res, f, in_names, out_names, site, sub, case, variants=(0, 1)):
    """in_names / out_names: the semantic names of the positional inputs / outputs as the harness uses them"""
    res.count("evaluations")
    have_in = [f.name_in(i) for i in range(f.n_in())]
    have_out = [f.name_out(i) for i in range(f.n_out())]
    if sorted(have_in) != sorted(in_names) or sorted(have_out) != sorted(out_names):
        res.fail(site=site, clause="keyword_call_binds_documented_names", cls="names", detail=dict(inputs=have_in, outputs=have_out, expected_inputs=list(in_names), expected_outputs=list(out_names)),
                 sub=sub, case=case)
        return
    for variant in variants:
        res.count("evaluations")
        res.count("keyword_calls")
        args = order._fn_inputs(f, variant)
        pos = f.call([ca.DM(a) for a in args])
        byname = f.call({n: ca.DM(a) for n, a in zip(in_names, args)})
        for k, n in enumerate(out_names):
            a = np.array(ca.densify(pos[k]), dtype=float)
            b = np.array(ca.densify(byname[n]), dtype=float)
            same = a.shape == b.shape and np.array_equal(np.isnan(a), np.isnan(b)) and np.array_equal(np.nan_to_num(a), np.nan_to_num(b))
            if not same:
                res.fail(site=site, clause="keyword_call_equals_positional_call", cls=n, detail=dict(output=n, by_position=a, by_name=b, inputs={m: np.asarray(v) for m, v in zip(in_names, args)}),
                         sub=sub, case=case)
                break


SIGNATURES = {
    "position_control": (["thrust_trim", "pt_w", "vt_w", "at_w", "qc_wb", "p_w", "v_w", "z_i", "dt"], ["nT", "qr_wb", "z_i_2"]),
    "input_auto_level": (["thrust_trim", "thrust_delta", "input_aetr", "q"], ["q_r", "thrust"]),
    "input_velocity": (["dt", "psi_sp", "pw_sp", "pw", "input_aetr", "reset_position"], ["psi_sp1", "psi_vel_sp", "pw_sp1", "vw_sp", "aw_sp", "q_sp"]),
    "input_acro": (["thrust_trim", "thrust_delta", "input_aetr"], ["omega", "thrust"]),
    "attitude_control": (["kp", "q", "q_r"], ["omega"]),
    "attitude_rate_control": (["kp", "ki", "kd", "f_cut", "i_max", "omega", "omega_r", "i0", "e0", "de0", "dt"], ["M", "i1", "e1", "de1", "alpha"]),
    "control_allocation": (["F_max", "l", "Cm", "Ct", "T", "M"], ["omega", "Fp_sum", "F_moment", "F_thrust", "M_sat"]),
    "strapdown_ins_propagate": (["x0", "a_b", "omega_b", "g", "dt"], ["x1"]),
    "se23_position_control": (["thrust_trim", "kp", "zeta", "at_w", "qc_wb", "z_i", "dt"], ["nT", "qr_wb", "z_i_2"]),
    "se23_attitude_control": (["kp", "zeta"], ["omega"]),
    "se23_error": (["p_w", "v_w", "q_wb", "p_rw", "v_rw", "q_r"], ["zeta"]),
    "so3_attitude_control": (["kp", "q", "q_r"], ["omega"]),
    "f_ref": (["psi", "psi_dot", "psi_ddot", "v_e", "a_e", "j_e", "s_e"], ["v_b", "quat", "omega_eb_b", "omega_dot_eb_b", "M_b", "T"]),
    "eulerB321_to_quat": (["yaw", "pitch", "roll"], ["q"]),
    "dcm_to_quat": (["R"], ["q"]),
    "bezier_multirotor": (["t", "T", "PX", "PY", "PZ", "Ppsi"], ["x", "y", "z", "psi", "psidot", "psiddot", "v", "a", "j", "s"]),
    "bezier7_solve": (["wp_0", "wp_1", "T"], ["P"]),
    "bezier7_traj": (["t", "T", "P"], ["r"]),
    "bezier3_solve": (["wp_0", "wp_1", "T"], ["P"]),
    "bezier3_traj": (["t", "T", "P"], ["r"]),
    "mr_ref_traj": (["psi", "psi_dot", "psi_ddot", "v_e", "a_e", "j_e", "s_e", "m", "g", "J_xx", "J_yy", "J_zz", "J_xz"], ["v_b", "C_be", "omega_eb_b", "omega_dot_eb_b", "M_b", "T"]),
}


def agree_all(res, fns, sub, case):
    """fns: iterable of casadi Functions whose name() is a key of SIGNATURES (the positional meaning every harness in mc/props relies on)"""
    for f in fns:
        if not isinstance(f, ca.Function) or f.name() not in SIGNATURES:
            continue
        ins, outs = SIGNATURES[f.name()]
        agree(res, f, ins, outs, f.name(), sub, case)


def _load(which):
    import contextlib
    import io
    with contextlib.redirect_stdout(io.StringIO()):
        from cyecca.models import bezier, mr_ref_traj, rdd2, rdd2_loglinear
        groups = dict(
            allocation=[rdd2.derive_control_allocation],
            setpoints=[rdd2.derive_position_control, rdd2_loglinear.derive_outerloop_control, rdd2.derive_input_auto_level, bezier.derive_ref, mr_ref_traj.derive_mr_ref_traj,
                       bezier.derive_eulerB321_to_quat, bezier.derive_dcm_to_quat],
            control=[rdd2.derive_input_velocity, rdd2.derive_input_acro, rdd2.derive_attitude_control, rdd2.derive_attitude_rate_control, rdd2.derive_position_control,
                     rdd2_loglinear.derive_so3_attitude_control, rdd2_loglinear.derive_se23_error, rdd2_loglinear.derive_outerloop_control],
            cascade=[rdd2.derive_position_control, rdd2.derive_attitude_control, rdd2.derive_attitude_rate_control, rdd2.derive_control_allocation,
                     rdd2_loglinear.derive_so3_attitude_control, rdd2_loglinear.derive_se23_error, rdd2_loglinear.derive_outerloop_control],
            bezier=[bezier.derive_bezier7, bezier.derive_bezier3, bezier.derive_multirotor],
            ins=[rdd2.derive_strapdown_ins_propagation],
        )
        out = []
        for d in groups[which]:
            out.extend(v for v in d().values() if isinstance(v, ca.Function))
    return out


class KwSub:
    """sub-check object for a property module: keyword calls of the named family of shipped Functions agree with positional calls"""
    chunks = 1

    def __init__(self, which):
        self.which = which

    def cases(self, tier, seed):
        return [dict(sub="keywords", tier=tier, seed=seed)]

    def run(self, case):
        from . import core
        res = core.Result()
        fns = _load(self.which)
        agree_all(res, fns, "keywords", case)
        judged = [f.name() for f in fns if f.name() in SIGNATURES]
        if not judged:
            raise core.HarnessError("keyword sub-check %s: no known function" % self.which)
        for n in judged:
            res.nontrivial.add(hash(n))
            res.nontrivial.add(hash(n + "#"))
        res.outcomes.add(len(judged))
        res.count("states", len(judged))
        res.count("transitions", len(judged))
        res.samples.append(dict(keyword_calls=judged))
        return res

    def replay(self, case):
        return self.run(case).fails
