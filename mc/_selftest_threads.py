"""toy target for the self-test of mc/threads.py"""
_PARKED = [None]


def work(k, shared):
    if shared:
        _PARKED[0] = k * 2
        a = 1
        b = a + 1
        return _PARKED[0] + b
    v = k * 2
    a = 1
    b = a + 1
    return v + b
