"""closed-loop harness for C17: the shipped quadrotor model + either shipped cascade, wired as scripts/rdd2_sim.py does
(gains, F_max, thrust trim, fed-back z_i, i0, e0, de0), with perfect state feedback and a fixed hover set-point."""
from __future__ import annotations

import contextlib
import io
import math

import casadi as ca
import numpy as np

from . import ref

_S = {}


def setup():
    if _S:
        return _S
    with contextlib.redirect_stdout(io.StringIO()):
        from cyecca.models import quadrotor, rdd2, rdd2_loglinear
        # a second vehicle was derived and customised earlier in the same process (its own default tables are written in place, as
        # quadrotor.sim and the simulation script do): the vehicle derived next must still have the shipped defaults
        other = quadrotor.derive_model()
        for k_, v_ in (("m", 3.0), ("l_motor_0", 0.35), ("l_motor_1", 0.35), ("dir_motor_0", -other["p_defaults"]["dir_motor_0"]), ("dir_motor_1", -other["p_defaults"]["dir_motor_1"])):
            other["p_defaults"][k_] = v_
        m = quadrotor.derive_model()
        eqs = {}
        for d in (rdd2.derive_attitude_rate_control, rdd2.derive_attitude_control, rdd2.derive_position_control, rdd2.derive_control_allocation):
            eqs.update(d())
        for d in (rdd2_loglinear.derive_so3_attitude_control, rdd2_loglinear.derive_outerloop_control, rdd2_loglinear.derive_se23_error):
            eqs.update(d())
    names = [m["p"][i].name() for i in range(m["p"].shape[0])]
    pd = dict(m["p_defaults"])
    pv = np.array([float(pd[n]) for n in names])
    # one 10 ms control period = 10 RK4 sub-steps of the real model function, compiled once
    x = ca.SX.sym("x", 17)
    u = ca.SX.sym("u", 4)
    f = m["f"]
    h = 0.001
    xx = x
    for _ in range(10):
        k1 = f(xx, u, pv)
        k2 = f(xx + h / 2 * k1, u, pv)
        k3 = f(xx + h / 2 * k2, u, pv)
        k4 = f(xx + h * k3, u, pv)
        xx = xx + h / 6 * (k1 + 2 * k2 + 2 * k3 + k4)
    _S["plant_step"] = ca.Function("plant_step", [x, u], [xx])
    _S["model"] = m
    _S["pv"] = pv
    _S["eqs"] = eqs
    _S["pd"] = pd
    return _S


def dae_step(dt):
    """the plant advanced through the model's integrator interface (`model["dae"]` with cvodes), as scripts/rdd2_sim.py does"""
    S = setup()
    k = ("dae_step", dt)
    if k not in _S:
        integ = ca.integrator("plant_cvodes", "cvodes", S["model"]["dae"], 0.0, dt, {"abstol": 1e-10, "reltol": 1e-10})
        pv = S["pv"]
        _S[k] = lambda x, u: integ(x0=x, u=u, p=pv, z0=0)["xf"]
    return _S[k]


def run(mode, x0, target, yaw_sp, tf, dt=0.01, plant="rk4"):
    """returns dict(t, X (states), U (motor commands), err (first exception or None))"""
    S = setup()
    step_fn = S["plant_step"] if plant == "rk4" else dae_step(dt)
    E, pd = S["eqs"], S["pd"]
    m, g = pd["m"], pd["g"]
    thrust_trim = m * g
    F_max, l, CM, CT = 20.0, pd["l_motor_0"], pd["CM"], pd["CT"]
    k_p_att = np.array([5.0, 5.0, 2.0])
    kp, ki, kd = np.array([0.3, 0.3, 0.05]), np.zeros(3), np.array([0.1, 0.1, 0.0])
    f_cut, i_max = 10.0, np.zeros(3)
    qc = np.array([math.cos(yaw_sp / 2), 0, 0, math.sin(yaw_sp / 2)])
    x = np.array(x0, dtype=float)
    z_i, i0, e0, de0 = 0.0, np.zeros(3), np.zeros(3), np.zeros(3)
    n = int(round(tf / dt))
    X = np.zeros((n + 1, 17))
    U = np.zeros((n, 4))
    X[0] = x
    a = lambda v: np.array(v, dtype=float).reshape(-1)
    for k in range(n):
        pw, vb, q, om = x[0:3], x[3:6], x[6:10], x[10:13]
        vw = ref.R_from_quat(q) @ vb
        if mode == "mellinger":
            o = E["position_control"](thrust_trim, target, np.zeros(3), np.zeros(3), qc, pw, vw, z_i, dt)
            thrust, q_sp, z_i = float(o[0]), a(o[1]), float(o[2])
            omega_sp = a(E["attitude_control"](k_p_att, q, q_sp))
        else:
            zeta = a(E["se23_error"](pw, vw, q, target, np.zeros(3), qc))
            o = E["se23_position_control"](thrust_trim, k_p_att, zeta, np.zeros(3), qc, z_i, dt)
            thrust, q_sp, z_i = float(o[0]), a(o[1]), float(o[2])
            omega_sp = a(E["so3_attitude_control"](k_p_att, q, q_sp))
        o = E["attitude_rate_control"](kp, ki, kd, f_cut, i_max, om, omega_sp, i0, e0, de0, dt)
        M, i0, e0, de0 = a(o[0]), a(o[1]), a(o[2]), a(o[3])
        u = a(E["f_alloc"](F_max, l, CM, CT, thrust, M)[0])
        U[k] = u
        x = a(step_fn(x, u))
        X[k + 1] = x
        if not np.all(np.isfinite(x)):
            return dict(X=X[:k + 2], U=U[:k + 1], dt=dt, nan_at=k + 1)
    return dict(X=X, U=U, dt=dt, nan_at=None)
