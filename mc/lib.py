"""Binding to the code under check: builds numeric CasADi Functions from the repository's own
group / algebra objects (current working tree, via cyecca.pth or CYECCA_SRC) and describes the
parameter layout of each group so that alphabets can be generated for any configuration."""
from __future__ import annotations

import contextlib
import io
import itertools
import os

import casadi as ca
import numpy as np

with contextlib.redirect_stdout(io.StringIO()):
    import cyecca.lie as lie
    from cyecca.lie.group_se3 import SE3LieGroup
    from cyecca.lie.group_se23 import SE23LieGroup
    from cyecca.lie.direct_product import LieGroupDirectProduct

SO3S = {"Quat": lie.SO3Quat, "Mrp": lie.SO3Mrp, "Dcm": lie.SO3Dcm, "Euler": lie.SO3EulerB321}


def singletons():
    return {
        "SO2": lie.SO2, "SE2": lie.SE2, "R2": lie.R2, "R3": lie.R3,
        "SO3Quat": lie.SO3Quat, "SO3Mrp": lie.SO3Mrp, "SO3Dcm": lie.SO3Dcm, "SO3EulerB321": lie.SO3EulerB321,
        "SE3Quat": lie.SE3Quat, "SE3Mrp": lie.SE3Mrp, "SE23Quat": lie.SE23Quat, "SE23Mrp": lie.SE23Mrp,
    }


def extra_semidirect():
    """SE(3)/SE_2(3) over the SO(3) parameterisations that are not exported as singletons"""
    return {
        "SE3Dcm": SE3LieGroup(SO3=lie.SO3Dcm), "SE3Euler": SE3LieGroup(SO3=lie.SO3EulerB321),
        "SE23Dcm": SE23LieGroup(SO3=lie.SO3Dcm), "SE23Euler": SE23LieGroup(SO3=lie.SO3EulerB321),
    }


def base_groups():
    d = singletons()
    d.update(extra_semidirect())
    return d


def so3_kind(G):
    for k, v in SO3S.items():
        if G is v:
            return k
    return None


def layout(G):
    """list of slots: ("angle",), ("vec", n), ("rot", kind)  in parameter order"""
    if isinstance(G, LieGroupDirectProduct):
        out = []
        for g in G.groups:
            out.extend(layout(g))
        return out
    if G is lie.SO2:
        return [("angle",)]
    if G is lie.SE2:
        return [("vec", 2), ("angle",)]
    if G is lie.R2:
        return [("vec", 2)]
    if G is lie.R3:
        return [("vec", 3)]
    k = so3_kind(G)
    if k:
        return [("rot", k)]
    if isinstance(G, SE3LieGroup):
        return [("vec", 3), ("rot", so3_kind(G.SO3))]
    if isinstance(G, SE23LieGroup):
        return [("vec", 3), ("vec", 3), ("rot", so3_kind(G.SO3))]
    raise ValueError("unknown group %r" % G)


def alg_layout(G):
    """slots of the algebra parameter vector, in order"""
    if isinstance(G, LieGroupDirectProduct):
        out = []
        for g in G.groups:
            out.extend(alg_layout(g))
        return out
    if G is lie.SO2:
        return [("angle",)]
    if G is lie.SE2:
        return [("vec", 2), ("angle",)]
    if G is lie.R2:
        return [("vec", 2)]
    if G is lie.R3:
        return [("vec", 3)]
    if so3_kind(G):
        return [("rotvec",)]
    if isinstance(G, SE3LieGroup):
        return [("vec", 3), ("rotvec",)]
    if isinstance(G, SE23LieGroup):
        return [("vec", 3), ("vec", 3), ("rotvec",)]
    raise ValueError("unknown group %r" % G)


class Built:
    """numeric functions of one group; each is built lazily from the library's symbolic code.
    get(op) returns a callable or raises; .status[op] in {"ok","not_implemented","error:<Type>: msg"}"""

    def __init__(self, name, G):
        self.name, self.G = name, G
        self.fn = {}
        self.status = {}
        self.n = G.n_param
        self.na = G.algebra.n_param
        self.mshape = tuple(G.matrix_shape)

    def _build(self, op):
        G, A = self.G, self.G.algebra
        a = ca.SX.sym("a", self.n)
        b = ca.SX.sym("b", self.n)
        x = ca.SX.sym("x", self.na)
        y = ca.SX.sym("y", self.na)
        M = ca.SX.sym("M", *self.mshape)
        E, e = G.elem, A.elem
        with contextlib.redirect_stdout(io.StringIO()):
            if op == "product":
                return ca.Function(op, [a, b], [ca.densify((E(a) * E(b)).param)])
            if op == "inverse":
                return ca.Function(op, [a], [ca.densify(E(a).inverse().param)])
            if op == "identity":
                return ca.Function(op, [], [ca.densify(G.identity().param)])
            if op == "to_Matrix":
                return ca.Function(op, [a], [ca.densify(E(a).to_Matrix())])
            if op == "from_Matrix":
                return ca.Function(op, [M], [ca.densify(G.from_Matrix(M).param)])
            if op == "exp":
                return ca.Function(op, [x], [ca.densify(e(x).exp(G).param)])
            if op == "log":
                return ca.Function(op, [a], [ca.densify(E(a).log().param)])
            if op == "Ad":
                return ca.Function(op, [a], [ca.densify(E(a).Ad())])
            if op == "ad":
                return ca.Function(op, [x], [ca.densify(e(x).ad())])
            if op == "bracket":
                return ca.Function(op, [x, y], [ca.densify((e(x) * e(y)).param)])
            if op == "wedge":
                return ca.Function(op, [x], [ca.densify(e(x).to_Matrix())])
            if op in ("left_jacobian", "right_jacobian", "left_jacobian_inv", "right_jacobian_inv"):
                r = getattr(e(x), op)()
                if r is None:
                    raise NotImplementedError(op)
                return ca.Function(op, [x], [ca.densify(r)])
            if op in ("g_left_jacobian", "g_right_jacobian"):
                r = getattr(E(a), op[2:])()
                if r is None:
                    raise NotImplementedError(op)
                return ca.Function(op, [a], [ca.densify(r)])
        raise KeyError(op)

    def get(self, op):
        if op not in self.status:
            try:
                self.fn[op] = self._build(op)
                self.status[op] = "ok"
            except NotImplementedError:
                self.status[op] = "not_implemented"
            except Exception as ex:  # anything else from an offered operation is a finding
                self.status[op] = "error:%s: %s" % (type(ex).__name__, str(ex)[:200])
        return self.fn.get(op)

    def call(self, op, *args):
        f = self.get(op)
        if f is None:
            raise RuntimeError("%s.%s unavailable: %s" % (self.name, op, self.status[op]))
        r = f.call([ca.DM(np.asarray(v, dtype=float)) for v in args])[0]
        return np.array(r, dtype=float)

    def vec(self, op, *args):
        return self.call(op, *args).reshape(-1)


_BUILT = {}


def built(name, G=None) -> Built:
    if name not in _BUILT:
        if G is None:
            G = resolve(name)
        _BUILT[name] = Built(name, G)
    return _BUILT[name]


def resolve(name):
    """name is a base group name or 'A*B' / 'A*B*C' / '(A*B)*C' / 'A*(B*C)' of base names"""
    base = base_groups()
    if name in base:
        return base[name]
    expr = name
    env = dict(base)
    return eval(expr, {"__builtins__": {}}, env)  # only our own strings reach here
