"""sxvm: a path-recording, multi-domain interpreter of CasADi SX Function instruction lists.

compile_fn(f) reads f's instruction list once (n_instructions / instruction_id / instruction_input /
instruction_output / instruction_constant) into plain Python tuples.  run(prog, args, dom) then
executes that *same* program over a number domain:

    FLOAT     Python floats with C semantics (inf/nan instead of exceptions); conformance-gated
              against CasADi's own evaluation (bitwise) by conform().
    MPF       mpmath at 60 digits: the same program without rounding to speak of.
    FRACTION  exact rationals; irrational opcodes raise NotRational.

While running it records the path signature: the outcome of every comparison instruction and the
winner of every fmin/fmax.  Two inputs with the same signature executed the same straight-line code.
"""
from __future__ import annotations

import math
from fractions import Fraction

import casadi as ca
import mpmath

mpmath.mp.dps = 60

(OP_ASSIGN, OP_ADD, OP_SUB, OP_MUL, OP_DIV, OP_NEG, OP_EXP, OP_LOG, OP_POW, OP_CONSTPOW, OP_SQRT,
 OP_SQ, OP_TWICE, OP_SIN, OP_COS, OP_TAN, OP_ASIN, OP_ACOS, OP_ATAN, OP_LT, OP_LE, OP_EQ, OP_NE,
 OP_NOT, OP_AND, OP_OR, OP_FLOOR, OP_CEIL, OP_FMOD, OP_FABS, OP_SIGN, OP_COPYSIGN,
 OP_IF_ELSE_ZERO, OP_ERF, OP_FMIN, OP_FMAX, OP_INV, OP_SINH, OP_COSH, OP_TANH, OP_ASINH,
 OP_ACOSH, OP_ATANH, OP_ATAN2, OP_CONST, OP_INPUT, OP_OUTPUT) = range(47)
OP_LOG1P, OP_EXPM1, OP_HYPOT, OP_REMAINDER = ca.OP_LOG1P, ca.OP_EXPM1, ca.OP_HYPOT, ca.OP_REMAINDER
assert ca.OP_OUTPUT == 46 and ca.OP_ATAN2 == 43 and ca.OP_IF_ELSE_ZERO == 32

COMPARISONS = (OP_LT, OP_LE, OP_EQ, OP_NE)
BRANCHY = COMPARISONS + (OP_FMIN, OP_FMAX)


class NotRational(Exception):
    pass


class Prog:
    __slots__ = ("name", "instr", "n_w", "in_sizes", "out_sizes", "n_cmp", "cmp_index", "in_sp", "out_sp")


def compile_fn(f: ca.Function) -> Prog:
    if f.class_name() != "SXFunction":
        raise TypeError("sxvm only interprets SXFunction, got %s" % f.class_name())
    p = Prog()
    p.name = f.name()
    n = f.n_instructions()
    instr = []
    cmp_index = []
    for k in range(n):
        op = f.instruction_id(k)
        i = tuple(f.instruction_input(k))
        o = tuple(f.instruction_output(k))
        c = f.instruction_constant(k) if op == OP_CONST else None
        instr.append((op, i, o, c))
        if op in BRANCHY:
            cmp_index.append(k)
    p.instr = instr
    p.n_w = f.sz_w()
    p.in_sizes = [f.nnz_in(i) for i in range(f.n_in())]
    p.out_sizes = [f.nnz_out(i) for i in range(f.n_out())]
    p.cmp_index = cmp_index
    p.n_cmp = len(cmp_index)
    return p


# ---------------------------------------------------------------------------------------------
# domains
# ---------------------------------------------------------------------------------------------
_NAN = float("nan")
_INF = float("inf")


def _f_div(a, b):
    try:
        return a / b
    except ZeroDivisionError:
        if a != a or a == 0:
            return _NAN
        neg = (math.copysign(1.0, a) < 0) != (math.copysign(1.0, b) < 0)
        return -_INF if neg else _INF


def _f_guard(fn):
    def g(*a):
        try:
            return fn(*a)
        except (ValueError, ZeroDivisionError):
            return _NAN
        except OverflowError:
            return _INF
    return g


def _f_pow(a, b):
    try:
        r = math.pow(a, b)
        return r
    except ValueError:
        return _NAN
    except OverflowError:
        return _INF
    except ZeroDivisionError:
        return _INF


def _f_fmin(a, b):
    if a != a:
        return b
    if b != b:
        return a
    return a if a < b else b


def _f_fmax(a, b):
    if a != a:
        return b
    if b != b:
        return a
    return a if a > b else b


def _f_sign(a):
    if a != a:
        return a
    return 1.0 if a > 0 else (-1.0 if a < 0 else 0.0)


class FloatDom:
    name = "float"

    def const(self, c):
        return float(c)

    inp = const

    def to_float(self, x):
        return x

    def truth(self, x):
        return x != 0

    def boolv(self, b):
        return 1.0 if b else 0.0

    zero = 0.0
    un = {
        OP_ASSIGN: lambda a: a, OP_NEG: lambda a: -a, OP_EXP: _f_guard(math.exp),
        OP_LOG: lambda a: (-_INF if a == 0 else (_NAN if (a < 0 or a != a) else math.log(a))),
        OP_SQRT: _f_guard(math.sqrt), OP_SQ: lambda a: a * a, OP_TWICE: lambda a: 2.0 * a,
        OP_SIN: _f_guard(math.sin), OP_COS: _f_guard(math.cos), OP_TAN: _f_guard(math.tan),
        OP_ASIN: _f_guard(math.asin), OP_ACOS: _f_guard(math.acos), OP_ATAN: math.atan,
        OP_FLOOR: lambda a: a if (a != a or a in (_INF, -_INF)) else float(math.floor(a)),
        OP_CEIL: lambda a: a if (a != a or a in (_INF, -_INF)) else float(math.ceil(a)),
        OP_FABS: abs, OP_SIGN: _f_sign, OP_ERF: math.erf, OP_INV: lambda a: _f_div(1.0, a),
        OP_SINH: _f_guard(math.sinh), OP_COSH: _f_guard(math.cosh), OP_TANH: math.tanh,
        OP_ASINH: math.asinh, OP_ACOSH: _f_guard(math.acosh), OP_ATANH: _f_guard(math.atanh),
    }
    bi = {
        OP_ADD: lambda a, b: a + b, OP_SUB: lambda a, b: a - b, OP_MUL: lambda a, b: a * b,
        OP_DIV: _f_div, OP_POW: _f_pow, OP_CONSTPOW: _f_pow,
        OP_FMOD: _f_guard(math.fmod), OP_COPYSIGN: math.copysign,
        OP_ATAN2: math.atan2, OP_REMAINDER: _f_guard(math.remainder), OP_HYPOT: math.hypot,
    }


def _m_guard(fn):
    def g(*a):
        try:
            r = fn(*a)
            if isinstance(r, mpmath.mpc):
                return mpmath.nan
            return r
        except (ValueError, ZeroDivisionError, mpmath.libmp.ComplexResult):
            return mpmath.nan
    return g


def _m_div(a, b):
    if b == 0:
        if a == 0 or mpmath.isnan(a):
            return mpmath.nan
        return mpmath.inf if a > 0 else -mpmath.inf
    return a / b


class MpfDom:
    name = "mpf"

    def const(self, c):
        return mpmath.mpf(c)

    def inp(self, x):
        return mpmath.mpf(x)

    def to_float(self, x):
        return float(x)

    def truth(self, x):
        return x != 0

    def boolv(self, b):
        return mpmath.mpf(1) if b else mpmath.mpf(0)

    zero = mpmath.mpf(0)
    un = {
        OP_ASSIGN: lambda a: a, OP_NEG: lambda a: -a, OP_EXP: mpmath.exp,
        OP_LOG: _m_guard(lambda a: mpmath.log(a) if a > 0 else (-mpmath.inf if a == 0 else mpmath.nan)),
        OP_SQRT: _m_guard(lambda a: mpmath.sqrt(a) if a >= 0 else mpmath.nan), OP_SQ: lambda a: a * a,
        OP_TWICE: lambda a: 2 * a, OP_SIN: mpmath.sin, OP_COS: mpmath.cos, OP_TAN: mpmath.tan,
        OP_ASIN: _m_guard(lambda a: mpmath.asin(a) if abs(a) <= 1 else mpmath.nan),
        OP_ACOS: _m_guard(lambda a: mpmath.acos(a) if abs(a) <= 1 else mpmath.nan),
        OP_ATAN: mpmath.atan, OP_FLOOR: mpmath.floor, OP_CEIL: mpmath.ceil, OP_FABS: abs,
        OP_SIGN: mpmath.sign, OP_ERF: mpmath.erf, OP_INV: lambda a: _m_div(mpmath.mpf(1), a),
        OP_SINH: mpmath.sinh, OP_COSH: mpmath.cosh, OP_TANH: mpmath.tanh, OP_ASINH: mpmath.asinh,
        OP_ACOSH: _m_guard(lambda a: mpmath.acosh(a) if a >= 1 else mpmath.nan),
        OP_ATANH: _m_guard(lambda a: mpmath.atanh(a) if abs(a) < 1 else mpmath.nan),
    }
    bi = {
        OP_ADD: lambda a, b: a + b, OP_SUB: lambda a, b: a - b, OP_MUL: lambda a, b: a * b,
        OP_DIV: _m_div,
        OP_POW: _m_guard(lambda a, b: mpmath.power(a, b)), OP_CONSTPOW: _m_guard(lambda a, b: mpmath.power(a, b)),
        OP_FMOD: _m_guard(lambda a, b: mpmath.sign(a) * mpmath.fmod(abs(a), abs(b))),
        OP_ATAN2: mpmath.atan2,
        OP_REMAINDER: _m_guard(lambda a, b: a - b * mpmath.nint(a / b)),
        OP_HYPOT: mpmath.hypot,
    }


class _Poison:
    """exact-domain stand-in for NaN/Inf (division by zero): propagates through arithmetic, compares false, and is
    discarded by if_else_zero when the branch is not selected - exactly like a NaN in an unselected branch in C"""
    __slots__ = ()

    def __repr__(self):
        return "POISON"

    def __float__(self):
        return float("nan")


POISON = _Poison()


def _q_inv(a):
    if a == 0:
        return POISON
    return 1 / a


def _pz1(fn):
    def g(a):
        if a is POISON:
            return POISON
        return fn(a)
    return g


def _pz2(fn):
    def g(a, b):
        if a is POISON or b is POISON:
            return POISON
        return fn(a, b)
    return g


class FracDom:
    """exact rationals.  Division by zero yields POISON (see above)."""
    name = "fraction"

    def const(self, c):
        return Fraction(c)  # exact value of the stored double

    def inp(self, x):
        return Fraction(x)

    def to_float(self, x):
        return float(x)

    def truth(self, x):
        return x is not POISON and x != 0

    def boolv(self, b):
        return Fraction(1) if b else Fraction(0)

    zero = Fraction(0)

    @staticmethod
    def _sqrt(a):
        if a < 0:
            return POISON
        n, d = a.numerator, a.denominator
        rn, rd = math.isqrt(n), math.isqrt(d)
        if rn * rn == n and rd * rd == d:
            return Fraction(rn, rd)
        raise NotRational("sqrt(%s)" % a)

    un = {
        OP_ASSIGN: lambda a: a, OP_NEG: _pz1(lambda a: -a), OP_SQ: _pz1(lambda a: a * a), OP_TWICE: _pz1(lambda a: 2 * a),
        OP_FABS: _pz1(abs), OP_INV: _pz1(_q_inv),
        OP_SIGN: _pz1(lambda a: Fraction((a > 0) - (a < 0))),
        OP_FLOOR: _pz1(lambda a: Fraction(math.floor(a))), OP_CEIL: _pz1(lambda a: Fraction(math.ceil(a))),
    }
    bi = {
        OP_ADD: _pz2(lambda a, b: a + b), OP_SUB: _pz2(lambda a, b: a - b), OP_MUL: _pz2(lambda a, b: a * b),
        OP_DIV: _pz2(lambda a, b: POISON if b == 0 else a / b),
    }


FracDom.un[OP_SQRT] = _pz1(FracDom._sqrt)


def _q_pow(a, b):
    if b.denominator == 1:
        e = b.numerator
        if e >= 0:
            return a ** e
        i = _q_inv(a)
        return POISON if i is POISON else i ** (-e)
    raise NotRational("pow with non-integer exponent")


FracDom.bi[OP_POW] = _pz2(_q_pow)
FracDom.bi[OP_CONSTPOW] = _pz2(_q_pow)

FLOAT, MPF, FRACTION = FloatDom(), MpfDom(), FracDom()


# ---------------------------------------------------------------------------------------------
# interpreter
# ---------------------------------------------------------------------------------------------
STEPPY = (OP_FLOOR, OP_CEIL, OP_SIGN, OP_FABS, OP_FMOD, OP_COPYSIGN)


def run(prog: Prog, args, dom=FLOAT, want_sig=True, margins=None, steps=None):
    """args: list of flat sequences (column-major nonzeros), one per function input.
    returns (outs, sig): outs = list of flat lists per output; sig = tuple of 0/1 per branchy instr
    (for fmin/fmax: 1 if the first argument wins).
    steps (optional list): receives, for every piecewise operation that is not a comparison (floor, ceil, sign, fabs, fmod, copysign),
    which piece was taken (the integer for floor / ceil / fmod quotient, the sign of the argument otherwise)."""
    w = [dom.zero] * max(prog.n_w, 1)
    ins = [[dom.inp(v) for v in a] for a in args]
    outs = [[dom.zero] * n for n in prog.out_sizes]
    sig = []
    un, bi = dom.un, dom.bi
    for op, i, o, c in prog.instr:
        if op == OP_CONST:
            w[o[0]] = dom.const(c)
        elif op == OP_INPUT:
            w[o[0]] = ins[i[0]][i[1]]
        elif op == OP_OUTPUT:
            outs[o[0]][o[1]] = w[i[0]]
        elif op in COMPARISONS:
            a, b = w[i[0]], w[i[1]]
            if a is POISON or b is POISON:
                t = (op == OP_NE)
                sig.append(1 if t else 0)
                if margins is not None:
                    margins.append(float("nan"))
                w[o[0]] = dom.boolv(t)
                continue
            if op == OP_LT:
                t = a < b
            elif op == OP_LE:
                t = a <= b
            elif op == OP_EQ:
                t = a == b
            else:
                t = a != b
            sig.append(1 if t else 0)
            if margins is not None:
                try:
                    margins.append(float(a) - float(b))
                except Exception:  # noqa: BLE001
                    margins.append(float("nan"))
            w[o[0]] = dom.boolv(t)
        elif op == OP_IF_ELSE_ZERO:
            w[o[0]] = w[i[1]] if dom.truth(w[i[0]]) else dom.zero
        elif op == OP_NOT:
            w[o[0]] = dom.boolv(not dom.truth(w[i[0]]))
        elif op == OP_AND:
            w[o[0]] = dom.boolv(dom.truth(w[i[0]]) and dom.truth(w[i[1]]))
        elif op == OP_OR:
            w[o[0]] = dom.boolv(dom.truth(w[i[0]]) or dom.truth(w[i[1]]))
        elif op == OP_FMIN or op == OP_FMAX:
            a, b = w[i[0]], w[i[1]]
            if a is POISON or a != a:
                r, t = b, 0
            elif b is POISON:
                r, t = a, 1
            elif b != b:
                r, t = a, 1
            elif op == OP_FMIN:
                t = 1 if a < b else 0
                r = a if t else b
            else:
                t = 1 if a > b else 0
                r = a if t else b
            sig.append(t)
            if margins is not None:
                try:
                    margins.append(float(a) - float(b))
                except Exception:  # noqa: BLE001
                    margins.append(float("nan"))
            w[o[0]] = r
        elif len(i) == 1:
            fn = un.get(op)
            if fn is None:
                raise NotRational("opcode %d not available in domain %s" % (op, dom.name))
            w[o[0]] = fn(w[i[0]])
            if steps is not None and op in STEPPY:
                steps.append(_piece(op, w[i[0]], None, w[o[0]]))
        else:
            fn = bi.get(op)
            if fn is None:
                raise NotRational("opcode %d not available in domain %s" % (op, dom.name))
            w[o[0]] = fn(w[i[0]], w[i[1]])
            if steps is not None and op in STEPPY:
                steps.append(_piece(op, w[i[0]], w[i[1]], w[o[0]]))
    return outs, tuple(sig)


def _piece(op, a, b, r):
    try:
        if a is POISON or r is POISON or a != a:
            return "nan"
        if op in (OP_FLOOR, OP_CEIL):
            return int(r) if abs(float(r)) < 1e300 else "inf"
        if op == OP_FMOD:
            return int(float(a) // float(b)) if b not in (0, POISON) and abs(float(a) / float(b)) < 1e300 else "nan"
        if op == OP_COPYSIGN:
            return (a > 0) - (a < 0), (b > 0) - (b < 0)
        return (a > 0) - (a < 0)
    except Exception:  # noqa: BLE001
        return "nan"


def flat_args(f: ca.Function, args):
    """convert user args (scalars / lists / numpy) to flat nonzero lists matching f's dense inputs"""
    import numpy as np
    out = []
    for k, a in enumerate(args):
        arr = np.asarray(a, dtype=object if isinstance(a, (list, tuple)) and a and isinstance(a[0], Fraction) else None)
        if arr.dtype == object:
            flat = list(arr.reshape(-1, order="F"))
        else:
            flat = [float(x) for x in np.asarray(a, dtype=float).reshape(-1, order="F")]
        if len(flat) != f.nnz_in(k):
            raise ValueError("input %d of %s: %d values for %d nonzeros" % (k, f.name(), len(flat), f.nnz_in(k)))
        out.append(flat)
    return out


def casadi_eval(f: ca.Function, flat):
    """CasADi's own evaluation; returns list of flat float lists (nonzeros, column-major)"""
    dm_in = []
    for k, a in enumerate(flat):
        d = ca.DM(f.sparsity_in(k))
        if len(a):
            d = ca.DM(f.sparsity_in(k), ca.DM([float(x) for x in a]))
        dm_in.append(d)
    res = f.call(dm_in)
    return [[float(x) for x in r.nonzeros()] for r in res]


def same_bits(a: float, b: float) -> bool:
    if a != a and b != b:
        return True
    return a == b and math.copysign(1.0, a) == math.copysign(1.0, b)


def ulp_diff(a: float, b: float) -> float:
    if a != a or b != b:
        return 0.0 if (a != a and b != b) else _INF
    if a == b:
        return 0.0
    if math.isinf(a) or math.isinf(b):
        return _INF
    return abs(a - b) / max(math.ulp(a), math.ulp(b))


def conform(f: ca.Function, prog: Prog, flat, max_ulp=4.0):
    """conformance gate: float VM vs CasADi on this input.  Returns (ok, worst_ulp, outs_casadi, sig)."""
    outs_vm, sig = run(prog, flat, FLOAT)
    outs_ca = casadi_eval(f, flat)
    worst = 0.0
    for a, b in zip(outs_vm, outs_ca):
        for x, y in zip(a, b):
            d = ulp_diff(x, y)
            if d > worst:
                worst = d
    return worst <= max_ulp, worst, outs_ca, sig


def densify_out(f: ca.Function, k: int, nz, zero=0):
    """dense column-major list of output k from its nonzeros (structural zeros filled with `zero`)"""
    sp = f.sparsity_out(k)
    n = sp.size1() * sp.size2()
    if sp.nnz() == n:
        return list(nz)
    out = [zero] * n
    rows, cols = sp.get_triplet()
    for v, r, c in zip(nz, rows, cols):
        out[c * sp.size1() + r] = v
    return out
