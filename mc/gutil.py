"""helpers shared by the Lie-group properties C01-C07: configuration lists, exclusion predicates
evaluated on the reference side, element classes for failure keys."""
from __future__ import annotations

import math

import numpy as np

from . import alpha, lib, ref

TOL = 1e-9

SINGLETONS = ["SO2", "SE2", "R2", "R3", "SO3Quat", "SO3Mrp", "SO3Dcm", "SO3EulerB321",
              "SE3Quat", "SE3Mrp", "SE23Quat", "SE23Mrp"]
EXTRA = ["SE3Dcm", "SE3Euler", "SE23Dcm", "SE23Euler"]
BASE = SINGLETONS + EXTRA


def product_configs(tier):
    """names of direct products built with `*`"""
    S = SINGLETONS
    n = len(S)
    if tier == "thorough":
        pairs = ["%s*%s" % (a, b) for a in S for b in S]
        triples = []
        for i in range(n):
            a, b, c = S[i], S[(i + 5) % n], S[(i + 7) % n]
            triples.append("(%s*%s)*%s" % (a, b, c))
            triples.append("%s*(%s*%s)" % (a, b, c))
    else:
        pairs = []
        for i in range(n):
            for k in (1, 5):
                pairs.append("%s*%s" % (S[i], S[(i + k) % n]))
        triples = ["(SO2*SE3Quat)*R3", "SO2*(SE3Quat*R3)", "(SO3Mrp*SE2)*SE23Quat", "SO3Dcm*(SO3EulerB321*SE23Mrp)"]
    # four and five factors, nested both ways (parameter / algebra offsets of later factors depend on every earlier one)
    many = ["((SO2*R2)*SE2)*SO3Quat", "(SO2*SE2)*(R3*SO3Mrp)", "SO2*SE2*R3*SO3Quat*SE3Mrp"]
    if tier == "thorough":
        many += ["SO3Mrp*(SE2*(SO3Quat*(R2*SO2)))", "SE3Quat*SO3Dcm*SO2*SE23Mrp", "(R3*SO3EulerB321)*(SE2*SO3Quat)*R2"]
    # the same group more than once (two planar vehicles, two attitudes): the factors are told apart by position, not by the group object
    repeated = ["SE2*SE2", "SO3Quat*SO3Quat", "R3*SO3Mrp*R3", "SO3Quat*(SE2*SO3Quat)"]
    if tier == "thorough":
        repeated += ["SE3Quat*SE3Quat", "SO2*R2*SO2*R2", "(SO3Mrp*SO3Mrp)*SO3Mrp"]
    return pairs + [r for r in repeated if r not in pairs] + triples + many


def rep_tag(e):
    """coarse class of an element: the representative tags of its rotation slots"""
    tags = []
    for t in e["tag"].split("|"):
        head = t.split("(")[0]
        if head[:1] in ("q", "r", "R", "e") and not head.startswith("v"):
            tags.append(head)
    return ",".join(tags) if tags else "-"


def slots_of(layout, p):
    """split raw parameter vector by layout -> list of arrays"""
    out, i = [], 0
    for s in layout:
        if s[0] == "angle":
            n = 1
        elif s[0] == "vec":
            n = s[1]
        elif s[0] == "rotvec":
            n = 3
        else:
            n = {"Quat": 4, "Mrp": 3, "Dcm": 9, "Euler": 3}[s[1]]
        out.append(np.asarray(p[i:i + n], dtype=float))
        i += n
    assert i == len(p), (layout, len(p))
    return out


def ref_R_of_slot(kind, p):
    """reference rotation matrix of raw parameters (textbook maps, independent of the library)"""
    if kind == "Quat":
        return ref.R_from_quat(p)
    if kind == "Mrp":
        return ref.R_from_mrp(p)
    if kind == "Dcm":
        return np.asarray(p, dtype=float).reshape(3, 3, order="F")
    if kind == "Euler":
        return ref.R_from_euler321(p)
    raise ValueError(kind)


def euler_in_band(R, margin=1.0e-3 * (1 + 1e-7)):
    """is the 3-2-1 pitch of R within `margin` of +-pi/2 (the documented gimbal band is 1e-3)"""
    s = -R[2, 0]
    if not math.isfinite(s):
        return True
    return abs(s) >= math.cos(margin)


def mrp_product_singular(a, b, margin=1e-5):
    """the composed rotation is a full turn (the MRP product formula divides by den = 1 + |a|^2 |b|^2 - 2 a.b): only the immediate
    neighbourhood is outside the domain - for den >= 1e-5 (relative) the formula is accurate to 1e-11"""
    na, nb = float(a @ a), float(b @ b)
    den = 1.0 + na * nb - 2.0 * float(b @ a)
    return abs(den) < margin * (1 + na) * (1 + nb) / 4.0 or abs(den) < margin


def product_excluded(layout, pa, pb):
    """quantifier exclusions for X*Y decided on the operands with reference formulas only"""
    for s, a, b in zip(layout, slots_of(layout, pa), slots_of(layout, pb)):
        if s[0] != "rot":
            continue
        if s[1] == "Mrp" and mrp_product_singular(a, b):
            return "mrp_360"
        if s[1] == "Euler":
            if euler_in_band(ref_R_of_slot("Euler", a) @ ref_R_of_slot("Euler", b)):
                return "euler_band"
    return None


def inverse_excluded(layout, pa):
    for s, a in zip(layout, slots_of(layout, pa)):
        if s[0] == "rot" and s[1] == "Euler":
            if euler_in_band(ref_R_of_slot("Euler", a).T):
                return "euler_band"
    return None


def elem_excluded(layout, pa):
    """is the element itself outside the quantifier (Euler in band, non finite)"""
    if not np.all(np.isfinite(pa)):
        return "nonfinite"
    for s, a in zip(layout, slots_of(layout, pa)):
        if s[0] == "rot" and s[1] == "Euler" and euler_in_band(ref_R_of_slot("Euler", a)):
            return "euler_band"
        if s[0] == "rot" and s[1] == "Mrp" and float(a @ a) > 1e6:
            return "mrp_near_360"
    return None


def maxabs(M):
    M = np.asarray(M, dtype=float)
    if M.size == 0:
        return 0.0
    if not np.all(np.isfinite(M)):
        return float("inf")
    return float(np.max(np.abs(M)))


def close(A, B, tol=TOL, scale=None):
    """two-sided, entry-wise |A-B| <= tol*scale with scale from the reference B"""
    A = np.asarray(A, dtype=float)
    B = np.asarray(B, dtype=float)
    if A.shape != B.shape:
        return False, float("inf")
    if not np.all(np.isfinite(A)):
        return False, float("inf")
    if scale is None:
        scale = 1.0 + maxabs(B)
    err = maxabs(A - B)
    return err <= tol * scale, err / scale


def key_of(p, digits=12):
    return tuple(float("%.*e" % (digits - 1, float(x))) for x in p)


# ---------------------------------------------------------------------------------------------------------------------------
# direct products judged by POSITION: the factors of `A * B * ...` occupy consecutive parameter / algebra slices in the order written, and
# every operation acts factor by factor.  The reference below cuts the slices itself (it does not ask the library which slice belongs to
# which factor) and uses the separately explored base groups for the factors.
# ---------------------------------------------------------------------------------------------------------------------------
def product_leaves(G):
    """[(base group name, Built, param slice, algebra slice)] of a (nested) direct product, None if G is not a product of base groups"""
    from . import lib
    from cyecca.lie.direct_product import LieGroupDirectProduct
    if not isinstance(G, LieGroupDirectProduct):
        return None
    names = {id(g): n for n, g in lib.base_groups().items()}
    flat = []

    def walk(g):
        if isinstance(g, LieGroupDirectProduct):
            for h in g.groups:
                walk(h)
        else:
            flat.append(g)
    walk(G)
    out, ip, ia = [], 0, 0
    for g in flat:
        if id(g) not in names:
            return None
        b = lib.built(names[id(g)])
        out.append((names[id(g)], b, slice(ip, ip + g.n_param), slice(ia, ia + g.algebra.n_param)))
        ip += g.n_param
        ia += g.algebra.n_param
    return out


def _block_diag(ms):
    n = sum(m.shape[0] for m in ms)
    k = sum(m.shape[1] for m in ms)
    M = np.zeros((n, k))
    i = j = 0
    for m in ms:
        M[i:i + m.shape[0], j:j + m.shape[1]] = m
        i += m.shape[0]
        j += m.shape[1]
    return M


def check_product_by_position(res, B, elems, xs, case, sub, ops, tol=1e-9):
    """ops: subset of {to_Matrix, inverse, product, identity, exp, wedge, log, Ad, ad}.  elems / xs: raw group / algebra vectors of the product"""
    leaves = product_leaves(B.G)
    if not leaves or len(leaves) < 2:
        return
    site = B.name

    def same(a, b, scale=1.0):
        a, b = np.asarray(a, dtype=float), np.asarray(b, dtype=float)
        return a.shape == b.shape and np.all(np.isfinite(a)) and (a.size == 0 or float(np.max(np.abs(a - b))) <= tol * scale * (1 + float(np.max(np.abs(b)))))

    def by_factor(op, v, alg):
        outs = []
        for nm, b, sp, sa in leaves:
            outs.append(np.asarray(b.call(op, v[sa] if alg else v[sp]), dtype=float))
        return outs
    for op in ops:
        try:
            if op == "identity":
                res.count("evaluations")
                got = B.vec("identity")
                want = np.concatenate([b.vec("identity") for nm, b, sp, sa in leaves])
                if not same(got, want):
                    res.fail(site=site + ".identity", clause="direct_product_acts_factor_by_factor_in_the_order_written", cls="identity", detail=dict(got=got, want=want), sub=sub, case=case)
                continue
            pool = xs if op in ("exp", "wedge", "ad") else elems
            for v in pool:
                res.count("evaluations")
                if op in ("to_Matrix", "wedge", "Ad", "ad"):
                    got = B.call(op, v)
                    want = _block_diag([m if m.ndim == 2 else m.reshape(1, 1) for m in by_factor(op, v, op in ("wedge", "ad"))])
                    bad = not same(got, want)
                elif op in ("inverse", "exp", "log"):
                    got = B.vec(op, v)
                    parts = by_factor(op, v, op == "exp")
                    want = np.concatenate([p_.reshape(-1) for p_ in parts])
                    # compare as matrices of the factors where the parameters are not unique (q / -q, MRP shadow)
                    bad = not same(got, want)
                    if bad and op != "log" and got.shape == want.shape and np.all(np.isfinite(got)):
                        bad = not all(same(b.call("to_Matrix", got[sp]), b.call("to_Matrix", want[sp])) for nm, b, sp, sa in leaves)
                elif op == "product":
                    w = pool[(next(i for i, p in enumerate(pool) if p is v) + 1) % len(pool)]
                    got = B.vec("product", v, w)
                    want = np.concatenate([np.asarray(b.vec("product", v[sp], w[sp]), dtype=float).reshape(-1) for nm, b, sp, sa in leaves])
                    bad = not same(got, want)
                    if bad and got.shape == want.shape and np.all(np.isfinite(got)):
                        bad = not all(same(b.call("to_Matrix", got[sp]), b.call("to_Matrix", want[sp])) for nm, b, sp, sa in leaves)
                else:
                    continue
                if bad:
                    res.fail(site="%s.%s" % (site, op), clause="direct_product_acts_factor_by_factor_in_the_order_written", cls=op,
                             detail=dict(factors=[nm for nm, b, sp, sa in leaves], arg=v, got=got, want=want), sub=sub, case=case)
                    break
        except NotImplementedError:
            continue
        except RuntimeError as ex:
            if "unavailable" in str(ex):
                continue  # an operation the product (or a factor) does not offer
            raise
