def fill(check, NA):
    check("C01", "model_checking",
          "explicit-state BFS over operation words {X*g, g*X, X^-1} of every group configuration (16 base groups, direct products) on the real code, "
          "each transition compared with the matrix-product reference model, plus full products of the element alphabets for homomorphism / inverse / identity / associativity / from_Matrix; "
          "a bounded-exhaustive statement, not a proof over the reals",
          "trusted: CasADi evaluation, numpy; bounds: word depth 3 (quick) / 4 (thorough), alphabets in mc/alpha.py",
          "bounded exhaustive exploration: explicit-state BFS over API operation words + full alphabet products vs matrix reference model + preemption-bounded exploration of thread interleavings of the Python API (settrace baton)", "DESIGN.md section 4 C01")

    check("C02", "model_checking",
          "every (algebra, group) configuration: exhaustive product over the algebra alphabet including both adjacent doubles of every branch boundary of the compiled exp "
          "(found by signature-flip bisection on the real instruction list) against expm of the wedge matrix; BFS over one-parameter words X*exp(s x) against expm((sum s) X)",
          "trusted: scipy expm, CasADi; the wedge map is the library's own algebra to_Matrix (its bracket is C04); bounds in evidence",
          "bounded exhaustive exploration: alphabet product + branch-boundary harvesting on the compiled program + BFS over one-parameter words vs expm reference + preemption-bounded exploration of thread interleavings of the Python API (settrace baton)", "DESIGN.md section 4 C02")
    check("C03", "model_checking",
          "BFS over words {X*g, g*X, X^-1}, g = exp(x_i) and non-canonical representatives, from the identity; every reached state (negative-scalar quaternions, shadow MRPs, "
          "DCMs with round-off) plus all designed representatives judged: exp(log X)=X, log(exp x)=x, principal value equal to the reference logm of the textbook rotation matrix",
          "trusted: numpy reference logm; rotations within 0.01 rad of pi excluded by the reference; depth 2/3",
          "bounded exhaustive exploration: explicit-state BFS over API words, every state judged against a reference principal logarithm + preemption-bounded exploration of thread interleavings of the Python API (settrace baton)", "DESIGN.md section 4 C03")
    check("C04", "model_checking",
          "exhaustive products of group and algebra alphabets for conjugation, bracket = commutator, antisymmetry, Jacobi, Ad_exp = expm(ad), shapes; BFS over group words comparing Ad(state) "
          "with the product of the generators' Ad matrices; NotImplementedError operations recorded as out of scope, any other exception is a violation",
          "trusted: numpy inverse, scipy expm; vee by least squares against the library's own wedge basis",
          "bounded exhaustive exploration: alphabet products + explicit-state BFS over operation words vs matrix conjugation reference + preemption-bounded exploration of thread interleavings of the Python API (settrace baton)", "DESIGN.md section 4 C04")

    check("C05", "exploration",
          "exhaustive product over the so(3)/se(3)/se_2(3) algebra alphabets (angles 0..6.2 rad incl. harvested switch neighbours, all unit directions through the full matrix) against the Frechet "
          "derivative of the reference expm; inverse, Ad and Q-block identities; quaternion (both signs) and MRP (inside/shadow) kinematic Jacobians against the exact derivative of the textbook maps",
          "trusted: scipy expm_frechet, mpmath central difference; inverse identities scaled by cond",
          "bounded exhaustive input enumeration with branch-boundary harvesting vs differential of reference expm + preemption-bounded exploration of thread interleavings of the Python API (settrace baton)", "DESIGN.md section 4 C05")
    check("C06", "exploration",
          "every series table entry (compiled program run in 60-digit arithmetic through sxvm, conformance-gated bitwise against CasADi) vs the exact function on a lattice from 0 and denormals to 1 and on both "
          "adjacent doubles of its own switch; every consumer (exp/log of 9 groups, so3/se3/se23 Jacobians and inverses) in double vs 50-digit references, jump across each harvested switch, "
          "and finiteness of casadi.jacobian at and around zero",
          "trusted: mpmath; double round-off of the table coefficients themselves is not judged",
          "bounded exhaustive lattice enumeration + signature-flip bisection on the compiled programs, multi-domain interpretation of the real instruction list", "DESIGN.md section 4 C06")

    check("C07", "exploration",
          "every conversion word of length <= 2 (thorough 3) through the representation graph (all 12 ordered pairs), the four from_Matrix entry points and shadow_if_necessary, applied to every source "
          "rotation in every representative (q, -q, (-1,0,0,0), MRP inside/shadow/|r|=1, DCM, Euler incl. both gimbal poles and band edges) plus both neighbours of each Shepperd / gimbal branch edge "
          "harvested from the compiled converters; result judged through textbook reference maps and validity clauses",
          "trusted: numpy textbook maps; tolerance 1e-9 outside, 2e-3 inside the documented gimbal band",
          "bounded exhaustive enumeration of conversion words x source alphabet with branch-edge harvesting vs textbook reference maps", "DESIGN.md section 4 C07")

    check("C08", "model_checking",
          "explicit-state BFS over all words of (a_b, w_b, g, dt) menu items from three initial states for the shipped strapdown_ins_propagate and for the same wiring over SE23Mrp.exp_mixed: every transition of the real "
          "function compared with the closed-form flow reference model both accumulated along the word and locally, semigroup law on every state, dt=0 identity, unit norm; one-step lattice with |w| on both "
          "sides of the small-angle switch harvested per dt",
          "trusted: 80-digit power series for Gamma_1, Gamma_2; full 120-item menu to depth 2, 18-item menu to depth 3 (quick) / 4 (thorough)",
          "bounded exhaustive exploration: explicit-state BFS over input-menu words of the real step function vs closed-form flow reference model + preemption-bounded exploration of thread interleavings of the Python API (settrace baton)", "DESIGN.md section 4 C08")

    check("C09", "exploration",
          "for every shipped equation set (estimator through both generators, rdd2, rdd2_loglinear, bezier, mr_ref_traj) and every option set of the tier: generation succeeds, exported function set equals the "
          "equation set (no function dropped, duplicated or renamed), header complete, gcc -Wall silent, arities / names / sparsities equal through ctypes, and every function bit-identical to Function.__call__ on an "
          "input lattice whose path signatures (branch cells) are counted, including zero inputs that make unselected branches NaN",
          "trusted: gcc, libm, ctypes; quick = default + each key flipped once; thorough = every combination generated and checked for completeness, pairwise covering set compiled and run; mex output not compilable here",
          "bounded exhaustive enumeration of generator configurations x functions x input lattice, bitwise differential comparison of compiled C against CasADi", "DESIGN.md section 4 C09")

    check("C10", "exploration",
          "the compiled CasADi programs of cyecca.util (square-root covariance derivative, LDL^T, UDU^T, RK4) executed by sxvm in exact rational arithmetic over complete small integer matrix lattices and judged by "
          "exact equalities; sqrt_correct executed in 60-digit arithmetic against the textbook Kalman update; RK4 exact on all cubic-in-time fields of the lattice, degree-4 Taylor polynomial on y'=lambda y, "
          "observed order on a rotation field; float VM bitwise conformance-gated against CasADi and double results judged",
          "trusted: Fraction, mpmath; dimensions n<=3 (thorough 4/5), m<=2",
          "bounded exhaustive enumeration over integer matrix lattices with exact-arithmetic interpretation of the real instruction lists + preemption-bounded exploration of thread interleavings of the Python API (settrace baton)", "DESIGN.md section 4 C10")

    check("C11", "model_checking",
          "BFS over all words of 12 menu items {predict x 6, correct_accel x 3, correct_mag x 3} on the fed-back (x, W) of the real estimator functions from three initial states, invariants judged in every reached state "
          "(MRP in the unit ball after prediction, W finite lower triangular, 5th-order local error against the exact rotation, rejected corrections bit-identical, accepted ones with P+ <= P); product lattices for initialize "
          "(reference sensors independent of the repository's simulator, degenerate inputs), predict and the gates; path signatures of the compiled functions counted through sxvm (conformance-gated)",
          "trusted: numpy eigvalsh, mpmath; depth 4 (quick) / 5 (thorough)",
          "bounded exhaustive exploration: explicit-state BFS over step-function menu words + input lattices with branch-cell counting", "DESIGN.md section 4 C11")
    check("C12", "model_checking",
          "every point of a configuration lattice (true attitude x bias x initialise x declination/inclination x rate setting; quick: deterministic pairwise-covering sub-lattice, thorough: full product) is run through the real "
          "Simulator + AttitudeEstimator + Logger on the real uros bus and every logged state of the history is monitored; start-up tie-break schedules of simultaneous simpy events explored with <= 1 (thorough 2) "
          "deviations from FIFO by a controlled Core.step; sensor models checked against reference sensors on a rotation lattice",
          "trusted: numpy; thresholds 3x the worst observed over the thorough lattice; randn stubbed, noise off",
          "bounded exhaustive exploration of closed-loop histories over a configuration lattice + deviation-bounded schedule exploration of the real simpy bus", "DESIGN.md section 4 C12")

    check("C13", "exploration",
          "the compiled control_allocation program executed in exact rational arithmetic (sxvm, Fraction; NaN-like poison for divisions in unselected branches) over the image of a complete lattice of target "
          "motor-force vectors (every exact tie of the headroom logic occurs) and a cube of raw demands from negative to far beyond saturation, for three constant sets; exact equalities for bounds, exact "
          "reproduction of jointly achievable demands, exact moment and least collective shift when the moment alone fits; omega judged in double",
          "trusted: Fraction arithmetic; vehicle geometry sign pattern as in the shipped quadrotor model",
          "bounded exhaustive enumeration with exact-arithmetic interpretation of the real instruction list; branch cells counted", "DESIGN.md section 4 C13")

    check("C14", "exploration",
          "exhaustive product over controller / flatness input lattices for position_control, se23_position_control, f_ref, mr_ref_traj, input_auto_level, eulerB321_to_quat, including every degenerate cell (zero force, "
          "force norm and heading-alignment on both sides of the guards harvested from the compiled functions by signature-flip bisection, free fall); proper rotation in every cell, alignment with the demanded force "
          "recomputed from the documented law, heading constraint, thrust magnitude, roll/pitch rates vs the analytic rotation rate of the thrust axis, Euler's equation, agreement of the two flatness variants",
          "trusted: numpy; yaw rate and angular acceleration of the flatness maps are not judged (not promised)",
          "bounded exhaustive input enumeration with branch-boundary harvesting on the compiled programs", "DESIGN.md section 4 C14")

    check("C15", "model_checking",
          "BFS over the fed-back memories of the real controller functions: rate-PID integrator for every (i_max, f_cut) setting (to fix-point or the stated state cap), height integrator, velocity-mode set-points (all menu words to "
          "the depth) with the saturation invariants judged in every reached state against boring clamp / wrap reference models; stick maps on the full 5^4 lattice (affine, bounded); attitude laws on pairs of attitudes "
          "(both quaternion signs, products, q_r = +-q) against the reference logm of the attitude error",
          "trusted: numpy; module constants read from the modules; rate-PID state cap 1500 (quick) / 40000 (thorough) reported when hit",
          "bounded exhaustive exploration: explicit-state BFS over controller memories + alphabet products vs clamp / logm reference models", "DESIGN.md section 4 C15")

    check("C16", "exploration",
          "exhaustive product over states (attitudes in both quaternion signs, velocities, rates, rotor speeds, two heights) x commands x 21 parameter sets (defaults, asymmetric geometry, all 16 spin patterns, scaled "
          "mass/inertia/gravity, aerodynamic coefficients) of the real model function against reference rigid-body equations: norm preservation, rotor force / moment sum, full derivative, hover equilibrium, free fall, "
          "yaw / translation equivariance, motor lag",
          "trusted: numpy reference equations; z <= 0 (ground contact) outside the quantifier",
          "bounded exhaustive input x configuration enumeration vs reference rigid-body model", "DESIGN.md section 4 C16")
    check("C17", "model_checking",
          "every initial condition of a lattice (position offsets x tilts up to 60 deg in both quaternion signs x velocities x rates x heading set-points x both control modes; quick: pairwise-covering sub-lattice, thorough: "
          "full product of 2808 runs) drives the real plant function (RK4) closed with the real cascade functions wired as scripts/rdd2_sim.py; every visited state is monitored for finiteness, ground clearance, unit "
          "quaternion and motor limits, and the last 2 s for settling; K02 (log-linear mode unstable at heading 2 rad) is an open known finding",
          "trusted: RK4 plant integration with 1 ms sub-steps, perfect state feedback; thresholds have > 30x margin over the worst settled values of the thorough lattice",
          "bounded exhaustive exploration of closed-loop histories of the real step functions over an initial-condition lattice", "DESIGN.md section 4 C17")
    check("C18", "exploration",
          "Bezier.eval and deriv(m).eval for every degree 1..7, dimension {1,3} and order 0..n, the cubic and septic boundary-value solvers and trajectory functions and bezier_multirotor executed in exact rational "
          "arithmetic (60-digit where the symbolic inverse needs square roots) over control-point patterns, durations and times inside and outside [0,T], against the power-basis Bernstein reference and its exact derivatives",
          "trusted: Fraction / mpmath arithmetic; float VM conformance-gated against CasADi",
          "bounded exhaustive enumeration with exact-arithmetic interpretation of the real instruction lists + preemption-bounded exploration of thread interleavings of the Python API (settrace baton)", "DESIGN.md section 4 C18")
    check("C19", "exploration",
          "all SymPy expression trees to depth 2 over a 12-leaf alphabet and the converter's constructors (plus matrices, user function maps, cse, shared symbol tables) and all CasADi SX trees to depth 2 over every handled "
          "opcode are converted and evaluated on a point lattice; value equality or explicit refusal; points outside the real domain of the source (any non-real / non-finite sub-expression), within rounding of a "
          "discontinuity, or involving IEEE negative zero are decided by the reference and skipped",
          "trusted: mpmath (30 digits) and CasADi evaluation as references",
          "bounded exhaustive program enumeration with differential evaluation + preemption-bounded exploration of thread interleavings of the Python API (settrace baton)", "DESIGN.md section 4 C19")

    check("C20", "model_checking",
          "stateless exhaustive exploration on the real uros Core / Publisher / Subscriber / Param / Logger: for every small topology (all subscriber multisets of size <= 3 incl. a relaying subscriber, parameter nodes "
          "following or not following the parameter topic, logger present/absent, integer-period periodic publishers with exact ties) all event words to the depth are executed on a fresh bus and the simultaneous simpy "
          "events inside run slices are permuted with <= 1 (thorough 2) deviations from FIFO through a controlled Core.step; every inbox, parameter value and logger row is compared with a list-per-topic reference model "
          "after every event; the real AttitudeEstimator with spy equation functions is driven by all (sensor, delta t) words for the dt > 0 / rate-limit / initialisation rules",
          "trusted: simpy; only exactly tied events are permuted; word depth 4 (quick) / 5 (thorough); 400-schedule cap per word reported in evidence when hit",
          "bounded exhaustive exploration: event-word enumeration + deviation-bounded schedule exploration of the real bus vs list reference model", "DESIGN.md section 4 C20")
