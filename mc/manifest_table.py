def fill(check, NA):
    check("C01", "model_checking",
          "explicit-state BFS over operation words {X*g, g*X, X^-1} of every group configuration (16 base groups, direct products) on the real code, "
          "each transition compared with the matrix-product reference model, plus full products of the element alphabets for homomorphism / inverse / identity / associativity / from_Matrix; "
          "a bounded-exhaustive statement, not a proof over the reals",
          "trusted: CasADi evaluation, numpy; bounds: word depth 3 (quick) / 4 (thorough), alphabets in mc/alpha.py",
          "bounded exhaustive exploration: explicit-state BFS over API operation words + full alphabet products vs matrix reference model", "DESIGN.md section 4 C01")
