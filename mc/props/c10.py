"""C10 - filter numerics: square-root covariance algebra, factorizations, RK4 are exact.

explorer : product over small integer matrix lattices; the compiled CasADi programs of cyecca.util are executed by sxvm
           in exact rational arithmetic (Fraction), or in 60-digit arithmetic where a square root occurs (sqrt_correct);
           the float VM is conformance-gated against CasADi and the double results are judged as well.
oracle   : exact identities: triu(W')=0, W'W^T + W W'^T = FP + PF^T + Q; K = P H^T S^-1, Ss Ss^T = HPH^T + RR^T,
           W+ lower triangular, W+W+^T = (I-KH)P; L D L^T = P, U D U^T = P with unit triangular factors; RK4 exact on
           cubic-in-time fields, equals the degree-4 Taylor polynomial on y' = lambda y, observed order 4 on a rotation field.
"""
from __future__ import annotations

import contextlib
import io
import itertools
import math
from fractions import Fraction

import casadi as ca
import mpmath
import numpy as np

from .. import core, sxvm

LEVEL = "exploration"
RULE = ("n in {1,2,3}, m in {1,2} on full lattices + n in {4,5,6} (thorough 7,8), m in {1,2,3} on designed families (6 factors x 1+2n^2+4 F x 4 Q; single-entry / dense H); W lower triangular with off-diagonal in {-1,0,2}, diagonal in {1,3} (all); F entries in {-1,0,1} "
        "(n<=2 all, n=3 a deterministic covering family); Q = A A^T for A in a small integer set incl. 0 and singular; H in {-1,0,1}^(m x n) all; "
        "SPD = B B^T + I; RK4 fields cubic-in-time, linear, rotation; h in {1/1000,1/10,1,-1/2}; right-hand sides as callables {closure over the step's symbols, nested rk4, numeric constant}; caller's symbols named {X,x,W,L,P,D,K,a,t,y,h,k1} in every argument slot; matrices scaled to 1e-300 .. 2^-1065 and 1e300; 8 pairs of routines in two threads, all interleavings of util.py's statements with <= 1 (thorough 2) preemptions. non-trivial = not all-zero F/Q/H; distinct by input tuple")
ASSUMPTIONS = ["Python Fraction / mpmath arithmetic is exact / 60 digits; the interpreted program is the real instruction list (bitwise conformance-gated in float)",
               "matrix sizes above the bound are not covered"]


def bounds(tier):
    return dict(n_max=8 if tier == "thorough" else 6, n_full_lattice=3)


def _util():
    from cyecca import util
    return util


def lower_idx(n):
    """(row, col) of the nonzeros of Sparsity.lower(n) in CasADi (column-major) order"""
    return [(r, c) for c in range(n) for r in range(c, n)]


def mat_from_lower(n, vals):
    M = [[Fraction(0)] * n for _ in range(n)]
    for (r, c), v in zip(lower_idx(n), vals):
        M[r][c] = Fraction(v)
    return M


def mm(A, B):
    return [[sum(A[i][k] * B[k][j] for k in range(len(B))) for j in range(len(B[0]))] for i in range(len(A))]


def tr(A):
    return [list(r) for r in zip(*A)]


def madd(A, B, s=1):
    return [[a + s * b for a, b in zip(ra, rb)] for ra, rb in zip(A, B)]


def colmajor(M):
    return [M[i][j] for j in range(len(M[0])) for i in range(len(M))]


def from_colmajor(v, r, c):
    return [[v[j * r + i] for j in range(c)] for i in range(r)]


_F = {}


def fn_predict(n):
    k = ("predict", n)
    if k not in _F:
        W = ca.SX.sym("W", ca.Sparsity.lower(n))
        F = ca.SX.sym("F", n, n)
        Q = ca.SX.sym("Q", n, n)
        Wd = _util().sqrt_covariance_predict(W, F, Q)
        _F[k] = ca.Function("sqrt_cov_predict", [W, F, Q], [ca.densify(Wd)])
    return _F[k]


def fn_predict_diag(n):
    k = ("predict_diag", n)
    if k not in _F:
        W = ca.SX.sym("W", ca.Sparsity.diag(n))
        F = ca.SX.sym("F", n, n)
        Q = ca.SX.sym("Q", n, n)
        Wd = _util().sqrt_covariance_predict(W, F, Q)
        _F[k] = ca.Function("sqrt_cov_predict_diagW", [W, F, Q], [ca.densify(Wd)])
    return _F[k]


def fn_correct(n, m):
    k = ("correct", n, m)
    if k not in _F:
        Rs = ca.SX.sym("Rs", ca.Sparsity.lower(m))
        H = ca.SX.sym("H", m, n)
        W = ca.SX.sym("W", ca.Sparsity.lower(n))
        Wp, K, Ss = _util().sqrt_correct(Rs, H, W)
        _F[k] = ca.Function("sqrt_correct", [Rs, H, W], [ca.densify(Wp), ca.densify(K), ca.densify(Ss)])
    return _F[k]


def fn_fact(kind, n):
    k = (kind, n)
    if k not in _F:
        P = ca.SX.sym("P", n, n)
        u = _util()
        A, D = (u.ldl_symmetric_decomposition(P) if kind == "ldl" else u.udu_symmetric_decomposition(P))
        _F[k] = ca.Function(kind, [P], [ca.densify(A), ca.densify(D)])
    return _F[k]


def W_family(n):
    """a handful of lower-triangular factors for the larger dimensions (the estimator's own state has n = 6): diagonal, dense, first column
    dense, last row dense, banded"""
    idx = lower_idx(n)
    fams = [lambda r, c: 1 if r == c else 0,
            lambda r, c: (1 + 2 * (r % 2)) if r == c else 0,
            lambda r, c: (1 + 2 * (r % 2)) if r == c else ((2 * r + c) % 3) - 1,
            lambda r, c: 3 if r == c else (2 if c == 0 else 0),
            lambda r, c: 1 if r == c else (-1 if r == n - 1 else 0),
            lambda r, c: (1 + 2 * (c % 2)) if r == c else (2 if r == c + 1 else 0),
            # an equally valid (invertible, lower triangular) factor with negative diagonal entries
            lambda r, c: (-(1 + (r % 3)) if r % 2 == 0 else 2) if r == c else ((r + 2 * c) % 3) - 1]
    return [[fn(r, c) for r, c in idx] for fn in fams]


def W_lattice(n):
    idx = lower_idx(n)
    choices = [(([1, 3, -2] if n <= 2 else [1, 3]) if r == c else [-1, 0, 2]) for r, c in idx]
    out = [list(v) for v in itertools.product(*choices)]
    if n > 2:
        out += W_family(n)  # includes a factor with negative diagonal entries
    return out


def F_lattice(n, tier):
    if n <= 2:
        return [list(v) for v in itertools.product([-1, 0, 1], repeat=n * n)]
    # deterministic covering family: all matrices with at most 2 non-zero entries pattern + cyclic patterns
    base = [[0] * (n * n)]
    for i in range(n * n):
        for a in (-1, 1):
            v = [0] * (n * n)
            v[i] = a
            base.append(v)
    for s in range(1, 9 if tier == "thorough" else 5):
        base.append([((i * s + j * (s + 1)) % 3) - 1 for i in range(n) for j in range(n)])
    return base


def Q_lattice(n):
    As = [[[0] * n for _ in range(n)],
          [[1 if i == j else 0 for j in range(n)] for i in range(n)],
          [[(i + 2 * j) % 3 - 1 for j in range(n)] for i in range(n)],
          [[1 if j == 0 else 0 for j in range(n)] for i in range(n)]]  # rank one: singular Q
    return [mm(A, tr(A)) for A in As]


def conform_or_die(f, prog, flat_float, what):
    ok, worst, outs, sig = sxvm.conform(f, prog, flat_float)
    if not ok:
        raise core.HarnessError("sxvm does not conform to CasADi on %s (%.1f ulp)" % (what, worst))
    return outs


def explore_predict(case):
    n, tier, part, nparts = case["n"], case["tier"], case["part"], case["nparts"]
    res = core.Result()
    try:
        f = fn_predict(n)
    except Exception as ex:
        res.count("evaluations")
        res.fail(site="util.sqrt_covariance_predict", clause="operation_raises", cls=type(ex).__name__, detail=dict(n=n, msg=str(ex)[:200]), sub="predict", case=case)
        return res
    prog = sxvm.compile_fn(f)
    cases = list(itertools.product(W_family(n) if case.get("large") else W_lattice(n), F_lattice(n, tier), range(len(Q_lattice(n)))))[part::nparts]
    Qs = Q_lattice(n)
    for Wv, Fv, qi in cases:
        res.count("evaluations")
        Q = [[Fraction(x) for x in r] for r in Qs[qi]]
        Fm = [[Fraction(Fv[i * n + j]) for j in range(n)] for i in range(n)]
        W = mat_from_lower(n, Wv)
        flat = [[Fraction(v) for v in Wv], colmajor(Fm), colmajor(Q)]
        if any(Fv) or qi:
            res.nontrivial.add(hash((tuple(Wv), tuple(Fv), qi)))
        try:
            outs, sig = sxvm.run(prog, flat, sxvm.FRACTION)
        except (sxvm.NotRational, ZeroDivisionError) as ex:
            res.fail(site="util.sqrt_covariance_predict", clause="exact_evaluation_defined", cls="n=%d" % n,
                     detail=dict(W=Wv, F=Fv, Q=Qs[qi], error=str(ex)[:200]), sub="predict", case=case)
            continue
        Wd = from_colmajor(outs[0], n, n)
        P = mm(W, tr(W))
        lhs = madd(mm(Wd, tr(W)), mm(W, tr(Wd)))
        rhs = madd(madd(mm(Fm, P), mm(P, tr(Fm))), Q)
        res.outcomes.add(hash(tuple(colmajor(rhs))))
        upper = [Wd[i][j] for i in range(n) for j in range(i + 1, n)]
        if any(u != 0 for u in upper):
            res.fail(site="util.sqrt_covariance_predict", clause="Wdot_lower_triangular_exactly", cls="n=%d" % n,
                     detail=dict(W=Wv, F=Fv, Q=Qs[qi], upper=[str(u) for u in upper]), sub="predict", case=case)
        if lhs != rhs:
            res.fail(site="util.sqrt_covariance_predict", clause="lyapunov_identity_exact", cls="n=%d" % n,
                     detail=dict(W=Wv, F=Fv, Q=Qs[qi], lhs=[[str(x) for x in r] for r in lhs], rhs=[[str(x) for x in r] for r in rhs]),
                     sub="predict", case=case)
        # double precision path (CasADi itself), conformance-gated
        fl = [[float(x) for x in a] for a in flat]
        outs_d = conform_or_die(f, prog, fl, "sqrt_covariance_predict")
        res.count("traces_validated_against_impl")
        err = max(abs(a - float(b)) for a, b in zip(outs_d[0], outs[0]))
        if not err <= 1e-9 * (1 + max(abs(float(b)) for b in outs[0])):
            res.fail(site="util.sqrt_covariance_predict", clause="double_matches_exact", cls="n=%d" % n,
                     detail=dict(W=Wv, F=Fv, Q=Qs[qi], err=err), sub="predict", case=case)
    # the same identity when W is declared structurally diagonal (the usual initial factor diag(sigma))
    if part == 0 and n >= 2 and not case.get("large"):
        try:
            fd = fn_predict_diag(n)
            pd_ = sxvm.compile_fn(fd)
        except Exception as ex:
            res.count("evaluations")
            res.fail(site="util.sqrt_covariance_predict", clause="operation_raises", cls="diag_declared_W", detail=dict(n=n, msg=str(ex)[:200]), sub="predict", case=case)
            return res
        for dv in itertools.product([1, 3], repeat=n):
            for Fv in F_lattice(n, tier)[:: (1 if n == 2 else 3)]:
                for qi in range(len(Qs)):
                    res.count("evaluations")
                    Q = [[Fraction(x) for x in r] for r in Qs[qi]]
                    Fm = [[Fraction(Fv[i * n + j]) for j in range(n)] for i in range(n)]
                    W = [[Fraction(dv[i]) if i == j else Fraction(0) for j in range(n)] for i in range(n)]
                    outs, _ = sxvm.run(pd_, [[Fraction(v) for v in dv], colmajor(Fm), colmajor(Q)], sxvm.FRACTION)
                    Wd = from_colmajor(sxvm.densify_out(fd, 0, outs[0], Fraction(0)), n, n)
                    if any(v is sxvm.POISON for r in Wd for v in r):
                        continue
                    P = mm(W, tr(W))
                    lhs = madd(mm(Wd, tr(W)), mm(W, tr(Wd)))
                    rhs = madd(madd(mm(Fm, P), mm(P, tr(Fm))), Q)
                    upper = [Wd[i][j] for i in range(n) for j in range(i + 1, n)]
                    if lhs != rhs or any(u != 0 for u in upper):
                        res.fail(site="util.sqrt_covariance_predict", clause="lyapunov_identity_exact", cls="n=%d;diag_declared_W" % n,
                                 detail=dict(W_diag=list(dv), F=Fv, Q=Qs[qi]), sub="predict", case=case)
    res.samples.append(dict(fn="sqrt_covariance_predict", n=n, cases=len(cases), example=dict(W=cases[0][0], F=cases[0][1]) if cases else None))
    return res


def explore_correct(case):
    n, m, tier, part, nparts = case["n"], case["m"], case["tier"], case["part"], case["nparts"]
    res = core.Result()
    try:
        f = fn_correct(n, m)
    except Exception as ex:
        res.count("evaluations")
        res.fail(site="util.sqrt_correct", clause="operation_raises", cls=type(ex).__name__, detail=dict(n=n, m=m, msg=str(ex)[:200]), sub="correct", case=case)
        return res
    prog = sxvm.compile_fn(f)
    mp = mpmath.mp
    Hs = [list(v) for v in itertools.product([-1, 0, 1], repeat=m * n)] if not case.get("large") else []
    Rs_l = [list(v) for v in itertools.product(*[([1, 2] if r == c else [0, 1]) for r, c in lower_idx(m)])]
    Ws = W_lattice(n) if not case.get("large") else W_family(n)
    if case.get("large"):
        # every single-entry H, the all-ones H, two patterned ones; measurement factors: identity and one dense
        Hs = []
        for i in range(m * n):
            v = [0] * (m * n)
            v[i] = 1 if i % 2 == 0 else -1
            Hs.append(v)
        Hs += [[1] * (m * n), [((i * 2 + 1) % 3) - 1 for i in range(m * n)], [((i * i + 2) % 3) - 1 for i in range(m * n)]]
        Rs_l = [Rs_l[0], Rs_l[-1]]
    if n == 3:
        Rs_l = Rs_l if tier == "thorough" else Rs_l[::3]
        Ws = Ws[::5] if tier != "thorough" else Ws
        Hs = Hs[::(7 if m == 2 else 1)] if tier != "thorough" else Hs
    cases = list(itertools.product(Ws, Hs, Rs_l))[part::nparts]
    M = lambda rows: mp.matrix([[mp.mpf(x) for x in r] for r in rows])
    for Wv, Hv, Rv in cases:
        res.count("evaluations")
        if any(Hv):
            res.nontrivial.add(hash((tuple(Wv), tuple(Hv), tuple(Rv))))
        H = [[Hv[i * n + j] for j in range(n)] for i in range(m)]
        flat = [[float(v) for v in Rv], [float(x) for x in colmajor(H)], [float(v) for v in Wv]]
        outs, sig = sxvm.run(prog, flat, sxvm.MPF)
        Wp = M(from_colmajor(outs[0], n, n))
        K = M(from_colmajor(outs[1], n, m))
        Ss = M(from_colmajor(outs[2], m, m))
        vals = list(outs[0]) + list(outs[1]) + list(outs[2])
        cls = "n=%d,m=%d" % (n, m)
        if not all(mpmath.isfinite(v) for v in vals):
            res.fail(site="util.sqrt_correct", clause="finite", cls=cls, detail=dict(W=Wv, H=Hv, Rs=Rv), sub="correct", case=case)
            continue
        Wm = M([[float(x) for x in r] for r in mat_from_lower(n, Wv)])
        Rm = M([[float(x) for x in r] for r in mat_from_lower(m, Rv)])
        Hm = M(H)
        P = Wm * Wm.T
        S = Hm * P * Hm.T + Rm * Rm.T
        Kref = P * Hm.T * (S ** -1)
        Pp = (mp.eye(n) - Kref * Hm) * P
        tol = mp.mpf(10) ** -45
        res.outcomes.add(hash(tuple(round(float(x), 9) for x in Pp)))

        def mx(A):
            return max([abs(x) for x in A] + [mp.mpf(0)])
        checks = [("gain_is_P_Ht_Sinv", mx(K - Kref)), ("innovation_factor", mx(Ss * Ss.T - S)),
                  ("posterior_factor", mx(Wp * Wp.T - Pp)),
                  ("Wplus_lower_triangular", max([abs(Wp[i, j]) for i in range(n) for j in range(i + 1, n)] + [mp.mpf(0)]))]
        for clause, e in checks:
            if e > tol:
                res.fail(site="util.sqrt_correct", clause=clause, cls=cls, detail=dict(W=Wv, H=Hv, Rs=Rv, err=float(e)), sub="correct", case=case)
        outs_d = conform_or_die(f, prog, flat, "sqrt_correct")
        res.count("traces_validated_against_impl")
        err = max(abs(a - float(b)) for od, om in zip(outs_d, outs) for a, b in zip(od, om))
        if not err <= 1e-9 * (1 + float(mx(P))):
            res.fail(site="util.sqrt_correct", clause="double_matches_exact", cls=cls, detail=dict(W=Wv, H=Hv, Rs=Rv, err=err), sub="correct", case=case)
    res.samples.append(dict(fn="sqrt_correct", n=n, m=m, cases=len(cases)))
    return res


def spd_lattice(n, tier):
    vals = [-1, 0, 2]
    Bs = []
    if n <= 2:
        Bs = [list(v) for v in itertools.product(vals, repeat=n * n)]
    else:
        for s in range(1, 40 if tier == "thorough" else 16):
            Bs.append([((i * s + j * (s + 2) + s * s) % 4) - 1 for i in range(n) for j in range(n)])
        Bs.append([0] * (n * n))
    out = []
    for b in Bs:
        B = [[Fraction(b[i * n + j]) for j in range(n)] for i in range(n)]
        P = mm(B, tr(B))
        for i in range(n):
            P[i][i] += 1
        out.append(P)
    # symmetric positive definite but nearly singular: built from a unit triangular factor and a diagonal with one pivot many orders of
    # magnitude below the others (two almost perfectly correlated states), at every position
    if n >= 2:
        for tiny in (Fraction(1, 2 ** 35), Fraction(1, 2 ** 60)):
            for pos in range(n):
                for lower in (True, False):
                    T = [[Fraction(1) if i == j else (Fraction(((i * 3 + j * 5 + pos) % 5) - 2, 2) if ((i > j) if lower else (i < j)) else Fraction(0)) for j in range(n)] for i in range(n)]
                    Dg = [[(tiny if i == pos else Fraction(3 + i, 4)) if i == j else Fraction(0) for j in range(n)] for i in range(n)]
                    out.append(mm(mm(T, Dg), tr(T)))
    return out


def explore_fact(case):
    kind, n, tier = case["kind"], case["n"], case["tier"]
    res = core.Result()
    site = "util.%s_symmetric_decomposition" % kind
    # the caller's matrix is left alone (numeric SX, DM and symbolic SX input): "reconstruct their input" is about the matrix the caller holds
    if n >= 2:
        uu = _util()
        Pn = np.array([[float(x) for x in r] for r in spd_lattice(n, tier)[1]])
        for form, mkP in (("numeric_SX", lambda: ca.SX(ca.DM(Pn))), ("DM", lambda: ca.DM(Pn)), ("symbolic_SX", lambda: ca.SX.sym("P", n, n))):
            res.count("evaluations")
            try:
                Pin = mkP()
                before = str(Pin)
                A_, D_ = (uu.ldl_symmetric_decomposition(Pin) if kind == "ldl" else uu.udu_symmetric_decomposition(Pin))
                after = str(Pin)
            except Exception:
                continue  # forms the routine does not accept are judged elsewhere
            if before != after:
                res.fail(site=site, clause="argument_not_mutated", cls=form, detail=dict(n=n, before=before[:200], after=after[:200]), sub="fact", case=case)
    try:
        f = fn_fact(kind, n)
    except Exception as ex:
        res.count("evaluations")
        res.fail(site=site, clause="operation_raises", cls=type(ex).__name__, detail=dict(n=n, msg=str(ex)[:200]), sub="fact", case=case)
        return res
    prog = sxvm.compile_fn(f)
    for P in spd_lattice(n, tier):
        res.count("evaluations")
        flat = [colmajor(P)]
        if any(P[i][j] != 0 for i in range(n) for j in range(n) if i != j):
            res.nontrivial.add(hash((kind, n, tuple(colmajor(P)))))
        try:
            outs, _ = sxvm.run(prog, flat, sxvm.FRACTION)
        except (sxvm.NotRational, ZeroDivisionError) as ex:
            res.fail(site=site, clause="exact_evaluation_defined", cls="n=%d" % n, detail=dict(P=[[str(x) for x in r] for r in P], error=str(ex)), sub="fact", case=case)
            continue
        A = from_colmajor(outs[0], n, n)
        D = from_colmajor(outs[1], n, n)
        res.outcomes.add(hash(tuple(colmajor(D))))
        rec = mm(mm(A, D), tr(A))
        unit = all(A[i][i] == 1 for i in range(n))
        tri = all(A[i][j] == 0 for i in range(n) for j in range(n) if (j > i if kind == "ldl" else j < i))
        diag = all(D[i][j] == 0 for i in range(n) for j in range(n) if i != j)
        if rec != P or not unit or not tri or not diag:
            res.fail(site=site, clause="reconstructs_input_with_unit_triangular_factor", cls="n=%d" % n,
                     detail=dict(P=[[str(x) for x in r] for r in P], reconstructed=[[str(x) for x in r] for r in rec], unit=unit, triangular=tri, D_diagonal=diag),
                     sub="fact", case=case)
        fl = [[float(x) for x in a] for a in flat]
        outs_d = conform_or_die(f, prog, fl, site)
        res.count("traces_validated_against_impl")
        # double precision: the property is the reconstruction of the input (backward stable also for nearly singular matrices); the factor
        # entries themselves are compared with the exact ones only when no pivot is tiny (their sensitivity is 1 / smallest pivot)
        pmax = max(abs(float(x)) for x in colmajor(P))
        Ad = np.array(outs_d[0], dtype=float).reshape(n, n, order="F")
        Dd = np.array(outs_d[1], dtype=float).reshape(n, n, order="F")
        rec_err = float(np.max(np.abs(Ad @ Dd @ Ad.T - np.array([[float(x) for x in r] for r in P]))))
        if not all(Fraction(float(x)) == x for x in colmajor(P)):
            res.count("double_clauses_skipped_input_not_representable")  # (a pivot of 2^-60 next to entries of size 1 does not survive rounding the input)
            continue
        if not rec_err <= 1e-9 * (1 + pmax):
            res.fail(site=site, clause="double_reconstructs_input", cls="n=%d" % n, detail=dict(P=[[str(x) for x in r] for r in P], err=rec_err), sub="fact", case=case)
        piv = [abs(float(D[i][i])) for i in range(n)]
        if min(piv) > 1e-6 * max(piv):
            err = max(abs(a - float(b)) for od, om in zip(outs_d, outs) for a, b in zip(od, om))
            if not err <= 1e-9 * (1 + pmax):
                res.fail(site=site, clause="double_matches_exact", cls="n=%d" % n, detail=dict(P=[[str(x) for x in r] for r in P], err=err), sub="fact", case=case)
    # matrices at the ends of the double range (a covariance in other units): scaled so that the pivots are subnormal, or near the largest
    # double, through the numeric call.  The unit-triangular factor does not depend on the scale; D scales with it.
    if n <= 3:
        u_ = _util()
        base = np.array([[4.0, 1, 0.5], [1, 3, 0.25], [0.5, 0.25, 2]])[:n, :n]
        Lref = from_colmajor(sxvm.run(prog, [colmajor([[Fraction(float(x)) for x in r] for r in base])], sxvm.FRACTION)[0][0], n, n)
        for sc in (1e-300, 2.0 ** -1030, 2.0 ** -1050, 2.0 ** -1065, 1e300):
            res.count("evaluations")
            res.nontrivial.add(hash(("scale", kind, n, sc)))
            Ms = base * sc
            try:
                A_, D_ = (u_.ldl_symmetric_decomposition if kind == "ldl" else u_.udu_symmetric_decomposition)(ca.SX(ca.DM(Ms)))
                An, Dn = np.array(ca.evalf(ca.densify(A_)), dtype=float), np.array(ca.evalf(ca.densify(D_)), dtype=float)
            except Exception as ex:
                res.fail(site=site, clause="operation_raises", cls="scale=%g" % sc, detail=dict(scale=sc, error="%s: %s" % (type(ex).__name__, str(ex)[:200])), sub="fact", case=case)
                continue
            # precision left in the subnormal data: 2^-1074 relative to the scale
            tol = max(1e-9, 64 * 2.0 ** -1074 / sc)
            Lr = np.array([[float(x) for x in r] for r in Lref])
            if not (np.all(np.isfinite(An)) and np.all(np.isfinite(Dn))) or np.max(np.abs(An - Lr)) > tol * 10 or np.max(np.abs(An @ Dn @ An.T - Ms)) > tol * sc * 10:
                res.fail(site=site, clause="factorisation_of_a_rescaled_matrix", cls="scale=%g" % sc, detail=dict(scale=sc, factor=An, D=Dn, reference_factor=Lr), sub="fact", case=case)
    res.samples.append(dict(fn=site, n=n))
    return res


def explore_rk4(case):
    tier = case["tier"]
    res = core.Result()
    u = _util()
    hs = [Fraction(1, 1000), Fraction(1, 10), Fraction(1), Fraction(-1, 2)]
    t0s = [Fraction(0), Fraction(3, 7)]
    y0s = [Fraction(0), Fraction(2), Fraction(-5, 3)]
    # (1) cubic in time:  y' = a + b t + c t^2 + d t^3  -> exact
    coefs = [c for c in itertools.product([0, 1, -2], repeat=4)]
    t, y, h = ca.SX.sym("t"), ca.SX.sym("y"), ca.SX.sym("h")
    p = ca.SX.sym("p", 4)
    try:
        y1 = u.rk4(lambda tt, yy: p[0] + p[1] * tt + p[2] * tt ** 2 + p[3] * tt ** 3, t, y, h)
        f_cubic = ca.Function("rk4_cubic", [t, y, h, p], [y1])
        lam = ca.SX.sym("lam")
        y1 = u.rk4(lambda tt, yy: lam * yy, t, y, h)
        f_lin = ca.Function("rk4_lin", [t, y, h, lam], [y1])
        Y = ca.SX.sym("Y", 2)
        w = ca.SX.sym("w")
        y1 = u.rk4(lambda tt, yy: ca.vertcat(-w * yy[1], w * yy[0]), t, Y, h)
        f_rot = ca.Function("rk4_rot", [t, Y, h, w], [y1])
    except Exception as ex:
        res.count("evaluations")
        res.fail(site="util.rk4", clause="operation_raises", cls=type(ex).__name__, detail=dict(msg=str(ex)[:300]), sub="rk4", case=case)
        return res
    pc = sxvm.compile_fn(f_cubic)
    for c in coefs:
        for hh in hs:
            for t0 in t0s:
                for y0 in (y0s[0], y0s[2]):
                    res.count("evaluations")
                    if any(c):
                        res.nontrivial.add(hash(("cubic", c, hh, t0, y0)))
                    outs, _ = sxvm.run(pc, [[t0], [y0], [hh], [Fraction(x) for x in c]], sxvm.FRACTION)
                    a, b, cc, d = [Fraction(x) for x in c]
                    F = lambda s: a * s + b * s ** 2 / 2 + cc * s ** 3 / 3 + d * s ** 4 / 4
                    want = y0 + F(t0 + hh) - F(t0)
                    res.outcomes.add(hash(want))
                    if outs[0][0] != want:
                        res.fail(site="util.rk4", clause="exact_on_cubic_in_time", cls="cubic", detail=dict(coef=c, h=str(hh), t0=str(t0), y0=str(y0),
                                 got=str(outs[0][0]), want=str(want)), sub="rk4", case=case)
    pl = sxvm.compile_fn(f_lin)
    for lam_v in [Fraction(0), Fraction(1), Fraction(-3), Fraction(1, 2)]:
        for hh in hs:
            for y0 in y0s:
                res.count("evaluations")
                res.nontrivial.add(hash(("lin", lam_v, hh, y0)))
                outs, _ = sxvm.run(pl, [[Fraction(1, 3)], [y0], [hh], [lam_v]], sxvm.FRACTION)
                z = lam_v * hh
                want = y0 * (1 + z + z ** 2 / 2 + z ** 3 / 6 + z ** 4 / 24)
                if outs[0][0] != want:
                    res.fail(site="util.rk4", clause="stability_polynomial_degree4_taylor", cls="linear", detail=dict(lam=str(lam_v), h=str(hh), y0=str(y0),
                             got=str(outs[0][0]), want=str(want)), sub="rk4", case=case)
    # (3) observed order on a rotation field by step halving in 60 digits
    pr = sxvm.compile_fn(f_rot)
    mp = mpmath.mp
    for wv in (1.0, 3.0):
        for h0 in (0.2, 0.05):
            errs = []
            for hh in (h0, h0 / 2):
                outs, _ = sxvm.run(pr, [[0.0], [1.0, 0.0], [hh], [wv]], sxvm.MPF)
                ex = (mp.cos(mp.mpf(wv) * mp.mpf(hh)), mp.sin(mp.mpf(wv) * mp.mpf(hh)))
                errs.append(mp.sqrt((outs[0][0] - ex[0]) ** 2 + (outs[0][1] - ex[1]) ** 2))
            res.count("evaluations")
            res.nontrivial.add(hash(("rot", wv, h0)))
            order = float(mp.log(errs[0] / errs[1]) / mp.log(2)) if errs[1] > 0 else float("inf")
            if not (4.5 <= order <= 5.5):
                res.fail(site="util.rk4", clause="local_error_order_5", cls="rotation", detail=dict(w=wv, h=h0, observed_order=order,
                         errs=[float(e) for e in errs]), sub="rk4", case=case)
    # (4) the state given in another storage form: structurally sparse entries where the state happens to be zero (released from rest,
    # diagonal initial covariance).  Direct numeric calls of util.rk4 on SX data; the dense call is the one judged exactly above.
    u_ = _util()

    def sparse_of(vals, shape):
        M_ = ca.SX(*shape)
        for k_, v_ in enumerate(vals):
            if v_ != 0:
                M_[k_ % shape[0], k_ // shape[0]] = float(v_)
        return M_
    fields = [("oscillator", lambda t_, y_: ca.vertcat(y_[1], -4.0 * y_[0]), [1.0, 0.0], (2, 1)),
              ("cubic_in_t", lambda t_, y_: ca.vertcat(1 + t_ ** 2, 2 * t_ - t_ ** 3), [0.0, 0.0], (2, 1)),
              ("lyapunov", lambda t_, P_: ca.mtimes(ca.DM([[0, 1.0], [-2.0, -0.3]]), P_) + ca.mtimes(P_, ca.DM([[0, 1.0], [-2.0, -0.3]]).T) + ca.DM([[0.1, 0], [0, 0.2]]),
               [2.0, 0.0, 0.0, 3.0], (2, 2)),
              ("coupled3", lambda t_, y_: ca.vertcat(y_[1] + y_[2], y_[0] - y_[2], 1 + y_[0]), [0.0, 0.5, 0.0], (3, 1))]
    # matrix- and row-shaped states against an independent RK4 tableau (the estimators integrate the covariance factor as a matrix)
    def rk4_np(fn, t0, y0, h_):
        k1 = fn(t0, y0)
        k2 = fn(t0 + h_ / 2, y0 + h_ / 2 * k1)
        k3 = fn(t0 + h_ / 2, y0 + h_ / 2 * k2)
        k4 = fn(t0 + h_, y0 + h_ * k3)
        return y0 + h_ / 6 * (k1 + 2 * k2 + 2 * k3 + k4)
    Am = np.array([[0, 1.0], [-2.0, -0.3]])
    shaped = [("lyapunov_2x2", lambda t_, P_: ca.mtimes(ca.DM(Am), P_) + ca.mtimes(P_, ca.DM(Am).T) + ca.DM([[0.1, 0], [0, 0.2]]),
               lambda t_, P_: Am @ P_ + P_ @ Am.T + np.array([[0.1, 0], [0, 0.2]]), np.array([[2.0, 0.5], [0.5, 3.0]])),
              ("row_1x3", lambda t_, y_: ca.horzcat(y_[0, 1] + t_, -y_[0, 0], 1 + y_[0, 2] * t_), lambda t_, y_: np.array([[y_[0, 1] + t_, -y_[0, 0], 1 + y_[0, 2] * t_]]), np.array([[1.0, -0.5, 2.0]])),
              ("matrix_3x2", lambda t_, Y_: ca.mtimes(ca.DM([[0, 1.0, 0], [-1.0, 0, 0.5], [0.2, 0, -0.1]]), Y_) + t_,
               lambda t_, Y_: np.array([[0, 1.0, 0], [-1.0, 0, 0.5], [0.2, 0, -0.1]]) @ Y_ + t_, np.array([[1.0, 2.0], [0.0, -1.0], [0.5, 0.25]]))]
    for nm, fld, fld_np, y0m in shaped:
        for hh in (0.1, -0.5, 1.0):
            res.count("evaluations")
            res.nontrivial.add(hash(("shape", nm, hh)))
            got_ = np.array(ca.evalf(ca.densify(u_.rk4(fld, 0.3, ca.SX(ca.DM(y0m)), ca.SX(hh)))), dtype=float)
            want_ = rk4_np(fld_np, 0.3, y0m, hh)
            if got_.shape != want_.shape or not np.all(np.isfinite(got_)) or np.max(np.abs(got_ - want_)) > 1e-12 * (1 + np.max(np.abs(want_))):
                res.fail(site="util.rk4", clause="one_step_of_the_classical_tableau_for_any_state_shape", cls=nm, detail=dict(state=nm, h=hh, got=got_, want=want_), sub="rk4", case=case)
    for nm, fld, y0v, shp in fields:
        for hh in (0.1, -0.5):
            res.count("evaluations")
            res.nontrivial.add(hash(("form", nm, hh)))
            dense = ca.SX(ca.DM(np.array(y0v, dtype=float).reshape(shp, order="F")))
            want_ = np.array(ca.evalf(ca.densify(u_.rk4(fld, 0.3, dense, ca.SX(hh)))), dtype=float)
            got_ = np.array(ca.evalf(ca.densify(u_.rk4(fld, 0.3, sparse_of(y0v, shp), ca.SX(hh)))), dtype=float)
            if got_.shape != want_.shape or not np.all(np.isfinite(got_)) or np.max(np.abs(got_ - want_)) > 1e-13 * (1 + np.max(np.abs(want_))):
                res.fail(site="util.rk4", clause="result_independent_of_storage_form_of_state", cls=nm, detail=dict(field=nm, h=hh, y0=y0v, sparse=got_, dense=want_), sub="rk4", case=case)
    # (5) the right-hand side is an arbitrary Python callable: it may refer to the very symbols the step is taken from (coefficients frozen
    # at the start of the step: zero-order-hold input u(t0), linearisation A(y0)), it may itself take an rk4 step of a faster sub-model
    # (multi-rate), it may return plain numbers.  k_i = h f(t_i, y_i) with THE GIVEN f, called at the stage points.
    ts_, ys_, hs_ = ca.SX.sym("t"), ca.SX.sym("y", 2), ca.SX.sym("h")

    def frozen_sym(tt, yy):
        A_ = ca.vertcat(ca.horzcat(0, 1 + ys_[0]), ca.horzcat(-2 - ys_[1] ** 2, -0.3))
        return ca.mtimes(A_, yy) + ca.vertcat(ca.sin(ts_), 0) + ca.vertcat(0, tt ** 3)

    def frozen_np(t0, y0):
        A_ = np.array([[0, 1 + y0[0]], [-2 - y0[1] ** 2, -0.3]])
        return lambda tt, yy: A_ @ yy + np.array([math.sin(t0), 0]) + np.array([0, tt ** 3])

    def nested_sym(tt, yy):
        # slow state yy[0] driven by a fast lag yy[1] that is advanced by its own rk4 sub-step inside the derivative
        fast = u_.rk4(lambda t2, z: -8.0 * (z - ca.sin(t2)), tt, yy[1], hs_ / 4)
        return ca.vertcat(fast - 0.5 * yy[0], -8.0 * (yy[1] - ca.sin(tt)))

    def nested_np(h_):
        def fn(tt, yy):
            fast = rk4_np(lambda t2, z: -8.0 * (z - math.sin(t2)), tt, yy[1], h_ / 4)
            return np.array([fast - 0.5 * yy[0], -8.0 * (yy[1] - math.sin(tt))])
        return fn

    def const_sym(tt, yy):
        return ca.DM([1.0, -2.0])

    callables = [("closure_over_step_symbols", frozen_sym, lambda t0, y0, h_: frozen_np(t0, y0)), ("nested_rk4_in_callback", nested_sym, lambda t0, y0, h_: nested_np(h_)),
                 ("returns_numeric_constant", const_sym, lambda t0, y0, h_: (lambda tt, yy: np.array([1.0, -2.0])))]
    for nm, fsym, mk_np in callables:
        try:
            with contextlib.redirect_stdout(io.StringIO()):
                fC = ca.Function("rk4_" + nm, [ts_, ys_, hs_], [ca.densify(u_.rk4(fsym, ts_, ys_, hs_))])
        except Exception as ex:
            res.count("evaluations")
            res.fail(site="util.rk4", clause="operation_raises", cls=nm, detail=dict(callable=nm, msg="%s: %s" % (type(ex).__name__, str(ex)[:200])), sub="rk4", case=case)
            continue
        for t0 in (0.0, 0.3):
            for y0 in (np.array([1.0, 0.0]), np.array([-0.5, 2.0])):
                for hh in (0.1, 0.5, -0.25):
                    res.count("evaluations")
                    res.nontrivial.add(hash(("callable", nm, t0, y0.tobytes(), hh)))
                    got_ = np.array(fC(t0, y0, hh), dtype=float).reshape(-1)
                    want_ = rk4_np(mk_np(t0, y0, hh), t0, y0, hh)
                    if not np.all(np.isfinite(got_)) or np.max(np.abs(got_ - want_)) > 1e-12 * (1 + np.max(np.abs(want_))):
                        res.fail(site="util.rk4", clause="stages_evaluate_the_given_callable", cls=nm, detail=dict(callable=nm, t0=t0, y0=y0, h=hh, got=got_, want=want_), sub="rk4", case=case)
        # a completed step after a nested one is still exact (the nested call leaves nothing behind)
    # symbols named like anything the routine may use inside: the result does not depend on what the caller's symbols are called
    for names in (("t", "y", "h"), ("h", "t", "y"), ("k1", "k2", "k3"), ("y", "y", "y"), ("X", "X", "X")):
        tn, yn, hn = ca.SX.sym(names[0]), ca.SX.sym(names[1], 2), ca.SX.sym(names[2])
        res.count("evaluations")
        res.nontrivial.add(hash(("names",) + names))
        try:
            fN = ca.Function("rk4_named", [tn, yn, hn], [ca.densify(u_.rk4(lambda tt, yy: ca.vertcat(yy[1] + tt ** 2, -4.0 * yy[0] * yy[1]), tn, yn, hn))])
            got_ = np.array(fN(0.3, [1.0, -0.5], 0.25), dtype=float).reshape(-1)
        except Exception as ex:
            res.fail(site="util.rk4", clause="operation_raises", cls="names", detail=dict(names=names, msg="%s: %s" % (type(ex).__name__, str(ex)[:200])), sub="rk4", case=case)
            continue
        want_ = rk4_np(lambda tt, yy: np.array([yy[1] + tt ** 2, -4.0 * yy[0] * yy[1]]), 0.3, np.array([1.0, -0.5]), 0.25)
        if not np.all(np.isfinite(got_)) or np.max(np.abs(got_ - want_)) > 1e-12:
            res.fail(site="util.rk4", clause="result_independent_of_symbol_names", cls="-".join(names), detail=dict(names=names, got=got_, want=want_), sub="rk4", case=case)
    # conformance in double on one representative of each program
    for f, prog, flat in ((f_cubic, pc, [[0.4], [2.0], [0.1], [1.0, -2.0, 0.0, 1.0]]), (f_lin, pl, [[0.0], [2.0], [0.1], [-3.0]])):
        conform_or_die(f, prog, flat, f.name())
        res.count("traces_validated_against_impl")
    res.samples.append(dict(fn="rk4", cubic_fields=len(coefs), steps=[str(x) for x in hs]))
    return res


def explore_predict_variants(case):
    """configurations of the same routines that a lattice over dense O(1) inputs does not reach: factors of very small / large scale,
    a sparse-pattern call followed by a dense one of the same dimension (history), symbolic inputs declared with a sparsity pattern"""
    tier = case["tier"]
    res = core.Result()
    u = _util()
    # (1) scale: W -> s W, Q -> s^2 Q leaves the identity exact
    f2 = fn_predict(2)
    p2 = sxvm.compile_fn(f2)
    for s in (Fraction(1, 10 ** 8), Fraction(10 ** 6)):
        for Wv in W_lattice(2)[::2]:
            for Fv in F_lattice(2, tier)[::9]:
                for Qm in Q_lattice(2)[1:3]:
                    res.count("evaluations")
                    res.nontrivial.add(hash((s, tuple(Wv), tuple(Fv))))
                    W = [[x * s for x in r] for r in mat_from_lower(2, Wv)]
                    Q = [[Fraction(x) * s * s for x in r] for r in Qm]
                    Fm = [[Fraction(Fv[i * 2 + j]) for j in range(2)] for i in range(2)]
                    outs, _ = sxvm.run(p2, [[Fraction(v) * s for v in Wv], colmajor(Fm), colmajor(Q)], sxvm.FRACTION)
                    Wd = from_colmajor(outs[0], 2, 2)
                    P = mm(W, tr(W))
                    ok = not any(v is sxvm.POISON for r in Wd for v in r) and madd(mm(Wd, tr(W)), mm(W, tr(Wd))) == madd(madd(mm(Fm, P), mm(P, tr(Fm))), Q)
                    if ok:
                        # double precision evaluation by CasADi at this scale (relative to the scale of the right-hand side)
                        fl = [[float(Fraction(v) * s) for v in Wv], [float(x) for x in colmajor(Fm)], [float(x) for x in colmajor(Q)]]
                        od = sxvm.casadi_eval(f2, fl)[0]
                        sc = max(abs(float(x)) for x in outs[0]) or 1.0
                        ok = max(abs(a - float(b)) for a, b in zip(od, outs[0])) <= 1e-9 * sc
                    if not ok:
                        res.fail(site="util.sqrt_covariance_predict", clause="lyapunov_identity_exact", cls="scale=%g" % float(s), detail=dict(W=Wv, F=Fv, scale=float(s)), sub="variants", case=case)
    fc = fn_correct(2, 2)
    pc = sxvm.compile_fn(fc)
    mp = mpmath.mp
    for s in (1e-8, 1e6):
        for Wv in W_lattice(2)[::3]:
            for Hv in ([1, 0, 0, 1], [1, -1, 0, 1], [0, 1, 1, 1]):
                res.count("evaluations")
                Rv = [1, 1, 2]
                flat = [[float(v) * s for v in Rv], [float(x) for x in Hv[0::2] + Hv[1::2]], [float(v) * s for v in Wv]]
                H = [[Hv[0], Hv[1]], [Hv[2], Hv[3]]]
                flat[1] = [float(x) for x in colmajor(H)]
                outs, _ = sxvm.run(pc, flat, sxvm.MPF)
                M = lambda rows: mp.matrix([[mp.mpf(x) for x in r] for r in rows])
                Wm = M([[float(x) * s for x in r] for r in mat_from_lower(2, Wv)])
                Rm = M([[float(x) * s for x in r] for r in mat_from_lower(2, Rv)])
                Hm = M(H)
                P = Wm * Wm.T
                S = Hm * P * Hm.T + Rm * Rm.T
                Kref = P * Hm.T * (S ** -1)
                K = M(from_colmajor(outs[1], 2, 2))
                if not all(mpmath.isfinite(v) for v in outs[1]) or max(abs(x) for x in (K - Kref)) > mp.mpf(10) ** -40:
                    res.fail(site="util.sqrt_correct", clause="gain_is_P_Ht_Sinv", cls="scale=%g" % s, detail=dict(W=Wv, H=Hv, scale=s), sub="variants", case=case)
    # (2) history: a call with sparse-pattern F, Q followed by a dense call of the same (otherwise unused) dimension
    n = 4
    try:
        W = ca.SX.sym("W", ca.Sparsity.lower(n))
        Fs = ca.SX.sym("F", ca.Sparsity.diag(n))
        Qs = ca.SX.sym("Q", ca.Sparsity.diag(n))
        u.sqrt_covariance_predict(W, Fs, Qs)
        fd = fn_predict(n)
        pd_ = sxvm.compile_fn(fd)
        for k in range(6):
            res.count("evaluations")
            res.nontrivial.add(hash(("hist", k)))
            Wv = [1 + ((i * 3 + k) % 3) if r == c else ((i + k) % 3) - 1 for i, (r, c) in enumerate(lower_idx(n))]
            Fm = [[Fraction(((i * 2 + j + k) % 3) - 1) for j in range(n)] for i in range(n)]
            A = [[Fraction(((i + 2 * j + k) % 3) - 1) for j in range(n)] for i in range(n)]
            Q = mm(A, tr(A))
            outs, _ = sxvm.run(pd_, [[Fraction(v) for v in Wv], colmajor(Fm), colmajor(Q)], sxvm.FRACTION)
            Wd = from_colmajor(outs[0], n, n)
            Wm = mat_from_lower(n, Wv)
            P = mm(Wm, tr(Wm))
            if any(v is sxvm.POISON for r in Wd for v in r) or madd(mm(Wd, tr(Wm)), mm(Wm, tr(Wd))) != madd(madd(mm(Fm, P), mm(P, tr(Fm))), Q):
                res.fail(site="util.sqrt_covariance_predict", clause="lyapunov_identity_exact", cls="n=4;after_sparse_call", detail=dict(W=Wv, k=k), sub="variants", case=case)
    except Exception as ex:
        res.count("evaluations")
        res.fail(site="util.sqrt_covariance_predict", clause="operation_raises", cls="history", detail=dict(msg=str(ex)[:200]), sub="variants", case=case)
    # (3) factorizations of matrices declared with a sparsity pattern (arrow head: fill-in appears in L)
    for kind in ("ldl", "udu"):
        for n in (3, 4):
            for first in (True, False):
                pat = ca.Sparsity.diag(n)
                sp = ca.DM(pat)
                Pm = ca.DM(n, n)  # all structural zeros (DM.zeros would be a dense pattern)
                idx = 0 if first else n - 1
                for i in range(n):
                    Pm[i, i] = 1
                    Pm[i, idx] = 1
                    Pm[idx, i] = 1
                if Pm.sparsity().nnz() != 3 * n - 2:
                    raise core.HarnessError("arrow-head pattern is not sparse")
                Ps = ca.SX.sym("P", Pm.sparsity())
                try:
                    Afac, D = (u.ldl_symmetric_decomposition(Ps) if kind == "ldl" else u.udu_symmetric_decomposition(Ps))
                    f = ca.Function(kind + "_sparse", [Ps], [ca.densify(Afac), ca.densify(D)])
                except Exception as ex:
                    res.count("evaluations")
                    res.fail(site="util.%s_symmetric_decomposition" % kind, clause="operation_raises", cls="sparse_pattern", detail=dict(n=n, msg=str(ex)[:200]), sub="variants", case=case)
                    continue
                prog = sxvm.compile_fn(f)
                rows, cols = Pm.sparsity().get_triplet()
                for k in range(4):
                    res.count("evaluations")
                    res.nontrivial.add(hash((kind, n, first, k)))
                    dense = [[Fraction(0)] * n for _ in range(n)]
                    for i in range(n):
                        dense[i][i] = Fraction(n + 2 + ((i + k) % 3))
                    for i in range(n):
                        if i != idx:
                            dense[i][idx] = dense[idx][i] = Fraction(((i + k) % 2) + 1)
                    nz = [dense[r][c] for r, c in zip(rows, cols)]
                    outs, _ = sxvm.run(prog, [nz], sxvm.FRACTION)
                    A = from_colmajor(outs[0], n, n)
                    D = from_colmajor(outs[1], n, n)
                    if any(v is sxvm.POISON for r in A for v in r) or mm(mm(A, D), tr(A)) != dense:
                        res.fail(site="util.%s_symmetric_decomposition" % kind, clause="reconstructs_input_with_unit_triangular_factor", cls="n=%d;sparse_pattern" % n,
                                 detail=dict(P=[[str(x) for x in r] for r in dense], arrow_first=first), sub="variants", case=case)
    # (4) sqrt_correct with a factor W that is structurally sparser than a full lower triangle: diagonal (the usual W0 = diag(sigma)) and
    # block diagonal, declared as a symbol with that pattern and given as numbers with stored zeros dropped
    mp = mpmath.mp

    def Mx(rows):
        return mp.matrix([[mp.mpf(float(x)) for x in r] for r in rows])
    for n, m_ in ((2, 1), (3, 1), (3, 2), (4, 2), (6, 1), (6, 2)):
        pats = {"diag": [(i, i) for i in range(n)],
                "block": sorted(set([(i, i) for i in range(n)] + [(i, i - 1) for i in range(1, n, 2)]), key=lambda rc: (rc[1], rc[0])),
                "first_col": sorted(set([(i, i) for i in range(n)] + [(i, 0) for i in range(n)]), key=lambda rc: (rc[1], rc[0])),
                "full": [(r, c) for c in range(n) for r in range(c, n)]}
        for pname, nzs in pats.items():
            sp = ca.Sparsity.triplet(n, n, [r for r, c in nzs], [c for r, c in nzs])
            try:
                Rs = ca.SX.sym("Rs", ca.Sparsity.lower(m_))
                H = ca.SX.sym("H", m_, n)
                Wsym = ca.SX.sym("W", sp)
                Wp, K, Ss = u.sqrt_correct(Rs, H, Wsym)
                fpat = ca.Function("sqrt_correct_" + pname, [Rs, H, Wsym], [ca.densify(Wp), ca.densify(K), ca.densify(Ss)])
            except Exception as ex:
                res.count("evaluations")
                res.fail(site="util.sqrt_correct", clause="operation_raises", cls="W_pattern=" + pname, detail=dict(n=n, m=m_, msg=str(ex)[:200]), sub="variants", case=case)
                continue
            rows_, cols_ = sp.get_triplet()
            order_ = list(zip(rows_, cols_))
            for k in range(5 if pname == "full" else 3):
                res.count("evaluations")
                res.nontrivial.add(hash(("wpat", n, m_, pname, k)))
                # measurement noise many orders of magnitude below / above the state uncertainty (k = 3, 4; full pattern)
                rscale = {3: 1e-8, 4: 1e6}.get(k, 1.0)
                Wd = [[0.0] * n for _ in range(n)]
                for (r, c) in order_:
                    Wd[r][c] = float(1 + ((r + k) % 3)) if r == c else float(((r * 2 + c + k) % 3) - 1) or 0.5
                Hv = [[float(((i * 3 + j * 2 + k) % 3) - 1) for j in range(n)] for i in range(m_)]
                if not any(any(r) for r in Hv):
                    Hv[0][0] = 1.0
                Rv = [[rscale * ((1.0 + i) if i == j else (0.5 if j < i else 0.0)) for j in range(m_)] for i in range(m_)]
                Wm, Hm, Rm = Mx(Wd), Mx(Hv), Mx(Rv)
                P = Wm * Wm.T
                S = Hm * P * Hm.T + Rm * Rm.T
                Kref = P * Hm.T * (S ** -1)
                Pp = (mp.eye(n) - Kref * Hm) * P
                for form in ("symbolic_pattern", "numeric_sparse"):
                    try:
                        if form == "symbolic_pattern":
                            o = fpat.call([ca.DM(ca.Sparsity.lower(m_), [Rv[r][c] for c in range(m_) for r in range(c, m_)]), ca.DM(np.array(Hv)), ca.DM(sp, [Wd[r][c] for r, c in order_])])
                        else:
                            Wn = ca.SX(n, n)
                            for (r, c) in order_:
                                Wn[r, c] = Wd[r][c]
                            Rn = ca.SX(ca.Sparsity.lower(m_))
                            for c in range(m_):
                                for r in range(c, m_):
                                    Rn[r, c] = Rv[r][c]
                            o3 = u.sqrt_correct(Rn, ca.SX(ca.DM(np.array(Hv))), Wn)
                            o = [ca.evalf(ca.densify(x)) for x in o3]
                        Wpn, Kn, Ssn = [np.array(x, dtype=float) for x in o]
                    except Exception as ex:
                        res.fail(site="util.sqrt_correct", clause="operation_raises", cls="W_pattern=%s;%s" % (pname, form), detail=dict(n=n, m=m_, msg="%s: %s" % (type(ex).__name__, str(ex)[:200])), sub="variants", case=case)
                        continue
                    bad = []
                    if not (np.all(np.isfinite(Wpn)) and np.all(np.isfinite(Kn))):
                        bad.append("finite")
                    else:
                        sc = 1 + float(max(abs(x) for x in P))
                        if max(abs(mp.mpf(float(Kn[i, j])) - Kref[i, j]) for i in range(n) for j in range(m_)) > 1e-9 * sc:
                            bad.append("gain_is_P_Ht_Sinv")
                        if max(abs(x) for x in (Mx(Wpn.tolist()) * Mx(Wpn.tolist()).T - Pp)) > 1e-9 * sc:
                            bad.append("posterior_factor")
                        if max(abs(x) for x in (Mx(Ssn.tolist()) * Mx(Ssn.tolist()).T - S)) > 1e-9 * (sc + float(max(abs(x) for x in S))):
                            bad.append("innovation_factor")
                        if np.max(np.abs(np.triu(Wpn, 1))) > 0:
                            bad.append("Wplus_lower_triangular")
                    for b in bad:
                        res.fail(site="util.sqrt_correct", clause=b, cls="W_pattern=%s;%s" % (pname, form), detail=dict(n=n, m=m_, W=Wd, H=Hv, Rs=Rv), sub="variants", case=case)
    # (6) what the caller's symbols are CALLED: a state vector is very often ca.SX.sym("X", n) or "x", a factor "W" or "L"; the routines
    # create symbols of their own inside.  The function built from renamed arguments must be the function built from the plain names,
    # also when the arguments are expressions of such symbols (F = jacobian(f(X), X)).
    NAMES = ("X", "x", "W", "L", "P", "D", "K", "a")
    n = 3
    Wn_ = np.array([[1.5, 0, 0], [0.25, 2.0, 0], [-0.5, 0.75, 0.5]])
    Fn_ = np.array([[0.0, 1.0, -0.5], [-2.0, -0.3, 0.25], [0.5, 0.0, 1.0]])
    Qn_ = np.array([[0.4, 0.1, 0.0], [0.1, 0.3, -0.05], [0.0, -0.05, 0.2]])
    Hn_ = np.array([[1.0, 0.0, -0.5], [0.25, 2.0, 0.0]])
    Rn_ = np.array([[0.3, 0.0], [0.1, 0.2]])
    Pn_ = Wn_ @ Wn_.T + np.array([[0.0, 0.2, 0], [0.2, 0, 0], [0, 0, 0.0]])
    lowvals = lambda M: [M[r, c] for c in range(M.shape[1]) for r in range(c, M.shape[0])]
    plain = dict(predict=np.array(fn_predict(n)(ca.DM(ca.Sparsity.lower(n), lowvals(Wn_)), Fn_, Qn_), dtype=float),
                 correct=[np.array(x, dtype=float) for x in fn_correct(n, 2)(ca.DM(ca.Sparsity.lower(2), lowvals(Rn_)), Hn_, ca.DM(ca.Sparsity.lower(n), lowvals(Wn_)))],
                 ldl=[np.array(x, dtype=float) for x in fn_fact("ldl", n)(Pn_)], udu=[np.array(x, dtype=float) for x in fn_fact("udu", n)(Pn_)])

    def near(a_, b_):
        return all(np.all(np.isfinite(x)) and np.max(np.abs(np.asarray(x) - np.asarray(y))) <= 1e-12 * (1 + np.max(np.abs(y))) for x, y in zip(a_, b_))
    for nm in NAMES:
        for slot in (0, 1, 2, "all", "jacobian"):
            res.count("evaluations")
            res.nontrivial.add(hash(("names", nm, slot)))
            nmW, nmF, nmQ = [(nm if slot in (k_, "all") else base) for k_, base in enumerate(("W", "F", "Q"))]
            try:
                with contextlib.redirect_stdout(io.StringIO()):
                    Ws = ca.SX.sym(nmW, ca.Sparsity.lower(n))
                    Qs = ca.SX.sym(nmQ, n, n)
                    if slot == "jacobian":
                        # F is the Jacobian of a model in a state called <nm>; it is evaluated at a state value afterwards
                        xs_ = ca.SX.sym(nm, n)
                        fx = ca.mtimes(ca.DM(Fn_), xs_) + ca.vertcat(0.5 * xs_[0] * xs_[1], 0, -0.25 * xs_[2] ** 2)
                        Fs = ca.jacobian(fx, xs_)
                        xv = np.array([0.4, -1.2, 0.7])
                        Fv_ = Fn_ + np.array([[0.5 * xv[1], 0.5 * xv[0], 0], [0, 0, 0], [0, 0, -0.5 * xv[2]]])
                        fP = ca.Function("p", [Ws, xs_, Qs], [ca.densify(u.sqrt_covariance_predict(Ws, Fs, Qs))])
                        got = [np.array(fP(ca.DM(ca.Sparsity.lower(n), lowvals(Wn_)), xv, Qn_), dtype=float)]
                        want = [np.array(fn_predict(n)(ca.DM(ca.Sparsity.lower(n), lowvals(Wn_)), Fv_, Qn_), dtype=float)]
                    else:
                        Fs = ca.SX.sym(nmF, n, n)
                        fP = ca.Function("p", [Ws, Fs, Qs], [ca.densify(u.sqrt_covariance_predict(Ws, Fs, Qs))])
                        got = [np.array(fP(ca.DM(ca.Sparsity.lower(n), lowvals(Wn_)), Fn_, Qn_), dtype=float)]
                        want = [plain["predict"]]
                if not near(got, want):
                    res.fail(site="util.sqrt_covariance_predict", clause="result_independent_of_symbol_names", cls="%s;%s" % (nm, slot), detail=dict(name=nm, slot=slot, got=got[0], want=want[0]), sub="variants", case=case)
            except Exception as ex:
                res.fail(site="util.sqrt_covariance_predict", clause="operation_raises", cls="names:%s;%s" % (nm, slot), detail=dict(name=nm, slot=slot, msg="%s: %s" % (type(ex).__name__, str(ex)[:200])), sub="variants", case=case)
            if slot == "jacobian":
                continue
            nmR, nmH, nmW2 = [(nm if slot in (k_, "all") else base) for k_, base in enumerate(("Rs", "H", "W"))]
            try:
                with contextlib.redirect_stdout(io.StringIO()):
                    Rs_ = ca.SX.sym(nmR, ca.Sparsity.lower(2))
                    Hs_ = ca.SX.sym(nmH, 2, n)
                    Ws2 = ca.SX.sym(nmW2, ca.Sparsity.lower(n))
                    fC_ = ca.Function("c", [Rs_, Hs_, Ws2], [ca.densify(x) for x in u.sqrt_correct(Rs_, Hs_, Ws2)])
                    got = [np.array(x, dtype=float) for x in fC_(ca.DM(ca.Sparsity.lower(2), lowvals(Rn_)), Hn_, ca.DM(ca.Sparsity.lower(n), lowvals(Wn_)))]
                if not near(got, plain["correct"]):
                    res.fail(site="util.sqrt_correct", clause="result_independent_of_symbol_names", cls="%s;%s" % (nm, slot), detail=dict(name=nm, slot=slot, got=got, want=plain["correct"]), sub="variants", case=case)
            except Exception as ex:
                res.fail(site="util.sqrt_correct", clause="operation_raises", cls="names:%s;%s" % (nm, slot), detail=dict(name=nm, slot=slot, msg="%s: %s" % (type(ex).__name__, str(ex)[:200])), sub="variants", case=case)
            if slot == 0:
                for kind in ("ldl", "udu"):
                    try:
                        with contextlib.redirect_stdout(io.StringIO()):
                            Ps_ = ca.SX.sym(nm, n, n)
                            A_, D_ = (u.ldl_symmetric_decomposition(Ps_) if kind == "ldl" else u.udu_symmetric_decomposition(Ps_))
                            got = [np.array(x, dtype=float) for x in ca.Function("f", [Ps_], [ca.densify(A_), ca.densify(D_)])(Pn_)]
                        if not near(got, plain[kind]):
                            res.fail(site="util.%s" % kind, clause="result_independent_of_symbol_names", cls=nm, detail=dict(name=nm, got=got, want=plain[kind]), sub="variants", case=case)
                    except Exception as ex:
                        res.fail(site="util.%s" % kind, clause="operation_raises", cls="names:%s" % nm, detail=dict(name=nm, msg="%s: %s" % (type(ex).__name__, str(ex)[:200])), sub="variants", case=case)
    res.samples.append(dict(variants="scale, history, sparse patterns, sparse W in sqrt_correct, symbol names"))
    return res


def explore_threads(case):
    """two calls of the routines in two threads, every interleaving of their Python statements with at most `bound` preemptions: the routines
    share nothing, so each call returns what it returns alone"""
    from .. import threads
    res = core.Result()
    u = _util()
    bound = case["bound"]
    A = np.array([[4.0, 1, 0.5], [1, 3, 0.2], [0.5, 0.2, 2]])
    B = np.array([[2.0, -0.3, 0.1], [-0.3, 5, 1.0], [0.1, 1.0, 3]])
    Wa, Wb = np.linalg.cholesky(A), np.linalg.cholesky(B)
    H = np.array([[1.0, 0.0, -0.5], [0.25, 2.0, 0.0]])
    Rs = np.array([[0.3, 0.0], [0.1, 0.2]])
    Fm = np.array([[0.0, 1.0, -0.5], [-2.0, -0.3, 0.25], [0.5, 0.0, 1.0]])

    def low(M):
        S = ca.SX(ca.Sparsity.lower(M.shape[0]))
        for c in range(M.shape[0]):
            for r in range(c, M.shape[0]):
                S[r, c] = float(M[r, c])
        return S

    def ev(xs):
        return b"".join(np.array(ca.evalf(ca.densify(x)), dtype=float).tobytes() for x in (xs if isinstance(xs, (tuple, list)) else [xs]))
    ops = {"ldl": lambda M, W: ev(u.ldl_symmetric_decomposition(ca.SX(ca.DM(M)))), "udu": lambda M, W: ev(u.udu_symmetric_decomposition(ca.SX(ca.DM(M)))),
           "sqrt_correct": lambda M, W: ev(u.sqrt_correct(low(Rs), ca.SX(ca.DM(H)), low(W))),
           "sqrt_covariance_predict": lambda M, W: ev(u.sqrt_covariance_predict(low(W), ca.SX(ca.DM(Fm)), ca.SX(ca.DM(M)))),
           "rk4": lambda M, W: ev(u.rk4(lambda t_, y_: ca.mtimes(ca.DM(Fm), y_) + t_, 0.3, ca.SX(ca.DM(M[:, 0])), ca.SX(0.25)))}
    a, b = case["pair"]
    fa = lambda: ops[a](A, Wa)
    fb = lambda: ops[b](B, Wb)
    with contextlib.redirect_stdout(io.StringIO()):
        alone = [fa(), fb()]
        nruns = mp = 0
        for choices, results, npts, capped in threads.explore([fa, fb], ("cyecca/util.py",), bound, max_runs=case["max_runs"]):
            if capped:
                res.counters["capped_at_runs"] = nruns
                break
            nruns += 1
            mp = max(mp, npts)
            res.count("evaluations")
            res.count("schedules")
            res.count("traces_validated_against_impl")
            res.nontrivial.add(hash((a, b, tuple(choices))))
            res.outcomes.add(hash(tuple(r[1] if r else None for r in results)))
            for k, (nm, r) in enumerate(zip((a, b), results)):
                if r is None or r[0] != "ok" or r[1] != alone[k]:
                    res.fail(site="util." + nm, clause="result_independent_of_a_concurrent_call", cls="with_" + (b if k == 0 else a),
                             detail=dict(pair=[a, b], thread=k, schedule=choices, outcome=(r[1] if r and r[0] != "ok" else "differs from the call alone")), sub="threads", case=case)
                    break
            if len(res.fails) >= 5:
                break
    res.counters["max_scheduling_points"] = max(res.counters["max_scheduling_points"], mp)
    res.samples.append(dict(thread_pair=[a, b], schedules=nruns, scheduling_points=mp, preemption_bound=bound))
    return res


class _SubT:
    chunks = 1

    def cases(self, tier, seed):
        names = ["ldl", "udu", "sqrt_correct", "sqrt_covariance_predict", "rk4"]
        pairs = [(x, x) for x in names] + [("ldl", "udu"), ("sqrt_correct", "sqrt_covariance_predict"), ("rk4", "sqrt_correct")]
        return [dict(sub="threads", pair=list(p), bound=(1 if tier == "quick" else 2), max_runs=(4000 if tier == "quick" else 8000), tier=tier) for p in pairs]

    def run(self, case):
        return explore_threads(case)


class _SubV:
    chunks = 1

    def cases(self, tier, seed):
        return [dict(sub="variants", tier=tier, seed=seed)]

    def run(self, case):
        return explore_predict_variants(case)


class _SubP:
    chunks = 1

    def cases(self, tier, seed):
        out = []
        for n, parts in ((1, 1), (2, 2), (3, 16)):
            out += [dict(n=n, tier=tier, seed=seed, part=p, nparts=parts) for p in range(parts)]
        for n in (4, 5, 6) + ((7, 8) if tier == "thorough" else ()):
            out += [dict(n=n, tier=tier, seed=seed, part=p, nparts=6, large=True) for p in range(6)]
        return out

    def run(self, case):
        return explore_predict(case)


class _SubC:
    chunks = 1

    def cases(self, tier, seed):
        out = []
        for n in (1, 2, 3):
            for m in (1, 2):
                parts = 8 if n == 3 else 2
                out += [dict(n=n, m=m, tier=tier, seed=seed, part=p, nparts=parts) for p in range(parts)]
        # larger dimensions (the estimator runs these routines with n = 6, m = 1 and 2), small designed families
        for n, m in ((4, 1), (4, 3), (5, 2), (6, 1), (6, 2), (6, 3)) + (((5, 1), (5, 3), (7, 2)) if tier == "thorough" else ()):
            out += [dict(n=n, m=m, tier=tier, seed=seed, part=p, nparts=4, large=True) for p in range(4)]
        return out

    def run(self, case):
        return explore_correct(case)


class _SubF:
    chunks = 1

    def cases(self, tier, seed):
        ns = (1, 2, 3, 4) if tier != "thorough" else (1, 2, 3, 4, 5)
        return [dict(kind=k, n=n, tier=tier, seed=seed) for k in ("ldl", "udu") for n in ns]

    def run(self, case):
        return explore_fact(case)


class _SubR:
    chunks = 1

    def cases(self, tier, seed):
        return [dict(tier=tier, seed=seed)]

    def run(self, case):
        return explore_rk4(case)


SUBCHECKS = {"variants": _SubV(), "predict": _SubP(), "correct": _SubC(), "fact": _SubF(), "rk4": _SubR(), "threads": _SubT()}
REPLAY = {"variants": lambda c: explore_predict_variants(c).fails, "predict": lambda c: explore_predict(c).fails, "correct": lambda c: explore_correct(c).fails,
          "fact": lambda c: explore_fact(c).fails, "rk4": lambda c: explore_rk4(c).fails, "threads": lambda c: explore_threads(c).fails}
