"""C09 - generated C code computes the same functions as the symbolic models.

explorer : configuration x program x input enumeration.  For every shipped equation set and every generator entry point,
           for every option combination in the tier's set: generate, check the exported function set (names, arities,
           sparsities, argument names) against the equation set, compile with gcc -Wall, load with ctypes and compare
           every function bit-for-bit with Function.__call__ on an input lattice that enters the branch cells
           (path signatures from sxvm are counted) including inputs that make unselected branches NaN/Inf.
"""
from __future__ import annotations

import contextlib
import ctypes
import io
import itertools
import os
import re
import shutil
import struct
import subprocess
import tempfile
import time

import casadi as ca
import numpy as np

from .. import alpha, core, sxvm

LEVEL = "exploration"
RULE = ("(equation set, generator, option combination) x function x input lattice; inputs: per-argument patterns {zeros, ones, 0.7 e1, "
        "alternating, seeded generic, x50, x1e-9, negative generic} swept per argument with the others cycling + full product of 3 patterns "
        "on the first arguments (cap 2500 per function); process environments {python -O, -OO, TMPDIR on another filesystem, TMPDIR missing, hash seed 1, locale de_DE} x all sets x 3 option sets; 13 spellings of the destination directory (pathlib, relative, trailing separator, space, unicode, symlink, stale contents, ...) x 6 sets, option values as numpy.bool_ / comparison results / 0-1; 4 pairs of generators in two threads (absolute and relative destinations), all interleavings with <= 1 preemption. non-trivial = input not all zeros; distinct by (function, raw input bytes)")
ASSUMPTIONS = ["gcc, libm and ctypes trusted; NaN *arguments* are CasADi's contract and not judged",
               "mex=True output cannot be compiled here (no MATLAB headers): generation and function-set completeness only",
               "thorough tier: every option combination is generated and its function set checked; compile+run on the tier's covering subset"]
CASADI_INC = os.path.join(os.path.dirname(ca.__file__), "include")

GENERIC_KEYS = ["verbose", "mex", "cpp", "main", "with_header", "with_mem", "with_export", "with_import", "include_math", "avoid_stack"]
GENERIC_DEFAULT = dict(verbose=True, mex=False, cpp=False, main=False, with_header=True, with_mem=False, with_export=False,
                       with_import=False, include_math=True, avoid_stack=True)
EST_KEYS = ["main", "mex", "with_header", "with_mem"]
EST_DEFAULT = dict(main=False, mex=False, with_header=True, with_mem=True)


def bounds(tier):
    return dict(option_sets="default + one flipped key" if tier == "quick" else "all combinations generated; pairwise covering compiled")


def equation_sets():
    """name -> (generator kind, dict of functions or dict of dicts)"""
    with contextlib.redirect_stdout(io.StringIO()):
        from cyecca.estimate.attitude import algorithms
        from cyecca.models import bezier, mr_ref_traj, rdd2, rdd2_loglinear
        import cyecca.codegen as cg
        est = algorithms.eqs()
        r = {}
        for d in (rdd2.derive_attitude_rate_control, rdd2.derive_attitude_control, rdd2.derive_position_control, rdd2.derive_input_acro,
                  rdd2.derive_input_auto_level, rdd2.derive_input_velocity, rdd2.derive_strapdown_ins_propagation,
                  rdd2.derive_control_allocation, rdd2.derive_common):
            r.update(d())
        rl = {}
        for d in (rdd2_loglinear.derive_so3_attitude_control, rdd2_loglinear.derive_outerloop_control, rdd2_loglinear.derive_se23_error):
            rl.update(d())
        bz = {}
        for d in (bezier.derive_bezier7, bezier.derive_bezier3, bezier.derive_dcm_to_quat, bezier.derive_ref, bezier.derive_multirotor):
            bz.update(d())
        mr = mr_ref_traj.derive_mr_ref_traj()
    return dict(
        estimator=dict(kind="est", gen=algorithms.generate_code, sets=est, files={k: "casadi_%s.c" % k for k in est}),
        estimator_generic=dict(kind="generic_multi", gen=cg.generate_code, sets=est, files={k: "%s.c" % k for k in est}),
        rdd2=dict(kind="single", gen=rdd2.generate_code, sets={"rdd2": r}, files={"rdd2": "rdd2.c"}),
        rdd2_loglinear=dict(kind="single", gen=rdd2_loglinear.generate_code, sets={"rdd2_loglinear": rl}, files={"rdd2_loglinear": "rdd2_loglinear.c"}),
        bezier=dict(kind="single", gen=bezier.generate_code, sets={"bezier": bz}, files={"bezier": "bezier.c"}),
        mr_ref_traj=dict(kind="generic_multi", gen=cg.generate_code, sets={"mr_ref_traj": mr}, files={"mr_ref_traj": "mr_ref_traj.c"}),
    )


def option_sets(kind, tier):
    keys, default = (EST_KEYS, EST_DEFAULT) if kind == "est" else (GENERIC_KEYS, GENERIC_DEFAULT)
    out = [dict()]
    for k in keys:
        out.append({k: (not default[k])})
    if tier == "thorough":
        if kind == "est":
            for combo in itertools.product([False, True], repeat=len(keys)):
                out.append(dict(zip(keys, combo)))
        else:
            # pairwise covering array over 10 boolean keys (every pair of keys sees all 4 value combinations)
            rows = [[(i >> b) & 1 for b in range(4)] for i in range(16)]
            cols = []
            for c in range(len(keys)):
                # distinct non-constant 16-bit columns from XOR combinations of the 4 base bits
                mask = c + 1
                cols.append([bin(i & mask).count("1") % 2 for i in range(16)])
            for i in range(16):
                out.append({k: bool(cols[c][i]) for c, k in enumerate(keys)})
    uniq, seen = [], set()
    for o in out:
        key = tuple(sorted(o.items()))
        if key not in seen:
            seen.add(key)
            uniq.append(o)
    return uniq


def all_option_sets(kind):
    keys = EST_KEYS if kind == "est" else GENERIC_KEYS
    return [dict(zip(keys, c)) for c in itertools.product([False, True], repeat=len(keys))]


def patterns(n, seed):
    g = alpha.generic_vec(seed, max(n, 1), scale=2.0)[:n] if n else np.zeros(0)
    if n and maxabs0(g) == 0:
        g = np.ones(n) * 0.37
    e1 = np.zeros(n)
    if n:
        e1[0] = 0.7
    alt = np.array([0.3 * (i + 1) * (-1) ** i for i in range(n)])
    return [np.zeros(n), np.ones(n), e1, alt, g, 50.0 * g, 1e-9 * g, -g]


def maxabs0(v):
    return float(np.max(np.abs(v))) if len(v) else 0.0


def input_lattice(f, seed, cap=2500):
    n_in = f.n_in()
    pats = [patterns(f.nnz_in(k), seed + k) for k in range(n_in)]
    out, seen = [], set()

    def add(choice):
        key = b"".join(c.tobytes() for c in choice)
        if key in seen:
            return
        seen.add(key)
        out.append(choice)
    if n_in == 0:
        return [[]]
    for k in range(n_in):
        for i, p in enumerate(pats[k]):
            add([pats[j][(i * (2 * j + 1) + j) % len(pats[j])] if j != k else p for j in range(n_in)])
    sub = [0, 1, 4]
    first = list(range(min(n_in, 6)))
    for combo in itertools.product(sub, repeat=len(first)):
        if len(out) >= cap:
            break
        add([pats[j][combo[first.index(j)]] if j in first else pats[j][4] for j in range(n_in)])
    return out


class CLib:
    def __init__(self, path, with_mem):
        self.lib = ctypes.CDLL(path)
        self.with_mem = with_mem

    def has(self, sym):
        try:
            getattr(self.lib, sym)
            return True
        except AttributeError:
            return False

    def meta(self, name):
        L = self.lib
        ll = ctypes.c_longlong
        n_in = getattr(L, name + "_n_in")
        n_in.restype = ll
        n_out = getattr(L, name + "_n_out")
        n_out.restype = ll
        ni, no = n_in(), n_out()
        nm_in = getattr(L, name + "_name_in")
        nm_in.restype = ctypes.c_char_p
        nm_in.argtypes = [ll]
        nm_out = getattr(L, name + "_name_out")
        nm_out.restype = ctypes.c_char_p
        nm_out.argtypes = [ll]
        sp_in = getattr(L, name + "_sparsity_in")
        sp_in.restype = ctypes.POINTER(ll)
        sp_in.argtypes = [ll]
        sp_out = getattr(L, name + "_sparsity_out")
        sp_out.restype = ctypes.POINTER(ll)
        sp_out.argtypes = [ll]

        def sp(ptr):
            nrow, ncol = ptr[0], ptr[1]
            if ptr[2] == 1:  # dense flag
                return (nrow, ncol, nrow * ncol)
            colind = [ptr[2 + i] for i in range(ncol + 1)]
            return (nrow, ncol, colind[-1])
        return dict(n_in=ni, n_out=no, names_in=[nm_in(i).decode() for i in range(ni)], names_out=[nm_out(i).decode() for i in range(no)],
                    sp_in=[sp(sp_in(i)) for i in range(ni)], sp_out=[sp(sp_out(i)) for i in range(no)])

    def call(self, name, f, flat):
        L = self.lib
        ll = ctypes.c_longlong
        work = getattr(L, name + "_work")
        sa, sr, si, sw = ll(), ll(), ll(), ll()
        work.argtypes = [ctypes.POINTER(ll)] * 4
        work(ctypes.byref(sa), ctypes.byref(sr), ctypes.byref(si), ctypes.byref(sw))
        n_in, n_out = f.n_in(), f.n_out()
        inbufs = [(ctypes.c_double * max(len(a), 1))(*[float(x) for x in a]) for a in flat]
        outbufs = [(ctypes.c_double * max(f.nnz_out(i), 1))() for i in range(n_out)]
        argv = (ctypes.POINTER(ctypes.c_double) * max(sa.value, n_in, 1))()
        resv = (ctypes.POINTER(ctypes.c_double) * max(sr.value, n_out, 1))()
        for i, b in enumerate(inbufs):
            argv[i] = ctypes.cast(b, ctypes.POINTER(ctypes.c_double))
        for i, b in enumerate(outbufs):
            resv[i] = ctypes.cast(b, ctypes.POINTER(ctypes.c_double))
        iw = (ll * max(si.value, 1))()
        w = (ctypes.c_double * max(sw.value, 1))()
        fn = getattr(L, name)
        fn.restype = ctypes.c_int
        mem = 0
        if self.with_mem and self.has(name + "_checkout"):
            co = getattr(L, name + "_checkout")
            co.restype = ctypes.c_int
            mem = co()
        rc = fn(argv, resv, iw, w, ctypes.c_int(mem))
        if self.with_mem and self.has(name + "_release"):
            getattr(L, name + "_release")(ctypes.c_int(mem))
        return rc, [[outbufs[i][j] for j in range(f.nnz_out(i))] for i in range(n_out)]


def explore(case):
    setname, tier, seed, opts, compile_run = case["set"], case["tier"], case["seed"], case["opts"], case["compile"]
    res = core.Result()
    E = equation_sets()[setname]
    site0 = "%s%s" % (setname, "" if not opts else "{" + ",".join("%s=%s" % kv for kv in sorted(opts.items())) + "}")
    cls = "default" if not opts else ",".join("%s=%s" % kv for kv in sorted(opts.items()))
    tmp = tempfile.mkdtemp(prefix="c09_", dir=os.environ.get("VERIF_SCRATCH") or None)
    try:
        res.count("evaluations")
        try:
            with contextlib.redirect_stdout(io.StringIO()):
                if E["kind"] == "single":
                    (nm, fns), = E["sets"].items()
                    E["gen"](fns, filename=E["files"][nm], dest_dir=os.path.join(tmp, "out"), **opts)
                else:
                    E["gen"](E["sets"], os.path.join(tmp, "out"), **opts)
        except Exception as ex:
            res.fail(site=setname + ".generate_code", clause="generation_succeeds", cls=cls,
                     detail=dict(options=opts, error="%s: %s" % (type(ex).__name__, str(ex)[:300])), sub="gen", case=case)
            return res
        eff = dict(EST_DEFAULT if E["kind"] == "est" else GENERIC_DEFAULT)
        eff.update(opts)
        for nm, fns in E["sets"].items():
            cfile = os.path.join(tmp, "out", E["files"][nm])
            if eff.get("cpp"):
                alt = cfile[:-2] + ".cpp"
                if not os.path.exists(cfile) and os.path.exists(alt):
                    cfile = alt
            if not os.path.exists(cfile):
                res.fail(site=setname + ".generate_code", clause="file_written", cls=cls, detail=dict(expected=os.path.basename(cfile),
                         present=sorted(os.listdir(os.path.join(tmp, "out"))) if os.path.isdir(os.path.join(tmp, "out")) else []), sub="gen", case=case)
                continue
            src = open(cfile).read()
            exported = re.findall(r"casadi_int\s+(\w+)_n_in\(void\)\s*\{", src)
            want = sorted(f.name() for f in fns.values())
            res.count("programs", len(want))
            if sorted(exported) != want:
                res.fail(site=setname + ".generate_code", clause="function_set_complete_no_duplicates", cls=cls,
                         detail=dict(file=os.path.basename(cfile), missing=sorted(set(want) - set(exported)),
                                     extra=sorted(set(exported) - set(want)), duplicated=sorted(set(x for x in exported if exported.count(x) > 1))),
                         sub="gen", case=case)
            if eff.get("with_header"):
                h = cfile.rsplit(".", 1)[0] + ".h"
                if not os.path.exists(h):
                    res.fail(site=setname + ".generate_code", clause="header_written", cls=cls, detail=dict(expected=os.path.basename(h)), sub="gen", case=case)
                else:
                    hs = open(h).read()
                    miss = [n for n in want if not re.search(r"\b%s\s*\(" % re.escape(n), hs)]
                    if miss:
                        res.fail(site=setname + ".generate_code", clause="header_declares_every_function", cls=cls, detail=dict(missing=miss), sub="gen", case=case)
            if not compile_run or eff.get("mex"):
                continue
            so = os.path.join(tmp, nm + ".so")
            # cpp=True emits extern "C" linkage (a C++ translation unit); include_math=False leaves <math.h> to the user
            comp = (["g++", "-x", "c++"] if eff.get("cpp") else ["gcc"]) + ["-Wall", "-O1", "-fPIC", "-shared", "-I", CASADI_INC]
            if not eff.get("include_math"):
                comp += ["-include", "math.h"]
            comp += ["-o", so, cfile, "-lm"]
            r = subprocess.run(comp, capture_output=True, text=True)
            res.count("evaluations")
            if r.returncode != 0 or r.stderr.strip():
                res.fail(site=setname + ".generate_code", clause="compiles_cleanly_gcc_Wall", cls=cls,
                         detail=dict(rc=r.returncode, diagnostics=r.stderr[:600]), sub="gen", case=case)
                if r.returncode != 0:
                    continue
            lib = CLib(so, bool(eff.get("with_mem")))
            for key, f in fns.items():
                name = f.name()
                if not lib.has(name):
                    res.fail(site=setname + "." + name, clause="symbol_exported", cls=cls, detail={}, sub="gen", case=case)
                    continue
                m = lib.meta(name)
                want_m = dict(n_in=f.n_in(), n_out=f.n_out(), names_in=[f.name_in(i) for i in range(f.n_in())],
                              names_out=[f.name_out(i) for i in range(f.n_out())],
                              sp_in=[(f.size1_in(i), f.size2_in(i), f.nnz_in(i)) for i in range(f.n_in())],
                              sp_out=[(f.size1_out(i), f.size2_out(i), f.nnz_out(i)) for i in range(f.n_out())])
                if m != want_m:
                    res.fail(site=setname + "." + name, clause="same_argument_and_result_layout", cls=cls, detail=dict(c=m, symbolic=want_m), sub="gen", case=case)
                    continue
                prog = sxvm.compile_fn(f) if f.class_name() == "SXFunction" else None
                sigs = set()
                for choice in input_lattice(f, seed, cap=2500 if tier == "thorough" else (600 if not opts else 250)):
                    flat = [list(map(float, c)) for c in choice]
                    res.count("evaluations")
                    if any(maxabs0(c) > 0 for c in choice):
                        res.nontrivial.add(hash((name,) + tuple(c.tobytes() for c in choice)))
                    rc, outs_c = lib.call(name, f, flat)
                    outs_s = sxvm.casadi_eval(f, flat)
                    if prog is not None:
                        sigs.add(sxvm.run(prog, flat, sxvm.FLOAT)[1])
                    same = rc == 0 and all(sxvm.same_bits(a, b) for oc, os_ in zip(outs_c, outs_s) for a, b in zip(oc, os_))
                    res.count("traces_validated_against_impl")
                    if not same:
                        worst = max([sxvm.ulp_diff(a, b) for oc, os_ in zip(outs_c, outs_s) for a, b in zip(oc, os_)] + [0.0])
                        res.fail(site=setname + "." + name, clause="c_equals_symbolic_bitwise", cls=cls,
                                 detail=dict(inputs=flat, rc=rc, worst_ulp=worst, c=outs_c, symbolic=outs_s), sub="gen", case=case)
                        break
                res.outcomes |= set(hash((name, s)) for s in sigs)
                res.add_set("cells_entered", "%s.%s:%d" % (setname, name, len(sigs)))
    finally:
        shutil.rmtree(tmp, ignore_errors=True)
    res.samples.append(dict(set=setname, options=opts, compiled=bool(compile_run)))
    return res


def _generate(E, dest, opts):
    with contextlib.redirect_stdout(io.StringIO()):
        if E["kind"] == "single":
            (nm, fns), = E["sets"].items()
            E["gen"](fns, filename=E["files"][nm], dest_dir=dest, **opts)
        else:
            E["gen"](E["sets"], dest, **opts)
    out = {}
    for root, _, files in os.walk(dest):
        for fn in sorted(files):
            out[fn] = open(os.path.join(root, fn)).read()
    return out


def explore_sequence(case):
    """history independence of the generators: all words of length 2 over the option sets followed by a default call must
    give the same files as a first default call (options of one call must not leak into the next)"""
    setname, tier = case["set"], case["tier"]
    res = core.Result()
    E = equation_sets()[setname]
    tmp = tempfile.mkdtemp(prefix="c09s_", dir=os.environ.get("VERIF_SCRATCH") or None)
    try:
        k = 0
        try:
            base = _generate(E, os.path.join(tmp, "base"), {})
        except Exception as ex:
            res.count("evaluations")
            res.fail(site=setname + ".generate_code", clause="generation_succeeds", cls="default", detail=dict(error=str(ex)[:300]), sub="seq", case=case)
            return res
        opt_list = [o for o in option_sets(E["kind"], "quick") if o]
        words = [(a,) for a in opt_list] + ([(a, b) for a in opt_list for b in opt_list if a != b] if tier == "thorough" else [])
        for w in words:
            res.count("evaluations")
            res.count("programs")
            res.nontrivial.add(hash((setname, json_key(w))))
            ok = True
            for o in w:
                k += 1
                try:
                    _generate(E, os.path.join(tmp, "w%d" % k), o)
                except Exception:
                    ok = False  # judged by the per-configuration sub-check
            k += 1
            try:
                again = _generate(E, os.path.join(tmp, "w%d" % k), {})
            except Exception as ex:
                res.fail(site=setname + ".generate_code", clause="default_call_after_other_calls_succeeds", cls="sequence",
                         detail=dict(previous=[dict(o) for o in w], error=str(ex)[:300]), sub="seq", case=case)
                continue
            res.outcomes.add(hash(tuple(sorted(again))))
            if again != base:
                diff = sorted(set(again) ^ set(base)) or [f for f in base if again.get(f) != base[f]]
                res.fail(site=setname + ".generate_code", clause="output_depends_only_on_this_calls_options", cls="sequence",
                         detail=dict(previous=[dict(o) for o in w], differing_files=diff[:6]), sub="seq", case=case)
            shutil.rmtree(os.path.join(tmp, "w%d" % k), ignore_errors=True)
        # the same destination directory used again: whatever an earlier call left there (other options, a subset of the functions),
        # a default call must leave exactly what it leaves in an empty directory
        firsts = [("options", E, o) for o in opt_list]
        if E["kind"] == "single":
            (nm, fns), = E["sets"].items()
            names = sorted(fns)
            for tag, keep in (("first_half", names[:max(1, len(names) // 2)]), ("last_two", names[-2:])):
                firsts.append((tag, dict(E, sets={nm: {n: fns[n] for n in keep}}), {}))
        else:
            names = sorted(E["sets"])
            if len(names) > 1:
                firsts.append(("first_set_only", dict(E, sets={names[0]: E["sets"][names[0]]}), {}))
                firsts.append(("last_set_only", dict(E, sets={names[-1]: E["sets"][names[-1]]}), {}))
        for tag, E1, o in firsts:
            res.count("evaluations")
            res.count("programs")
            res.count("same_directory_sequences")
            res.nontrivial.add(hash((setname, "samedir", tag, json_key((o,)))))
            k += 1
            d = os.path.join(tmp, "w%d" % k)
            try:
                _generate(E1, d, o)
            except Exception:
                pass  # judged by the per-configuration sub-check
            time.sleep(0.02)
            try:
                again = _generate(E, d, {})
            except Exception as ex:
                res.fail(site=setname + ".generate_code", clause="default_call_after_other_calls_succeeds", cls="same_directory",
                         detail=dict(first=tag, options=dict(o), error=str(ex)[:300]), sub="seq", case=case)
                continue
            extra = sorted(set(again) - set(base))
            diff = [f for f in base if again.get(f) != base[f]]
            if diff:
                res.fail(site=setname + ".generate_code", clause="output_depends_only_on_this_calls_options", cls="same_directory",
                         detail=dict(first=tag, options=dict(o), differing_files=diff[:6], leftover_files=extra[:6]), sub="seq", case=case)
            shutil.rmtree(d, ignore_errors=True)
    finally:
        shutil.rmtree(tmp, ignore_errors=True)
    res.samples.append(dict(set=setname, sequences=len(words), same_directory_sequences=len(firsts)))
    return res


def explore_together(case):
    """the equation sets used together, the way a firmware build uses them: generated one after the other into ONE directory in every
    order (each set's files must stay what they are when the set is generated alone), all generated files linked into one shared object
    (no symbol defined twice) from which every function of every set is callable, and a relative destination directory"""
    perm_i, tier = case["perm"], case["tier"]
    res = core.Result()
    ES = equation_sets()
    order_names = ["rdd2", "rdd2_loglinear", "bezier", "estimator", "mr_ref_traj"]
    perms = list(itertools.permutations(range(len(order_names))))
    # a covering subset of the 120 orders: every ordered pair of sets appears in some order (quick), all orders (thorough)
    if tier != "thorough":
        perms = [perms[i] for i in (0, 119, 33, 86, 57, 14)]
    perm = perms[perm_i % len(perms)]
    tmp = tempfile.mkdtemp(prefix="c09t_", dir=os.environ.get("VERIF_SCRATCH") or None)
    try:
        alone = {}
        for nm in order_names:
            alone[nm] = _generate(ES[nm], os.path.join(tmp, "alone_" + nm), {})
        shared = os.path.join(tmp, "shared")
        res.count("evaluations")
        res.count("programs", len(order_names))
        res.nontrivial.add(hash(("together", perm)))
        res.nontrivial.add(hash(("together", perm, 1)))
        for i in perm:
            try:
                _generate(ES[order_names[i]], shared, {})
            except Exception as ex:
                res.fail(site=order_names[i] + ".generate_code", clause="generation_succeeds", cls="shared_directory", detail=dict(order=[order_names[j] for j in perm], error="%s: %s" % (type(ex).__name__, str(ex)[:300])),
                         sub="together", case=case)
        have = {}
        for root, _, files in os.walk(shared):
            for fn in sorted(files):
                have[fn] = open(os.path.join(root, fn)).read()
        for nm in order_names:
            bad = [f for f, txt in alone[nm].items() if have.get(f) != txt]
            if bad:
                res.fail(site=nm + ".generate_code", clause="files_of_a_set_unaffected_by_generating_other_sets_into_the_same_directory", cls="shared_directory",
                         detail=dict(order=[order_names[j] for j in perm], missing_or_changed=bad[:6]), sub="together", case=case)
        res.outcomes.add(hash(tuple(sorted(have))))
        # link everything into one shared object
        if perm_i == 0:
            # (the simulator set re-uses the names `constants` / `get_state` of the estimator set by design: it is linked in its own object)
            cfiles = sorted(os.path.join(shared, f) for f in have if f.endswith(".c") and f != "casadi_sim.c")
            so = os.path.join(tmp, "all.so")
            r = subprocess.run(["gcc", "-O0", "-fPIC", "-shared", "-I", CASADI_INC, "-o", so] + cfiles + ["-lm"], capture_output=True, text=True)
            res.count("evaluations")
            if r.returncode != 0:
                res.fail(site="all_sets", clause="generated_files_link_into_one_program", cls="link", detail=dict(files=[os.path.basename(c) for c in cfiles], diagnostics=r.stderr[-700:]), sub="together", case=case)
            else:
                lib = ctypes.CDLL(so)
                for nm in order_names:
                    E = ES[nm]
                    for setn, fns in E["sets"].items():
                        if setn == "sim":
                            continue
                        fdict = fns
                        for key, f in fdict.items():
                            res.count("evaluations")
                            if not isinstance(f, ca.Function):
                                continue
                            if not hasattr(lib, f.name()):
                                res.fail(site=nm + "." + f.name(), clause="symbol_exported", cls="link", detail={}, sub="together", case=case)
            # relative destination directory, several sets in one call (generic generator) and one set (model generators)
            cwd = os.getcwd()
            work = os.path.join(tmp, "work")
            os.makedirs(work)
            try:
                os.chdir(work)
                for nm in ("estimator_generic", "estimator", "rdd2", "mr_ref_traj"):
                    res.count("evaluations")
                    rel = "gen_" + nm
                    try:
                        got = _generate(ES[nm], rel, {})
                    except Exception as ex:
                        res.fail(site=nm + ".generate_code", clause="generation_succeeds", cls="relative_directory", detail=dict(error="%s: %s" % (type(ex).__name__, str(ex)[:300])), sub="together", case=case)
                        continue
                    want = _generate(ES[nm], os.path.join(tmp, "abs_" + nm), {})
                    flat = set(os.listdir(os.path.join(work, rel))) if os.path.isdir(os.path.join(work, rel)) else set()
                    if got != want or not set(want) <= flat:
                        res.fail(site=nm + ".generate_code", clause="relative_destination_directory_receives_the_same_files", cls="relative_directory",
                                 detail=dict(expected=sorted(want), found_in_directory=sorted(flat), found_below=sorted(got)), sub="together", case=case)
                    if os.getcwd() != work:
                        res.fail(site=nm + ".generate_code", clause="working_directory_unchanged", cls="relative_directory", detail=dict(cwd=os.getcwd()), sub="together", case=case)
                        os.chdir(work)
            finally:
                os.chdir(cwd)
    finally:
        shutil.rmtree(tmp, ignore_errors=True)
    res.samples.append(dict(together_order=[order_names[j] for j in perm]))
    return res


class _Tog:
    chunks = 1

    def cases(self, tier, seed):
        return [dict(sub="together", tier=tier, perm=i) for i in range(120 if tier == "thorough" else 6)]

    def run(self, case):
        return explore_together(case)


def explore_script(case):
    """the model modules are also run as scripts (`python -m cyecca.models.<m> <dest>`), which is how the shipped C files are produced:
    the script's output must be byte-identical to the output of the same export list generated through the API in this process"""
    import sys
    setname = case["set"]
    res = core.Result()
    E = equation_sets()[setname]
    mod = {"rdd2": "cyecca.models.rdd2", "rdd2_loglinear": "cyecca.models.rdd2_loglinear", "bezier": "cyecca.models.bezier"}[setname]
    tmp = tempfile.mkdtemp(prefix="c09x_", dir=os.environ.get("VERIF_SCRATCH") or None)
    try:
        res.count("evaluations")
        res.count("programs")
        res.nontrivial.add(hash(setname))
        res.nontrivial.add(hash(setname + "x"))
        api = _generate(E, os.path.join(tmp, "api"), {})
        env = dict(os.environ)
        env["MPLBACKEND"] = "Agg"
        r = subprocess.run([sys.executable, "-W", "ignore", "-m", mod, os.path.join(tmp, "script")], capture_output=True, text=True, env=env, cwd=tmp, timeout=600)
        if r.returncode != 0:
            res.fail(site=setname + ".__main__", clause="script_entry_point_succeeds", cls="script", detail=dict(rc=r.returncode, stderr=r.stderr[-400:]), sub="script", case=case)
            return res
        got = {}
        for root, _, files in os.walk(os.path.join(tmp, "script")):
            for fn in sorted(files):
                got[fn] = open(os.path.join(root, fn)).read()
        res.outcomes.add(hash(tuple(sorted(got))))
        if got != api:
            diff = sorted(set(got) ^ set(api)) or [f for f in api if got.get(f) != api[f]]
            res.fail(site=setname + ".__main__", clause="script_output_equals_api_output", cls="script", detail=dict(differing_files=diff[:6]), sub="script", case=case)
    finally:
        shutil.rmtree(tmp, ignore_errors=True)
    res.samples.append(dict(script=mod))
    return res


class _Script:
    chunks = 1

    def cases(self, tier, seed):
        return [dict(sub="script", set=n, tier=tier) for n in ("rdd2", "rdd2_loglinear", "bezier")]

    def run(self, case):
        return explore_script(case)


ENVS = {
    # tag -> (interpreter flags, environment overrides); "@shm" is replaced by a fresh directory on another filesystem than the destination
    "python_O": (["-O"], {}),
    "python_OO": (["-OO"], {}),
    "tmpdir_on_another_filesystem": ([], {"TMPDIR": "@shm"}),
    "tmpdir_missing": ([], {"TMPDIR": "/nonexistent/c09"}),
    "hashseed_1": ([], {"PYTHONHASHSEED": "1"}),
    "locale_de": ([], {"LC_ALL": "de_DE.UTF-8", "LANG": "de_DE.UTF-8"}),
}
ENV_OPTS = {"est": [dict(), dict(with_header=False), dict(main=True, with_mem=False)],
            "generic": [dict(), dict(with_header=False), dict(main=True, with_mem=True, verbose=False)]}


def _env_driver(argv):
    """child process: generate every equation set with every option set of ENV_OPTS into <dest>/<set>/<k>"""
    import json
    dest = argv[0]
    E_all = equation_sets()
    for name, E in E_all.items():
        for k, o in enumerate(ENV_OPTS["est" if E["kind"] == "est" else "generic"]):
            os.makedirs(os.path.join(dest, name), exist_ok=True)
            _generate(E, os.path.join(dest, name, str(k)), o)
    print("ENV-DRIVER-DONE")


def explore_env(case):
    """the generators under another process environment: interpreter optimisation flags (assert statements and docstrings removed),
    a temporary directory on another filesystem than the destination or missing, another hash seed, another locale.
    The files must be byte-identical to what this process generates for the same options."""
    import sys
    tag = case["env"]
    flags, over = ENVS[tag]
    res = core.Result()
    tmp = tempfile.mkdtemp(prefix="c09e_", dir=os.environ.get("VERIF_SCRATCH") or None)
    shm = None
    try:
        env = dict(os.environ)
        env["MPLBACKEND"] = "Agg"
        env["PYTHONPATH"] = os.pathsep.join([os.path.dirname(os.path.dirname(os.path.dirname(os.path.abspath(__file__))))] + ([env["PYTHONPATH"]] if env.get("PYTHONPATH") else []))
        for k, v in over.items():
            if v == "@shm":
                if not os.path.isdir("/dev/shm") or os.stat("/dev/shm").st_dev == os.stat(tmp).st_dev:
                    res.count("excluded_by_reference")
                    res.count("evaluations")
                    res.nontrivial.add(hash(tag))
                    res.nontrivial.add(hash(tag + "x"))
                    res.samples.append(dict(env=tag, skipped="no second filesystem available"))
                    return res
                shm = tempfile.mkdtemp(prefix="c09e_", dir="/dev/shm")
                v = shm
            env[k] = v
        r = subprocess.run([sys.executable] + flags + ["-W", "ignore", "-c", "import sys; from mc.props import c09; c09._env_driver(sys.argv[1:])", os.path.join(tmp, "child")],
                           capture_output=True, text=True, env=env, cwd=tmp, timeout=1800)
        E_all = equation_sets()
        if r.returncode != 0 or "ENV-DRIVER-DONE" not in r.stdout:
            res.count("evaluations")
            # which generator raised is in the traceback
            res.fail(site="generate_code", clause="generation_succeeds_in_environment", cls=tag, detail=dict(env=tag, rc=r.returncode, stderr=r.stderr[-600:]), sub="env", case=case)
            return res
        for name, E in E_all.items():
            for k, o in enumerate(ENV_OPTS["est" if E["kind"] == "est" else "generic"]):
                res.count("evaluations")
                res.count("programs")
                res.nontrivial.add(hash((tag, name, k)))
                os.makedirs(os.path.join(tmp, "here", name), exist_ok=True)
                here = _generate(E, os.path.join(tmp, "here", name, str(k)), o)
                got = {}
                for root, _, files in os.walk(os.path.join(tmp, "child", name, str(k))):
                    for fn in sorted(files):
                        got[fn] = open(os.path.join(root, fn)).read()
                res.outcomes.add(hash(tuple(sorted(got))))
                if got != here:
                    diff = sorted(set(got) ^ set(here)) or [f for f in here if got.get(f) != here[f]]
                    res.fail(site=name, clause="output_independent_of_process_environment", cls=tag, detail=dict(env=tag, options=o, differing_files=diff[:6]), sub="env", case=case)
    finally:
        shutil.rmtree(tmp, ignore_errors=True)
        if shm:
            shutil.rmtree(shm, ignore_errors=True)
    res.samples.append(dict(env=tag))
    return res


class _Env:
    chunks = 1

    def cases(self, tier, seed):
        return [dict(sub="env", env=t, tier=tier) for t in ENVS]

    def run(self, case):
        return explore_env(case)


def explore_paths(case):
    """the destination directory spelled the ways a caller spells it: a call that succeeds must have written exactly the reference files
    into exactly that directory (a refusal - an exception - is not a violation of this property, except for the plain absolute string)"""
    import pathlib
    setname = case["set"]
    res = core.Result()
    E = equation_sets()[setname]
    tmp = os.path.realpath(tempfile.mkdtemp(prefix="c09p_", dir=os.environ.get("VERIF_SCRATCH") or None))
    cwd0 = os.getcwd()
    try:
        ref_files = _generate(E, os.path.join(tmp, "reference"), {})
        work = os.path.join(tmp, "work")
        os.makedirs(work)
        os.makedirs(os.path.join(work, "real_target"))
        os.symlink(os.path.join(work, "real_target"), os.path.join(work, "link"))
        stale_opts = dict(with_header=False, main=True) if E["kind"] != "est" else dict(with_header=False, main=True, with_mem=False)
        _generate(E, os.path.join(work, "stale"), stale_opts)
        open(os.path.join(work, "stale", "notes.txt"), "w").write("keep me")
        spellings = [("abs_str", os.path.join(work, "abs"), "abs"), ("pathlib_Path", pathlib.Path(work) / "pl", "pl"), ("trailing_separator", os.path.join(work, "ts") + os.sep, "ts"),
                     ("relative", "rel", "rel"), ("dot_relative", os.path.join(".", "dotrel"), "dotrel"), ("relative_with_parent", os.path.join("real_target", "..", "viaparent"), "viaparent"),
                     ("space_in_name", os.path.join(work, "with space"), "with space"), ("unicode_name", os.path.join(work, "\u00fcn\u00ef_\u76ee\u5f55"), "\u00fcn\u00ef_\u76ee\u5f55"),
                     ("symlinked_directory", os.path.join(work, "link"), "real_target"), ("existing_directory_with_stale_output", os.path.join(work, "stale"), "stale"),
                     ("dotted_name", os.path.join(work, "v1.2.out"), "v1.2.out"), ("name_ending_in_c", os.path.join(work, "gen.c"), "gen.c"), ("long_name", os.path.join(work, "d" * 120), "d" * 120)]
        os.chdir(work)
        for tag, dest, where in spellings:
            res.count("evaluations")
            res.count("programs")
            res.nontrivial.add(hash((setname, tag)))
            before = {d for d in os.listdir(work)}
            try:
                with contextlib.redirect_stdout(io.StringIO()):
                    if E["kind"] == "single":
                        (nm, fns), = E["sets"].items()
                        E["gen"](fns, filename=E["files"][nm], dest_dir=dest)
                    else:
                        E["gen"](E["sets"], dest)
            except Exception as ex:
                # "every entry point succeeds": all these spellings name a directory that can be written.  The one refusal the pinned
                # tree itself makes (the estimator generator concatenates strings and rejects a pathlib.Path) is not demanded.
                if E["kind"] == "est" and tag == "pathlib_Path":
                    res.count("refused")
                else:
                    res.fail(site=setname, clause="generation_succeeds_for_every_spelling_of_a_writable_directory", cls=tag, detail=dict(spelling=tag, destination=str(dest), error="%s: %s" % (type(ex).__name__, str(ex)[:200])), sub="paths", case=case)
                continue
            finally:
                os.chdir(work)
            got = {}
            target = os.path.join(work, where)
            if os.path.isdir(target):
                for fn in sorted(os.listdir(target)):
                    fp = os.path.join(target, fn)
                    if os.path.isfile(fp):
                        got[fn] = open(fp).read()
            extra_ok = {"notes.txt"} if tag == "existing_directory_with_stale_output" else set()
            stale_left = {}
            if tag == "existing_directory_with_stale_output":
                if got.get("notes.txt") != "keep me":
                    res.fail(site=setname, clause="foreign_file_in_destination_untouched", cls=tag, detail=dict(files=sorted(got)), sub="paths", case=case)
                # files of the earlier generation that the default generation does not produce may remain; those it produces must be current
                stale_left = {k: v for k, v in got.items() if k not in ref_files}
                got = {k: v for k, v in got.items() if k in ref_files}
            res.outcomes.add(hash((tag, tuple(sorted(got)))))
            if got != ref_files:
                diff = sorted(set(got) ^ set(ref_files)) or [f for f in ref_files if got.get(f) != ref_files[f]]
                res.fail(site=setname, clause="files_written_to_the_named_directory_equal_reference", cls=tag, detail=dict(spelling=tag, destination=str(dest), differing_or_missing=diff[:6], found=sorted(got)[:8]), sub="paths", case=case)
            stray = sorted({d for d in os.listdir(work)} - before - {where})
            if stray:
                res.fail(site=setname, clause="nothing_written_outside_the_named_directory", cls=tag, detail=dict(spelling=tag, destination=str(dest), stray=stray[:6]), sub="paths", case=case)
        # option VALUES of another type with the same truth value (numpy booleans from a comparison, 0 / 1): accepted by the generators,
        # the output is that of the plain booleans
        os.chdir(work)
        flip = dict(with_header=False, main=True)
        ref_flip = _generate(E, os.path.join(tmp, "reference_flip"), flip)
        for vtag, conv in (("numpy.bool_", lambda b: np.bool_(b)), ("numpy_comparison", lambda b: (np.int64(2) > 1) if b else (np.int64(0) > 1)), ("int_0_1", lambda b: int(b))):
            for otag, opts, want in (("default_values", {k: conv(v) for k, v in (EST_DEFAULT if E["kind"] == "est" else GENERIC_DEFAULT).items()}, ref_files), ("flipped", {k: conv(v) for k, v in flip.items()}, ref_flip)):
                res.count("evaluations")
                res.count("programs")
                res.nontrivial.add(hash((setname, "optval", vtag, otag)))
                try:
                    got = _generate(E, os.path.join(work, "optval_%s_%s" % (vtag, otag)), opts)
                except Exception as ex:
                    res.fail(site=setname, clause="generation_succeeds_under_accepted_option_values", cls=vtag, detail=dict(value_type=vtag, options=otag, error="%s: %s" % (type(ex).__name__, str(ex)[:200])), sub="paths", case=case)
                    continue
                if got != want:
                    diff = sorted(set(got) ^ set(want)) or [f for f in want if got.get(f) != want[f]]
                    res.fail(site=setname, clause="option_value_of_equal_truth_gives_equal_output", cls=vtag, detail=dict(value_type=vtag, options=otag, differing_files=diff[:6]), sub="paths", case=case)
    finally:
        os.chdir(cwd0)
        shutil.rmtree(tmp, ignore_errors=True)
    res.samples.append(dict(paths_set=setname, spellings=13))
    return res


def explore_gen_threads(case):
    """two generators write two equation sets into two directories from two threads, every interleaving of the generators' Python statements
    with at most one preemption (thorough: two): each directory holds what the generator writes alone (the working directory, a module-level
    option table or file name would be shared)"""
    from .. import threads
    res = core.Result()
    a, b = case["pair"]
    Es = equation_sets()
    tmp = os.path.realpath(tempfile.mkdtemp(prefix="c09th_", dir=os.environ.get("VERIF_SCRATCH") or None))
    cwd0 = os.getcwd()
    quiet = contextlib.redirect_stdout(io.StringIO())
    quiet.__enter__()
    try:
        os.chdir(tmp)
        ref_a = _generate(Es[a], os.path.join(tmp, "ref_a"), {})
        ref_b = _generate(Es[b], os.path.join(tmp, "ref_b"), dict(with_header=False))
        counter = [0]

        def gen(E, opts, tag, relative):
            def call():
                counter[0] += 1
                d = "%s_%d" % (tag, counter[0])
                dest = d if relative else os.path.join(tmp, d)
                if E["kind"] == "single":
                    (nm, fns), = E["sets"].items()
                    E["gen"](fns, filename=E["files"][nm], dest_dir=dest, **opts)
                else:
                    E["gen"](E["sets"], dest, **opts)
                out = {}
                for fn in sorted(os.listdir(os.path.join(tmp, d))):
                    out[fn] = open(os.path.join(tmp, d, fn)).read()
                return out
            return call
        for relative in (False, True):
            fa, fb = gen(Es[a], {}, "a", relative), gen(Es[b], dict(with_header=False), "b", relative)
            for choices, results, npts, capped in threads.explore([fa, fb], ("cyecca/codegen.py", "cyecca/models/", "cyecca/estimate/attitude/algorithms/__init__.py"),
                                                                  1 if case["tier"] == "quick" else 2, max_runs=(400 if case["tier"] == "quick" else 1500)):
                if capped:
                    res.counters["thread_schedules_capped"] += 1
                    break
                res.count("evaluations")
                res.count("schedules")
                res.count("programs", 2)
                res.nontrivial.add(hash((a, b, relative, tuple(choices))))
                res.counters["max_scheduling_points"] = max(res.counters["max_scheduling_points"], npts)
                bad = [k for k, (r_, want) in enumerate(zip(results, (ref_a, ref_b))) if r_ is None or r_[0] != "ok" or r_[1] != want]
                if bad:
                    k = bad[0]
                    res.fail(site=(a, b)[k], clause="generation_independent_of_a_concurrent_generation", cls="relative" if relative else "absolute",
                             detail=dict(pair=[a, b], thread=k, relative_destination=relative, schedule=choices, outcome=(results[k][1] if results[k] and results[k][0] != "ok" else "files differ from the generation alone")),
                             sub="threads", case=case)
                    break
            for d in os.listdir(tmp):
                if d[:2] in ("a_", "b_"):
                    shutil.rmtree(os.path.join(tmp, d), ignore_errors=True)
    finally:
        quiet.__exit__(None, None, None)
        os.chdir(cwd0)
        shutil.rmtree(tmp, ignore_errors=True)
    res.samples.append(dict(thread_pair=[a, b]))
    return res


class _GenTh:
    chunks = 1

    def cases(self, tier, seed):
        return [dict(sub="threads", pair=list(p), tier=tier) for p in (("rdd2", "bezier"), ("estimator", "mr_ref_traj"), ("rdd2_loglinear", "estimator_generic"), ("rdd2", "rdd2"))]

    def run(self, case):
        return explore_gen_threads(case)


class _Paths:
    chunks = 1

    def cases(self, tier, seed):
        return [dict(sub="paths", set=n, tier=tier) for n in ("rdd2", "estimator", "estimator_generic", "mr_ref_traj", "bezier", "rdd2_loglinear")]

    def run(self, case):
        return explore_paths(case)


def json_key(w):
    return tuple(tuple(sorted(o.items())) for o in w)


class _Seq:
    chunks = 1

    def cases(self, tier, seed):
        return [dict(sub="seq", set=n, tier=tier) for n in equation_sets()]

    def run(self, case):
        return explore_sequence(case)


class _Sub:
    chunks = 1

    def cases(self, tier, seed):
        out = []
        E = equation_sets()
        for name, e in E.items():
            done = set()
            for o in option_sets(e["kind"], tier):
                out.append(dict(set=name, tier=tier, seed=seed, opts=o, compile=True))
                done.add(tuple(sorted(o.items())))
            if tier == "thorough":
                for o in all_option_sets(e["kind"]):
                    if tuple(sorted(o.items())) not in done:
                        out.append(dict(set=name, tier=tier, seed=seed, opts=o, compile=False))
        return out

    def run(self, case):
        return explore(case)


SUBCHECKS = {"together": _Tog(), "env": _Env(), "paths": _Paths(), "threads": _GenTh(), "gen": _Sub(), "seq": _Seq(), "script": _Script()}
REPLAY = {"together": lambda c: explore_together(c).fails, "gen": lambda c: explore(c).fails, "seq": lambda c: explore_sequence(c).fails, "script": lambda c: explore_script(c).fails, "env": lambda c: explore_env(c).fails, "paths": lambda c: explore_paths(c).fails, "threads": lambda c: explore_gen_threads(c).fails}
