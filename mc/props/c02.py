"""C02 - the group exponential is the matrix exponential of the algebra element.

explorer : product over the algebra alphabet (incl. switch points harvested from the compiled exp by
           signature-flip bisection) + BFS over one-parameter words  X -> X*exp(s x).
oracle   : alpha(exp x) = expm(wedge x)  (scipy expm of the library's algebra to_Matrix; the algebra basis
           itself is C04's business), exp(0)=e, exp(-x)exp(x)=I, exp((s+t)x)=exp(sx)exp(tx).
"""
from __future__ import annotations

import math
from collections import deque

import numpy as np

from .. import alpha, core, gutil, harvest, lib, numapi, ref, sxvm
from ..gutil import close, key_of, maxabs

LEVEL = "model_checking"
RULE = ("per (algebra, group) configuration: every algebra vector of the designed alphabet (rotation angle 0, denormal, "
        "1e-200 ... pi ... 6.2 rad on 7 axes, translations incl. (-40,25,7)) plus both adjacent doubles of every branch "
        "boundary of the compiled exp found by signature-flip bisection; one-parameter words X*exp(s x), s in {1/4,1,-1/2,2}, "
        "BFS with de-duplication on raw parameters, reference state expm((sum s) wedge x). non-trivial = rotation part or "
        "translation part non-zero; distinct by raw bytes")
ASSUMPTIONS = ["scipy.linalg.expm (double, ~1e-15 relative) is the reference matrix exponential",
               "the library's algebra to_Matrix is taken as the wedge map here (its bracket/basis is checked in C04)",
               "angles between alphabet members inside one branch cell are not covered"]
S_MENU = [0.25, 1.0, -0.5, 2.0]


def bounds(tier):
    return dict(word_depth=3 if tier == "thorough" else 2, s_menu=S_MENU)


def _rot_slots(AL):
    return [i for i, s in enumerate(AL) if s[0] == "rotvec"]


def harvest_exp(B, AL, seed, res):
    """both adjacent doubles of every signature flip of exp along rays theta*axis"""
    f = B.get("exp")
    prog = sxvm.compile_fn(f)
    rs = _rot_slots(AL)
    extra = []
    if not rs or prog.n_cmp == 0:
        return extra, prog
    base = []
    for s in AL:
        if s[0] == "vec":
            base.append(alpha.generic_vec(seed, s[1]))
        elif s[0] == "angle":
            base.append(np.array([0.3]))
        else:
            base.append(np.zeros(3))
    for si in rs:
        for ax in (np.array([1.0, 0, 0]), alpha.generic_axis(seed)):
            def mk(t, si=si, ax=ax):
                parts = [b.copy() for b in base]
                parts[si] = ax * t
                return [list(np.concatenate(parts))]
            ts = sorted(set(alpha.ANGLES_FULL + alpha.ANGLES_BEYOND))
            for lo, hi in harvest.walk(prog, mk, ts):
                res.add_set("harvested_boundaries", "%s: theta=%r|%r" % (B.name, lo, hi))
                for t in (lo, hi):
                    for zero_vec in (False, True):
                        parts = [(np.zeros_like(b) if (zero_vec and AL[k][0] != "rotvec") else b.copy()) for k, b in enumerate(base)]
                        parts[si] = ax * t
                        extra.append(dict(tag="harvest(theta=%r)" % t, p=np.concatenate(parts), refs=None))
    return extra, prog


def explore_config(case):
    name, tier, seed = case["config"], case["tier"], case["seed"]
    res = core.Result()
    G = lib.resolve(name)
    B = lib.built(name, G)
    L = lib.layout(G)
    AL = lib.alg_layout(G)
    is_dp = "*" in name
    for op in ("exp", "wedge", "to_Matrix", "product", "identity"):
        B.get(op)
        res.count("evaluations")
        if B.status[op].startswith("error"):
            res.fail(site="%s.%s" % (name, op), clause="operation_raises", cls=B.status[op].split(":")[1],
                     detail=dict(status=B.status[op]), sub="config", case=case)
    if any(B.status[o] != "ok" for o in ("exp", "wedge", "to_Matrix", "product", "identity")):
        return res
    n = B.mshape[0]
    I = np.eye(n)
    elems = alpha.elements(AL, seed, small=is_dp)
    if is_dp:
        elems = alpha.reduced(elems, 120 if tier == "thorough" else 60)
    prog = None
    if not is_dp:
        extra, prog = harvest_exp(B, AL, seed, res)
        elems = elems + extra
        from .. import harvest as _hv
        elems = elems + [dict(tag="harvest(exp)", p=p_, refs=None) for p_ in _hv.lie_members(B, "exp", seed, tier)]
    rs = _rot_slots(AL)
    gl = [s for s in L]
    e_id = B.vec("identity")

    def rot_excluded(x):
        """Euler targets: exp results inside the gimbal band are outside the quantifier (decided by the reference)"""
        for k, (s, xs) in enumerate(zip(AL, gutil.slots_of(AL, x))):
            if s[0] == "rotvec" and gl[k][1] == "Euler" and gutil.euler_in_band(ref.rot(xs)):
                return True
        return False

    def max_angle(x):
        return max([float(np.linalg.norm(xs)) for s, xs in zip(AL, gutil.slots_of(AL, x)) if s[0] == "rotvec"] + [0.0])

    sigs = set()
    for e in elems:
        x = e["p"]
        res.count("evaluations")
        if rot_excluded(x):
            res.count("excluded_by_reference")
            continue
        W = B.call("wedge", x)
        Mref = ref.expm(W)
        X = B.vec("exp", x)
        MX = B.call("to_Matrix", X)
        th = max_angle(x)
        if maxabs(x) > 0:
            res.nontrivial.add(hash(x.tobytes()))
        res.outcomes.add(hash(np.round(Mref, 9).tobytes()))
        cls = "theta=0" if th == 0 else ("theta<0.1" if th < 0.1 else ("theta<=pi" if th <= math.pi else "theta>pi"))
        ok, er = close(MX, Mref)
        if X.shape != (B.n,) or not ok:
            res.fail(site=name + ".exp", clause="exp_is_expm", cls=cls,
                     detail=dict(x=x, tag=e["tag"], exp=X, err=er), sub="config", case=case)
            continue
        # exp(-x) is the inverse (for Euler targets -x itself must be outside the gimbal band: decided by the reference)
        if rot_excluded(-x):
            res.count("excluded_by_reference")
            continue
        Xm = B.vec("exp", -x)
        ok, er = close(B.call("to_Matrix", Xm) @ MX, I, scale=1 + maxabs(MX) ** 2)
        if not ok:
            res.fail(site=name + ".exp", clause="exp_neg_is_inverse", cls=cls,
                     detail=dict(x=x, tag=e["tag"], err=er), sub="config", case=case)
        if prog is not None:
            sigs.add(sxvm.run(prog, [list(x)], sxvm.FLOAT)[1])
    # exp(0) = e
    X0 = B.vec("exp", np.zeros(B.na))
    res.count("evaluations")
    ok, er = close(B.call("to_Matrix", X0), I)
    if not ok:
        res.fail(site=name + ".exp", clause="exp_zero_is_identity", cls="-", detail=dict(exp0=X0, err=er),
                 sub="config", case=case)
    if prog is not None:
        res.add_set("cells_entered", "%s:%d" % (name, len(sigs)))
        # vacuity guard: every comparison of exp seen both ways?
        both = 0
        for k in range(prog.n_cmp):
            vals = set(s[k] for s in sigs)
            both += len(vals) == 2
        res.add_set("comparisons_seen_both_ways", "%s:%d/%d" % (name, both, prog.n_cmp))

    # ---- direct numeric use of the API, object reuse, argument mutation (see numapi) -------------------
    selx = [e["p"] for e in alpha.reduced([e for e in elems if not rot_excluded(e["p"]) and not rot_excluded(-e["p"])], 24 if not is_dp else 10)]
    numapi.check_group(res, B, [], selx, case, "config", ("exp", "wedge"))
    numapi.check_forms(res, B, [], selx, case, "config", ("exp", "wedge"))
    numapi.check_composed(res, B, [], selx[:14], case, "config", firsts=["neg", "exp"], seconds=["exp", "wedge", "to_Matrix", "inverse"])
    numapi.check_aliasing(res, B, [], selx[:14], case, "config", ("exp", "wedge", "exp_to_Matrix"))
    numapi.check_symbol_names(res, B, [], selx[:6], case, "config", ("exp", "wedge"))
    numapi.check_history(res, B, [], selx[:8], case, "config", ["exp", "wedge"], ["ad", "wedge", "exp"])
    numapi.check_threads(res, B, [], numapi.generic_pair(selx), case, "config", ("exp",))
    if is_dp:
        gutil.check_product_by_position(res, B, [], selx, case, "config", ("exp", "wedge"))
    numapi.check_spellings(res, B, [], selx[:8], case, "config")
    numapi.check_algebra_arithmetic(res, B, selx, case, "config")
    # ---- one-parameter words ------------------------------------------------------------------
    depth = 3 if tier == "thorough" else 2
    base = [e for e in elems if 0 < max_angle(e["p"]) <= math.pi or (not rs and maxabs(e["p"]) > 0)]
    base = alpha.reduced(base, (40 if tier == "thorough" else 16) if not is_dp else 6)
    for e in base:
        x = e["p"]
        W = B.call("wedge", x)
        th = max_angle(x)
        start = (np.array(e_id), 0.0, 0, ())
        seen = {key_of(e_id)}
        fr = deque([start])
        res.count("states")
        while fr:
            p, tot, d, word = fr.popleft()
            res.counters["max_depth"] = max(res.counters["max_depth"], d)
            if d >= depth:
                continue
            for s in S_MENU:
                tot2 = tot + s
                if abs(tot2) * th >= 2 * math.pi - 0.1 or abs(s) * th >= 2 * math.pi - 0.1 or rot_excluded(tot2 * x) or rot_excluded(s * x):
                    res.count("excluded_by_reference")
                    continue
                g = B.vec("exp", s * x)
                if gutil.product_excluded(L, p, g):
                    res.count("excluded_by_reference")
                    continue
                q = B.vec("product", p, g)
                if gutil.elem_excluded(L, q):
                    res.count("excluded_by_reference")
                    continue
                res.count("transitions")
                res.count("evaluations")
                res.count("traces_validated_against_impl")
                Mref = ref.expm(tot2 * W)
                ok, er = close(B.call("to_Matrix", q), Mref, scale=(1 + maxabs(Mref)) * (1 + maxabs(ref.expm(tot * W))) * (1 + maxabs(ref.expm(s * W))))
                if not ok:
                    res.fail(site=name + ".exp", clause="one_parameter_subgroup", cls="theta<=pi",
                             detail=dict(x=x, word=list(word) + [s], state=p, result=q, err=er), sub="config", case=case)
                    continue
                k = key_of(q)
                if k not in seen:
                    seen.add(k)
                    res.count("states")
                    fr.append((q, tot2, d + 1, word + (s,)))
    res.samples.append(dict(config=name, n_algebra_elements=len(elems), example=dict(tag=elems[len(elems) // 2]["tag"], x=elems[len(elems) // 2]["p"])))
    return res


class _Sub:
    chunks = 1

    def cases(self, tier, seed):
        names = list(gutil.BASE) + gutil.product_configs(tier)
        return [dict(config=n, tier=tier, seed=seed) for n in names]

    def run(self, case):
        return explore_config(case)


SUBCHECKS = {"config": _Sub()}
REPLAY = {"config": lambda case: explore_config(case).fails}

# results must not depend on which library calls were made earlier in the process (see mc/order.py)
from .. import order as _order  # noqa: E402

_ORDER = _order.OrderSub("C02", "lie", lambda k: k.split('/')[-1] in ('exp',))
SUBCHECKS["order"] = _ORDER
REPLAY["order"] = _ORDER.replay
