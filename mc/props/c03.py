"""C03 - log inverts exp and returns the principal, representation independent rotation.

explorer : words.  States are group elements reached by API words over {exp(x), X*Y, Y*X, X^-1} (this is what
           produces negative-scalar quaternions, shadow MRPs and DCMs with round-off the way users get them)
           plus the designed representatives; every state is judged.
oracle   : alpha(exp(log X)) = alpha(X);  log(exp x) = x for angle < pi-0.01;  for canonical inputs the rotation part
           of log X equals the reference principal rotation vector (hence |.| <= pi and independent of the
           representation and of the quaternion sign).
"""
from __future__ import annotations

import math
from collections import deque

import numpy as np

from .. import alpha, core, gutil, lib, numapi, ref
from ..gutil import close, key_of, maxabs, rep_tag

LEVEL = "model_checking"
RULE = ("per group configuration: designed representatives (q and -q, MRP inside / shadow / |r|=1, exact DCM, Euler) x "
        "translations, exp of the algebra alphabet, and all states reached by BFS over words {X*g, g*X, X^-1} with g = exp(x_i); "
        "every state X with reference rotation angle <= pi-0.01 (SE2: |theta|<2pi-0.1) is judged. non-trivial = reference "
        "rotation angle > 1e-6 or non-zero translation; distinct by 12-digit raw parameters")
ASSUMPTIONS = ["reference principal log computed from the textbook rotation matrix of the raw parameters (numpy double)",
               "rotations within 0.01 rad of the pi singularity are outside the quantifier",
               "words longer than the depth and values between alphabet members are not covered"]
PI_MARGIN = 0.01


def bounds(tier):
    return dict(depth=4 if tier == "thorough" else 3, pi_margin=PI_MARGIN)


def judge(res, name, B, L, AL, X, how, case, canonical_required=True):
    """all C03 clauses on one state X (raw parameters). returns False if excluded"""
    sl = gutil.slots_of(L, X)
    angles, Rs, canon = [], [], True
    for s, a in zip(L, sl):
        if s[0] == "rot":
            R = gutil.ref_R_of_slot(s[1], a)
            if not np.all(np.isfinite(R)):
                return False
            Rs.append(R)
            angles.append(ref.rot_angle(R))
            if s[1] == "Mrp" and float(a @ a) > 1.0 + 1e-12:
                canon = False
            if s[1] == "Quat" and abs(float(a @ a) - 1.0) > 1e-9:
                return False
            if s[1] == "Dcm" and not ref.is_rotation(R, 1e-9):
                return False
        elif s[0] == "angle":
            if abs(float(a[0])) >= 2 * math.pi - 0.1:
                return False
    if any(th > math.pi - PI_MARGIN for th in angles):
        res.count("excluded_by_reference")
        return False
    res.count("evaluations")
    x = B.vec("log", X)
    MX = B.call("to_Matrix", X)
    tags = []
    for s, a in zip(L, sl):
        if s[0] == "rot":
            if s[1] == "Quat":
                tags.append("q-" if a[0] < 0 else "q+")
            elif s[1] == "Mrp":
                tags.append("r_shadow" if float(a @ a) > 1 else "r")
            else:
                tags.append(s[1])
    cls = ",".join(tags) if tags else "-"
    if maxabs(MX - np.eye(MX.shape[0])) > 1e-6:
        res.nontrivial.add(hash(np.asarray(X).tobytes()))
    if x.shape != (B.na,) or not np.all(np.isfinite(x)):
        res.fail(site=name + ".log", clause="log_finite", cls=cls, detail=dict(X=X, how=how, log=x), sub="config", case=case)
        return True
    res.outcomes.add(hash(np.round(x, 8).tobytes()))
    # round trip exp(log X) = X as matrices
    Xb = B.vec("exp", x)
    ok, er = close(B.call("to_Matrix", Xb), MX, scale=(1 + maxabs(MX)) * 10)
    if not ok:
        res.fail(site=name + ".log", clause="exp_log_roundtrip", cls=cls, detail=dict(X=X, how=how, log=x, back=Xb, err=er),
                 sub="config", case=case)
    # principal value and representation independence through the reference logm
    k = 0
    for s, xs in zip(AL, gutil.slots_of(AL, x)):
        if s[0] != "rotvec":
            continue
        R, th = Rs[k], angles[k]
        k += 1
        if not canon and canonical_required:
            continue
        want = ref.logm_rot(R)
        n = float(np.linalg.norm(xs))
        amp = 1.0 / max(math.sin(max(th, 1e-3)), math.pi - th, 1e-2) if th > 1 else 1.0
        if n > math.pi + 1e-9:
            res.fail(site=name + ".log", clause="principal_angle_le_pi", cls=cls,
                     detail=dict(X=X, how=how, log_rot=xs, angle=n, reference=want), sub="config", case=case)
        elif maxabs(xs - want) > 1e-9 * (1 + amp):
            res.fail(site=name + ".log", clause="log_equals_reference_principal_log", cls=cls,
                     detail=dict(X=X, how=how, log_rot=xs, reference=want, err=maxabs(xs - want)), sub="config", case=case)
    return True


def explore_config(case):
    name, tier, seed = case["config"], case["tier"], case["seed"]
    res = core.Result()
    G = lib.resolve(name)
    B = lib.built(name, G)
    L, AL = lib.layout(G), lib.alg_layout(G)
    is_dp = "*" in name
    need = ("exp", "log", "to_Matrix", "product", "inverse", "identity")
    for op in need:
        B.get(op)
        res.count("evaluations")
        if B.status[op].startswith("error"):
            res.fail(site="%s.%s" % (name, op), clause="operation_raises", cls=B.status[op].split(":")[1],
                     detail=dict(status=B.status[op]), sub="config", case=case)
    if any(B.status[o] != "ok" for o in need):
        return res
    # ---- designed representatives ---------------------------------------------------------------
    elems = alpha.elements(L, seed, small=is_dp)
    if is_dp:
        elems = alpha.reduced(elems, 80 if tier == "thorough" else 40)
    if not is_dp:
        from .. import harvest as _hv
        elems = elems + [dict(tag="harvest(log)", p=p_, refs=None) for p_ in _hv.lie_members(B, "log", seed, tier) if gutil.elem_excluded(L, p_) is None]
    for e in elems:
        judge(res, name, B, L, AL, e["p"], "designed:" + e["tag"], case)
    # ---- direct numeric use of the API, object reuse, argument mutation (see numapi) -------------------
    selg = []
    for e in elems:
        sl = gutil.slots_of(L, e["p"])
        angs = [ref.rot_angle(gutil.ref_R_of_slot(s_[1], a_)) for s_, a_ in zip(L, sl) if s_[0] == "rot"]
        if all(t <= math.pi - 0.05 for t in angs) and gutil.elem_excluded(L, e["p"]) is None:
            selg.append(e["p"])
    numapi.check_group(res, B, alpha.reduced(selg, 24 if not is_dp else 10), [], case, "config", ("log",), tol=1e-9)
    numapi.check_forms(res, B, alpha.reduced(selg, 24 if not is_dp else 10), [], case, "config", ("log",), tol=1e-9)
    numapi.check_composed(res, B, alpha.reduced(selg, 12 if not is_dp else 8), [], case, "config", firsts=["inverse", "square", "log"], seconds=["log", "exp", "param_a"])
    numapi.check_aliasing(res, B, alpha.reduced(selg, 12 if not is_dp else 8), [], case, "config", ("log",), tol=1e-9)
    numapi.check_symbol_names(res, B, alpha.reduced(selg, 6), [], case, "config", ("log",), tol=1e-9)
    numapi.check_history(res, B, alpha.reduced(selg, 8), [], case, "config", ["log"], ["to_Matrix", "inverse", "Ad"], tol=1e-9)
    numapi.check_threads(res, B, numapi.generic_pair(selg), [], case, "config", ("log",))
    if is_dp:
        gutil.check_product_by_position(res, B, alpha.reduced(selg, 10), [], case, "config", ("log",))
    numapi.check_spellings(res, B, alpha.reduced(selg, 8), [], case, "config", tol=1e-9)
    # ---- log(exp x) = x ---------------------------------------------------------------------------
    xs = alpha.elements(AL, seed, small=is_dp)
    if is_dp:
        xs = alpha.reduced(xs, 80 if tier == "thorough" else 40)
    else:
        from .. import harvest as _hv
        xs = xs + [dict(tag="harvest(exp)", p=p_, refs=None) for p_ in _hv.lie_members(B, "exp", seed, tier)]
    for e in xs:
        x = e["p"]
        ths = [float(np.linalg.norm(v)) for s, v in zip(AL, gutil.slots_of(AL, x)) if s[0] == "rotvec"]
        th2 = [abs(float(v[0])) for s, v in zip(AL, gutil.slots_of(AL, x)) if s[0] == "angle"]
        if any(t > math.pi - PI_MARGIN for t in ths) or any(t >= 2 * math.pi - 0.1 for t in th2):
            res.count("excluded_by_reference")
            continue
        skip = False
        for k, (s, v) in enumerate(zip(AL, gutil.slots_of(AL, x))):
            if s[0] == "rotvec" and L[k][1] == "Euler" and gutil.euler_in_band(ref.rot(v)):
                skip = True
        if skip:
            res.count("excluded_by_reference")
            continue
        res.count("evaluations")
        X = B.vec("exp", x)
        xb = B.vec("log", X)
        th = max(ths + [0.0])
        amp = 1.0 / max(math.pi - th, 1e-2) if th > 1 else 1.0
        if not np.all(np.isfinite(xb)) or maxabs(xb - x) > 1e-9 * (1 + maxabs(x)) * (1 + amp):
            res.fail(site=name + ".log", clause="log_exp_roundtrip", cls="theta<pi",
                     detail=dict(x=x, tag=e["tag"], exp=X, back=xb, err=maxabs(xb - x)), sub="config", case=case)
        judge(res, name, B, L, AL, X, "exp:" + e["tag"], case)
    # ---- words -------------------------------------------------------------------------------------
    depth = (4 if tier == "thorough" else 3) if not is_dp else 2
    gens_x = [e["p"] for e in xs if 0.02 < max([float(np.linalg.norm(v)) for s, v in zip(AL, gutil.slots_of(AL, e["p"])) if s[0] in ("rotvec", "angle")] + [0.0]) < 2.6]
    if not gens_x:
        gens_x = [e["p"] for e in xs if maxabs(e["p"]) > 0]
    gens_x = alpha.reduced(gens_x, 5 if not is_dp else 3)
    gens = [B.vec("exp", x) for x in gens_x]
    # non-canonical designed representatives as additional generators (q-, shadow)
    nonc = [e["p"] for e in elems if ("q-" in e["tag"] or "shadow" in e["tag"]) and 0.05 < maxabs(B.call("to_Matrix", e["p"]) - np.eye(B.mshape[0])) < 8]
    gens += alpha.reduced(nonc, 2)
    e_id = B.vec("identity")
    seen = {key_of(e_id)}
    fr = deque([(e_id, 0, ())])
    res.count("states")
    moves = [("R", i) for i in range(len(gens))] + [("L", i) for i in range(len(gens))] + [("I", -1)]
    while fr:
        p, d, word = fr.popleft()
        res.counters["max_depth"] = max(res.counters["max_depth"], d)
        if d >= depth:
            continue
        for op, gi in moves:
            if op == "I":
                if gutil.inverse_excluded(L, p):
                    continue
                q = B.vec("inverse", p)
            else:
                a, b = (p, gens[gi]) if op == "R" else (gens[gi], p)
                if gutil.product_excluded(L, a, b):
                    res.count("excluded_by_reference")
                    continue
                q = B.vec("product", a, b)
            if gutil.elem_excluded(L, q):
                res.count("excluded_by_reference")
                continue
            res.count("transitions")
            k = key_of(q)
            if k in seen:
                continue
            seen.add(k)
            res.count("states")
            w = word + ((op, gi),)
            if judge(res, name, B, L, AL, q, dict(word=w, generators_x=gens_x), case):
                res.count("traces_validated_against_impl")
            fr.append((q, d + 1, w))
    res.samples.append(dict(config=name, designed=len(elems), algebra=len(xs), generators=[g for g in gens_x][:3]))
    return res


class _Sub:
    chunks = 1

    def cases(self, tier, seed):
        names = list(gutil.BASE) + gutil.product_configs(tier)
        return [dict(config=n, tier=tier, seed=seed) for n in names]

    def run(self, case):
        return explore_config(case)


SUBCHECKS = {"config": _Sub()}
REPLAY = {"config": lambda case: explore_config(case).fails}

# results must not depend on which library calls were made earlier in the process (see mc/order.py)
from .. import order as _order  # noqa: E402

_ORDER = _order.OrderSub("C03", "lie", lambda k: k.split('/')[-1] in ('log',))
SUBCHECKS["order"] = _ORDER
REPLAY["order"] = _ORDER.replay


# Euler groups of other conventions than the exported 3-2-1 body-fixed one (see mc/eulervar.py)
class _EulerVar:
    chunks = 1

    def cases(self, tier, seed):
        return [dict(sub="eulerconv", tier=tier, seed=seed)]

    def run(self, case):
        from .. import eulervar
        res = core.Result()
        eulervar.explore(res, case, "eulerconv", {"log"}, core)
        res.outcomes.add(int(res.counters.get("evaluations", 0)))
        return res


SUBCHECKS["eulerconv"] = _EulerVar()
REPLAY["eulerconv"] = lambda c: _EulerVar().run(c).fails
