"""C14 - attitude set-points are proper rotations aligned with demanded thrust and heading.

explorer : product over controller / flatness input lattices, including every degenerate cell (zero force, force of norm on both
           sides of the 1e-3 guard, force parallel / anti-parallel to the heading vector exactly and on both sides of the guards,
           free fall for the flatness maps).  Guard boundaries are harvested from the compiled functions by signature-flip bisection.
oracle   : unit quaternion / orthonormal right-handed matrix in EVERY cell; outside the degenerate cells: R z = F/|F|, (R y).x_C = 0,
           returned thrust = |F| with F recomputed from the documented law and the module's constants; flatness: p, q equal the rotation
           rate of the thrust axis, M = J w' + w x J w for the returned w, w'; f_ref == mr_ref_traj at the module constants; helpers
           equal Rz Ry Rx.
"""
from __future__ import annotations

import contextlib
import io
import itertools
import math

import casadi as ca
import numpy as np

from .. import alpha, core, harvest, lib, ref, sxvm
from ..gutil import maxabs

LEVEL = "exploration"
RULE = ("position_control / se23_position_control: errors {0,(0.1,0,0),(1,-2,3),(-40,25,7)} x velocity errors x feed-forward x 6 headings (camera quaternion with roll/pitch) "
        "x trim {0, m g} x z_i {0,+-1}, + degenerate family: demanded force s*x_C for s in {0,+-1,+-1e-4, both neighbours of the harvested norm guard}, off-axis angles on both "
        "sides of the harvested |yB| guard; flatness maps: accelerations incl. free fall and thrust parallel to heading x jerk x snap x heading; helpers on an Euler lattice; cameras harvested along attitude rays (pitch -90..90 deg with roll, roll and pitch growing together from 0, yaw and roll through a whole turn) and thrust directions harvested along 4 great circles. "
        "non-trivial = non-zero demanded force; distinct by raw input bytes")
ASSUMPTIONS = ["documented law: F = sat_{0.3 m g}(-kp_pos e_p - kp_vel e_v + m a_ff) + (trim + ki_z z_i) z_W with the module constants; yaw of the camera quaternion by the textbook map",
               "the returned yaw rate and angular acceleration of the flatness maps are not judged (the property promises roll/pitch rates and Euler's equation only)"]

_M = {}


def mods():
    if not _M:
        with contextlib.redirect_stdout(io.StringIO()):
            from cyecca.models import bezier, mr_ref_traj, rdd2, rdd2_loglinear
        _M.update(rdd2=rdd2, ll=rdd2_loglinear, bezier=bezier, mr=mr_ref_traj)
        _M["position_control"] = rdd2.derive_position_control()["position_control"]
        _M["se23_position_control"] = rdd2_loglinear.derive_outerloop_control()["se23_position_control"]
        _M["input_auto_level"] = rdd2.derive_input_auto_level()["input_auto_level"]
        _M["f_ref"] = bezier.derive_ref()["f_ref"]
        _M["mr_ref_traj"] = mr_ref_traj.derive_mr_ref_traj()["mr_ref_traj"]
        _M["eulerB321_to_quat"] = bezier.derive_eulerB321_to_quat()["eulerB321_to_quat"]
    return _M


def bounds(tier):
    return dict()


def arr(x):
    return np.array(x, dtype=float).reshape(-1)


def yaw_of_quat(q):
    """3-2-1 yaw of the camera quaternion; at the pitch poles (camera straight down / up) the documented convention of the 3-2-1
    decomposition applies: roll = 0 and the yaw read from the third column"""
    R = ref.R_from_quat(q)
    if abs(R[2, 0]) > math.cos(1e-3):
        return math.atan2(R[1, 2], R[0, 2]) if R[2, 0] < 0 else math.atan2(-R[1, 2], -R[0, 2])
    return math.atan2(R[1, 0], R[0, 0])


def cam_quats(seed):
    out = []
    for yt in (-math.pi + 0.01, -math.pi / 2, 0.0, 0.7, math.pi / 2, math.pi):
        for pitch, roll in ((0.0, 0.0), (0.3, -0.2)):
            R = ref.R_from_euler321([yt, pitch, roll])
            q = ref.quat_of(ref.logm_rot(R))
            out.append((yt, q))
    # a camera looking straight down / up (pitch exactly +-90 deg, no roll): its 3-2-1 yaw is still the commanded heading
    for yt in (0.0, 0.7, -2.0):
        for sgn in (1.0, -1.0):
            hp = sgn * math.pi / 4
            qz = np.array([math.cos(yt / 2), 0, 0, math.sin(yt / 2)])
            qy = np.array([math.cos(hp), 0, math.sin(hp), 0])
            q = np.array([qz[0] * qy[0] - qz[3] * qy[3] * 0 - 0, 0, 0, 0], dtype=float)  # placeholder, replaced below
            w1, x1, y1, z1 = qz
            w2, x2, y2, z2 = qy
            q = np.array([w1 * w2 - x1 * x2 - y1 * y2 - z1 * z2, w1 * x2 + x1 * w2 + y1 * z2 - z1 * y2, w1 * y2 - x1 * z2 + y1 * w2 + z1 * x2, w1 * z2 + x1 * y2 - y1 * x2 + z1 * w2])
            out.append((yt, q))
    return out


def quat_of_euler(yaw, pitch, roll):
    return ref.quat_of(ref.logm_rot(ref.R_from_euler321([yaw, pitch, roll])))


def harvested_cams(res, prog, flat_of_q, tier):
    """camera attitudes next to every outcome change of the compiled controller along rays through attitude space: pitch from straight
    down to straight up with roll, small roll AND pitch growing together, yaw and roll through a whole turn.  Cameras within 1e-7 rad
    of the edge of the 3-2-1 gimbal band are left out (the reference and the library may sit on different sides of that edge)."""
    rays = []
    hp = math.pi / 2
    for yaw, roll in ((0.7, 0.3), (-2.0, -1.2), (0.0, 0.05)):
        rays.append(("pitch(yaw=%g,roll=%g)" % (yaw, roll), lambda t, yaw=yaw, roll=roll: quat_of_euler(yaw, t, roll), [-hp + 1.5e-3] + [k * hp / 12 for k in range(-11, 12)] + [hp - 1.5e-3]))
    tilts = [0.0, 1e-6, 1e-4, 1e-3, 1e-2, 0.03, 0.06, 0.1, 0.2, 0.4, 0.6]
    for yaw, kr, kp_ in ((0.7, 1.0, 1.0), (-2.0, 1.0, -0.5), (0.0, -0.3, 1.0)):
        rays.append(("tilt(yaw=%g,roll=%gt,pitch=%gt)" % (yaw, kr, kp_), lambda t, yaw=yaw, kr=kr, kp_=kp_: quat_of_euler(yaw, kp_ * t, kr * t), tilts))
    turn = [k * math.pi / 8 for k in range(-8, 9)]
    rays.append(("yaw(pitch=0.3,roll=-0.2)", lambda t: quat_of_euler(t, 0.3, -0.2), turn))
    rays.append(("roll(yaw=0.7,pitch=0.3)", lambda t: quat_of_euler(0.7, 0.3, t), turn))
    out = []
    for tag, mk, ts in rays:
        mem = harvest.ray_members(prog, lambda t: flat_of_q(mk(t)), ts, per_cell=(8 if tier == "quick" else 32), cap=40)
        res.count("harvested_members", len(mem))
        for t in mem:
            q = mk(t)
            pitch = math.asin(max(-1.0, min(1.0, -ref.R_from_quat(q)[2, 0])))
            if abs(abs(abs(pitch) - hp) - 1e-3) < 1e-7:
                res.count("excluded_by_reference")
                continue
            out.append((tag, t, q))
    return out


def judge_setpoint(res, site, q, nT, F, xC, degenerate, info, case):
    """q: returned quaternion; F: reference demanded force; xC heading vector"""
    cls = degenerate or "regular"
    if not (np.all(np.isfinite(q)) and math.isfinite(nT)):
        res.fail(site=site, clause="finite", cls=cls, detail=dict(info, q=q, nT=nT), sub=case["sub"], case=case)
        return
    if abs(float(np.linalg.norm(q)) - 1.0) > 1e-9:
        res.fail(site=site, clause="unit_quaternion_in_every_cell", cls=cls, detail=dict(info, q=q, norm=float(np.linalg.norm(q))), sub=case["sub"], case=case)
        return
    nF = float(np.linalg.norm(F))
    if abs(nT - nF) > 1e-9 * (1 + nF):
        res.fail(site=site, clause="thrust_is_norm_of_demanded_force", cls=cls, detail=dict(info, nT=nT, want=nF), sub=case["sub"], case=case)
    if degenerate == "near_zero_force":
        return
    R = ref.R_from_quat(q)
    zb, yb = R[:, 2], R[:, 1]
    # the thrust axis is well defined also when it is parallel to the heading vector (only the y axis is free there)
    if maxabs(zb - F / nF) > 1e-9:
        res.fail(site=site, clause="body_z_is_normalised_force", cls=cls, detail=dict(info, zb=zb, want=F / nF), sub=case["sub"], case=case)
    if degenerate:
        return
    if abs(float(yb @ xC)) > 1e-9:
        res.fail(site=site, clause="body_y_perpendicular_to_heading", cls=cls, detail=dict(info, yb=yb, xC=xC, dot=float(yb @ xC)), sub=case["sub"], case=case)


def degenerate_class(F, xC):
    nF = float(np.linalg.norm(F))
    if nF <= 1.5e-3:
        return "near_zero_force"
    zb = F / nF
    if float(np.linalg.norm(np.cross(zb, xC))) <= 1.5e-3:
        return "force_parallel_to_heading"
    return None


def ref_force_pc(M, trim, e_p, e_v, at_w, z_i):
    r = M["rdd2"]
    p = -r.kp_pos * e_p - r.kp_vel * e_v + r.m * at_w
    pn = float(np.linalg.norm(p))
    pmax = 0.3 * r.m * r.g
    if pn > pmax:
        p = pmax * p / pn
    return p + (trim + r.ki_z * z_i) * np.array([0, 0, 1.0])


def explore_pc(case):
    tier, seed, part, nparts = case["tier"], case["seed"], case["part"], case["nparts"]
    res = core.Result()
    M = mods()
    f = M["position_control"]
    prog = sxvm.compile_fn(f)
    r = M["rdd2"]
    mg = r.m * r.g
    cams = cam_quats(seed)
    eps_l = [np.zeros(3), np.array([0.1, 0, 0]), np.array([1.0, -2.0, 3.0]), np.array([-40.0, 25.0, 7.0]), alpha.generic_vec(seed, 3)]
    evs = [np.zeros(3), np.array([0.5, -0.2, 0.1])]
    ats = [np.zeros(3), np.array([1.0, 0, 0]), np.array([0, 0, -3.0])]
    cases = []
    for (yt, qc), e_p, e_v, at, trim, z_i in itertools.product(cams, eps_l, evs, ats, (0.0, mg), (0.0, 1.0, -1.0)):
        cases.append((yt, qc, e_p, e_v, at, trim, z_i, None))
    # degenerate family: trim = 0, z_i = 0, e_v = 0, at = 0, e_p = -F_des / kp_pos  ->  T = F_des
    def mk_flat(qc, F_des):
        e_p = -F_des / r.kp_pos
        return [[0.0], [0.0] * 3, [0.0] * 3, [0.0] * 3, list(qc), list(e_p), [0.0] * 3, [0.0], [0.01]]
    for yt, qc in cams:
        ytr = yaw_of_quat(qc)
        xC = np.array([math.cos(ytr), math.sin(ytr), 0.0])
        perp = np.array([0, 0, 1.0])
        ss = [0.0, 1.0, -1.0, 1e-4, -1e-4, 2e-3]
        for lo, hi in harvest.walk(prog, lambda t: mk_flat(qc, t * xC), [0.0, 1e-6, 1e-4, 1e-2, 1.0]):
            res.add_set("harvested_boundaries", "position_control |F|=%r|%r" % (lo, hi))
            ss += [lo, hi, -lo, -hi]
        for s in ss:
            cases.append((yt, qc, -(s * xC) / r.kp_pos, np.zeros(3), np.zeros(3), 0.0, 0.0, "s=%r" % s))
        ds = [0.0, 5e-4, 2e-3, 0.1]
        for lo, hi in harvest.walk(prog, lambda t: mk_flat(qc, math.cos(t) * xC + math.sin(t) * perp), [0.0, 1e-6, 1e-4, 1e-2, 0.5]):
            res.add_set("harvested_boundaries", "position_control heading_angle=%r|%r" % (lo, hi))
            ds += [lo, hi]
        horiz = np.cross(perp, xC)
        for d in ds:
            for sgn in (1.0, -1.0):
                Fd = sgn * (math.cos(d) * xC + math.sin(d) * perp)
                cases.append((yt, qc, -Fd / r.kp_pos, np.zeros(3), np.zeros(3), 0.0, 0.0, "offaxis=%r" % d))
                Fh = sgn * (math.cos(d) * xC + math.sin(d) * horiz)
                cases.append((yt, qc, -Fh / r.kp_pos, np.zeros(3), np.zeros(3), 0.0, 0.0, "azimuth=%r" % d))
    cases = cases[part::nparts]
    if part == 0:
        e_gen = np.array([1.0, -2.0, 3.0])
        for tag, t, qc in harvested_cams(res, prog, lambda q: [[mg], [0.3, -0.1, 2.0], [0.1, 0.0, -0.2], [0.0] * 3, list(q), list(np.array([0.3, -0.1, 2.0]) + e_gen), [0.1, 0.0, -0.2], [0.0], [0.01]], tier):
            for e_p in (e_gen, np.array([0.1, 0.0, 0.0])):
                cases.append((None, qc, e_p, np.zeros(3), np.zeros(3), mg, 0.0, "harvested camera %s t=%r" % (tag, t)))
    sigs = set()
    for yt, qc, e_p, e_v, at, trim, z_i, tag in cases:
        res.count("evaluations")
        pt, vt = np.array([0.3, -0.1, 2.0]), np.array([0.1, 0.0, -0.2])
        p_w, v_w = pt + e_p, vt + e_v
        out = f(trim, pt, vt, at, qc, p_w, v_w, z_i, 0.01)
        nT, q, zi2 = float(out[0]), arr(out[1]), float(out[2])
        e_p_eff = p_w - pt
        F = ref_force_pc(M, trim, e_p_eff, v_w - vt, at, z_i)
        ytr = yaw_of_quat(qc)
        xC = np.array([math.cos(ytr), math.sin(ytr), 0.0])
        if maxabs(F) > 0:
            res.nontrivial.add(hash((qc.tobytes(), e_p.tobytes(), e_v.tobytes(), at.tobytes(), trim, z_i)))
        res.outcomes.add(hash(np.round(F, 8).tobytes()))
        flat = [[trim], list(pt), list(vt), list(at), list(qc), list(p_w), list(v_w), [z_i], [0.01]]
        sigs.add(sxvm.run(prog, flat, sxvm.FLOAT)[1])
        judge_setpoint(res, "position_control", q, nT, F, xC, degenerate_class(F, xC),
                       dict(trim=trim, e_p=e_p_eff, e_v=e_v, at_w=at, qc=qc, z_i=z_i, tag=tag), case)
    res.add_set("cells_position_control", len(sigs))
    res.samples.append(dict(fn="position_control", cases=len(cases)))
    return res


def explore_se23(case):
    tier, seed, part, nparts = case["tier"], case["seed"], case["part"], case["nparts"]
    res = core.Result()
    M = mods()
    f = M["se23_position_control"]
    r = M["ll"]
    B = lib.built("SE23Quat")
    mg = r.m * r.g
    cams = cam_quats(seed)
    kp = np.array([2.0, 2.0, 1.0])
    zetas = [np.zeros(9), np.array([0.1, 0, 0, 0, 0, 0, 0, 0, 0.0]), np.array([1.0, -2.0, 3.0, 0.5, -0.2, 0.1, 0.3, -0.2, 0.5]),
             np.array([-4.0, 2.5, 0.7, 0, 0, 0, 0, 0, 2.5]), np.concatenate([alpha.generic_vec(seed, 3), alpha.generic_vec(seed + 1, 3), alpha.generic_axis(seed) * 1.0])]
    ats = [np.zeros(3), np.array([1.0, 0, 0]), np.array([0, 0, -3.0])]
    cases = list(itertools.product(cams, zetas, ats, (0.0, mg), (0.0, 1.0, -1.0)))
    # degenerate: zeta = 0, at = F_des / m, trim 0
    deg = []
    for yt, qc in cams:
        ytr = yaw_of_quat(qc)
        xC = np.array([math.cos(ytr), math.sin(ytr), 0.0])
        for s in (0.0, 1.0, -1.0, 1e-4, 0.9e-3, 1.1e-3):
            deg.append(((yt, qc), np.zeros(9), s * xC / r.m, 0.0, 0.0))
        for d in (5e-4, 9e-4, 2e-3):
            for sgn in (1.0, -1.0):
                Fd = sgn * (math.cos(d) * xC + math.sin(d) * np.array([0, 0, 1.0]))
                deg.append(((yt, qc), np.zeros(9), Fd / r.m, 0.0, 0.0))
                Fh = sgn * (math.cos(d) * xC + math.sin(d) * np.cross(np.array([0, 0, 1.0]), xC))
                deg.append(((yt, qc), np.zeros(9), Fh / r.m, 0.0, 0.0))
    allc = (cases + deg)[part::nparts]
    if part == 0:
        prog = sxvm.compile_fn(f)
        for tag, t, qc in harvested_cams(res, prog, lambda q: [[mg], list(kp), list(zetas[2]), [0.0] * 3, list(q), [0.0], [0.01]], tier):
            for zeta in (zetas[2], zetas[1]):
                allc.append(((None, qc), zeta, np.zeros(3), mg, 0.0))
    for (yt, qc), zeta, at, trim, z_i in allc:
        res.count("evaluations")
        out = f(trim, kp, zeta, at, qc, z_i, 0.01)
        nT, q = float(out[0]), arr(out[1])
        K = np.diag([r.kp_pos] * 3 + [r.kp_vel] * 3 + list(kp))
        u = B.call("left_jacobian", zeta) @ K @ zeta
        p = u[0:3] + u[3:6] + r.m * at
        pn, pmax = float(np.linalg.norm(p)), 0.3 * r.m * r.g
        if pn > pmax:
            p = pmax * p / pn
        F = p + (trim + r.ki_z * z_i) * np.array([0, 0, 1.0])
        ytr = yaw_of_quat(qc)
        xC = np.array([math.cos(ytr), math.sin(ytr), 0.0])
        if maxabs(F) > 0:
            res.nontrivial.add(hash((qc.tobytes(), zeta.tobytes(), at.tobytes(), trim, z_i)))
        res.outcomes.add(hash(np.round(F, 8).tobytes()))
        judge_setpoint(res, "se23_position_control", q, nT, F, xC, degenerate_class(F, xC), dict(trim=trim, zeta=zeta, at_w=at, qc=qc, z_i=z_i), case)
    res.samples.append(dict(fn="se23_position_control", cases=len(allc)))
    return res


def explore_flat(case):
    tier, seed, part, nparts = case["tier"], case["seed"], case["part"], case["nparts"]
    res = core.Result()
    M = mods()
    bz = M["bezier"]
    m_, g_ = bz.m, bz.g
    J = np.array([[bz.J_xx, 0, bz.J_xz], [0, bz.J_yy, 0], [bz.J_xz, 0, bz.J_zz]])
    psis = [-math.pi + 0.01, -math.pi / 2, 0.0, 0.7, math.pi / 2, math.pi]
    accs = [np.zeros(3), np.array([1.0, 0, 0]), np.array([1.0, -2.0, 3.0]), np.array([0, 0, -5.0]), alpha.generic_vec(seed, 3),
            np.array([0, 0, g_]),  # free fall
            np.array([0, 0, g_ - 1e-7 / m_ * 0.5]), np.array([0, 0, g_ - 1e-5])]
    jerks = [np.zeros(3), np.array([0.5, -1.0, 0.3]), alpha.generic_vec(seed + 1, 3)]
    snaps = [np.zeros(3), np.array([-0.3, 0.2, 1.0])]
    vels = [np.array([1.0, -0.5, 0.2])]
    cases = []
    for psi, a, j, s, pd, pdd in itertools.product(psis, accs, jerks, snaps, (0.0, 0.4), (0.0, -0.3)):
        cases.append((psi, a, j, s, pd, pdd, None))
    # thrust parallel to heading: thrust_e = m (g zh - a) = c * xc  -> a = g zh - c xc / m
    for psi in psis:
        xc = np.array([math.cos(psi), math.sin(psi), 0.0])
        for c in (5.0, -5.0):
            for d in (0.0, 5e-7, 2e-6, 1e-3):
                th = c * (math.cos(d) * xc + math.sin(d) * np.array([0, 0, 1.0]))
                a = np.array([0, 0, g_]) - th / m_
                cases.append((psi, a, jerks[1], snaps[1], 0.4, -0.3, "parallel d=%g" % d))
                th = c * (math.cos(d) * xc + math.sin(d) * np.cross(np.array([0, 0, 1.0]), xc))
                a = np.array([0, 0, g_]) - th / m_
                cases.append((psi, a, jerks[1], snaps[1], 0.4, -0.3, "parallel azimuth d=%g" % d))
    cases = cases[part::nparts]
    if part == 0:
        # thrust directions next to every outcome change of either compiled variant along great circles through the world axes and
        # along a generic one, at a heading that is aligned with none of them
        circles = [("x-z", np.array([1.0, 0, 0]), np.array([0, 0, 1.0])), ("y-z", np.array([0, 1.0, 0]), np.array([0, 0, 1.0])), ("x-y", np.array([1.0, 0, 0]), np.array([0, 1.0, 0])),
                   ("generic", np.array([0.6, -0.64, 0.48]), np.array([0.8, 0.48, -0.36]))]
        ts = [k * math.pi / 12 for k in range(-12, 13)]
        progs = [(sxvm.compile_fn(M["f_ref"]), lambda psi, a: [[psi], [0.4], [-0.3], list(vels[0]), list(a), list(jerks[1]), list(snaps[1])]),
                 (sxvm.compile_fn(M["mr_ref_traj"]), lambda psi, a: [[psi], [0.4], [-0.3], list(vels[0]), list(a), list(jerks[1]), list(snaps[1]), [m_], [g_], [bz.J_xx], [bz.J_yy], [bz.J_zz], [bz.J_xz]])]
        for psi in (0.7, 0.0):
            for ctag, e1, e2 in circles:
                def acc_at(t, e1=e1, e2=e2):
                    return np.array([0, 0, g_]) - 5.0 * (math.cos(t) * e1 + math.sin(t) * e2) / m_
                mem = set()
                for prog, mk in progs:
                    try:
                        mem.update(harvest.ray_members(prog, lambda t: mk(psi, acc_at(t)), ts, per_cell=(8 if tier == "quick" else 32), cap=60))
                    except sxvm.NotRational:
                        pass
                res.count("harvested_members", len(mem))
                for t in sorted(mem):
                    cases.append((psi, acc_at(t), jerks[1], snaps[1], 0.4, -0.3, "harvested thrust direction circle=%s t=%r" % (ctag, t)))
    for psi, a, j, s, pd, pdd, tag in cases:
        res.count("evaluations")
        v = vels[0]
        o1 = M["f_ref"](psi, pd, pdd, v, a, j, s)
        o2 = M["mr_ref_traj"](psi, pd, pdd, v, a, j, s, m_, g_, bz.J_xx, bz.J_yy, bz.J_zz, bz.J_xz)
        vb1, quat, w1, wd1, Mb1, T1 = [arr(x) for x in o1]
        vb2, _, w2, wd2, Mb2, T2 = [arr(x) for x in o2]
        Cbe = np.array(o2[1], dtype=float)  # 3x3 as returned
        thrust = m_ * (np.array([0, 0, g_]) - a)
        nF = float(np.linalg.norm(thrust))
        xc = np.array([math.cos(psi), math.sin(psi), 0.0])
        if nF > 0:
            res.nontrivial.add(hash((psi, a.tobytes(), j.tobytes(), s.tobytes(), pd, pdd)))
        res.outcomes.add(hash(np.round(thrust, 8).tobytes()))
        deg = None
        if nF <= 1e-4:
            deg = "free_fall"
        elif float(np.linalg.norm(np.cross(thrust / nF, xc))) <= 1e-4:
            deg = "thrust_parallel_to_heading"
        info = dict(psi=psi, a_e=a, j_e=j, s_e=s, psi_dot=pd, psi_ddot=pdd, tag=tag)
        # proper rotation in every cell
        for site, R, ok_fin in (("f_ref", ref.R_from_quat(quat) if np.all(np.isfinite(quat)) and np.linalg.norm(quat) > 0 else None, np.all(np.isfinite(quat))),
                                ("mr_ref_traj", Cbe, np.all(np.isfinite(Cbe)))):
            if not ok_fin:
                res.fail(site=site, clause="finite", cls=deg or "regular", detail=info, sub="flat", case=case)
                continue
            if site == "f_ref" and abs(float(np.linalg.norm(quat)) - 1.0) > 1e-9:
                res.fail(site=site, clause="unit_quaternion_in_every_cell", cls=deg or "regular", detail=dict(info, quat=quat, norm=float(np.linalg.norm(quat))), sub="flat", case=case)
                continue
            if site == "mr_ref_traj" and not ref.is_rotation(R, 1e-9):
                res.fail(site=site, clause="orthonormal_right_handed_matrix_in_every_cell", cls=deg or "regular",
                         detail=dict(info, C_be=R, orth_err=maxabs(R.T @ R - np.eye(3)), det=float(np.linalg.det(R))), sub="flat", case=case)
                continue
            if deg:
                continue
            if maxabs(R[:, 2] - thrust / nF) > 1e-9:
                res.fail(site=site, clause="body_z_is_normalised_force", cls="regular", detail=dict(info, zb=R[:, 2], want=thrust / nF), sub="flat", case=case)
            if abs(float(R[:, 1] @ xc)) > 1e-9:
                res.fail(site=site, clause="body_y_perpendicular_to_heading", cls="regular", detail=dict(info, yb=R[:, 1]), sub="flat", case=case)
        if deg:
            continue
        for site, T in (("f_ref", T1), ("mr_ref_traj", T2)):
            if abs(float(T[0]) - nF) > 1e-9 * (1 + nF):
                res.fail(site=site, clause="thrust_is_norm_of_demanded_force", cls="regular", detail=dict(info, T=float(T[0]), want=nF), sub="flat", case=case)
        # roll / pitch rates are the rotation rate of the thrust axis:  zb' = q xb - p yb,  zb' = (I - zb zb^T) u'/|u|, u' = -m j
        zb = thrust / nF
        zbd = (np.eye(3) - np.outer(zb, zb)) @ (-m_ * j) / nF
        for site, w, R in (("f_ref", w1, ref.R_from_quat(quat)), ("mr_ref_traj", w2, Cbe)):
            p_ref, q_ref = -float(zbd @ R[:, 1]), float(zbd @ R[:, 0])
            if abs(w[0] - p_ref) > 1e-9 * (1 + abs(p_ref)) or abs(w[1] - q_ref) > 1e-9 * (1 + abs(q_ref)):
                res.fail(site=site, clause="roll_pitch_rates_are_thrust_axis_rotation_rate", cls="regular", detail=dict(info, omega=w, p_ref=p_ref, q_ref=q_ref), sub="flat", case=case)
        for site, w, wd, Mb in (("f_ref", w1, wd1, Mb1), ("mr_ref_traj", w2, wd2, Mb2)):
            if not (np.all(np.isfinite(w)) and np.all(np.isfinite(wd)) and np.all(np.isfinite(Mb))):
                res.count("nonfinite_rates_not_judged")
                continue
            want = J @ wd + np.cross(w, J @ w)
            if maxabs(Mb - want) > 1e-9 * (1 + maxabs(want)):
                res.fail(site=site, clause="moment_satisfies_euler_equation", cls="regular", detail=dict(info, M=Mb, want=want), sub="flat", case=case)
        # the parametric variant with non-default mass / gravity / inertia incl. a product of inertia J_xz
        for pm, pg, Jp in ((1.3, 9.81, (0.03, 0.02, 0.05, 0.004)), (3.0, 3.7, (0.05, 0.08, 0.06, -0.01))):
            o3 = M["mr_ref_traj"](psi, pd, pdd, v, a, j, s, pm, pg, *Jp)
            vb3, _, w3, wd3, Mb3, T3 = [arr(x) for x in o3]
            C3 = np.array(o3[1], dtype=float)
            th3 = pm * (np.array([0, 0, pg]) - a)
            n3 = float(np.linalg.norm(th3))
            res.count("evaluations")
            if n3 <= 1e-4 or float(np.linalg.norm(np.cross(th3 / n3, xc))) <= 1e-4:
                if not ref.is_rotation(C3, 1e-9):
                    res.fail(site="mr_ref_traj", clause="orthonormal_right_handed_matrix_in_every_cell", cls="degenerate;params", detail=dict(info, m=pm, g=pg, J=Jp), sub="flat", case=case)
                continue
            Jm = np.array([[Jp[0], 0, Jp[3]], [0, Jp[1], 0], [Jp[3], 0, Jp[2]]])
            bad = None
            if not ref.is_rotation(C3, 1e-9) or maxabs(C3[:, 2] - th3 / n3) > 1e-9 or abs(float(C3[:, 1] @ xc)) > 1e-9 or abs(float(T3[0]) - n3) > 1e-9 * (1 + n3):
                bad = "set_point_alignment_with_parameters"
            elif np.all(np.isfinite(w3)) and np.all(np.isfinite(wd3)) and np.all(np.isfinite(Mb3)):
                want3 = Jm @ wd3 + np.cross(w3, Jm @ w3)
                zb3 = th3 / n3
                zbd3 = (np.eye(3) - np.outer(zb3, zb3)) @ (-pm * j) / n3
                if maxabs(Mb3 - want3) > 1e-9 * (1 + maxabs(want3)):
                    bad = "moment_satisfies_euler_equation"
                elif abs(w3[0] + float(zbd3 @ C3[:, 1])) > 1e-9 * (1 + abs(w3[0])) or abs(w3[1] - float(zbd3 @ C3[:, 0])) > 1e-9 * (1 + abs(w3[1])):
                    bad = "roll_pitch_rates_are_thrust_axis_rotation_rate"
            if bad:
                res.fail(site="mr_ref_traj", clause=bad, cls="regular;params", detail=dict(info, m=pm, g=pg, J=Jp, omega=w3, M=Mb3), sub="flat", case=case)
        # the two shipped variants agree
        same = ref.rot_dist(ref.R_from_quat(quat), Cbe) <= 1e-9 and maxabs(vb1 - vb2) <= 1e-9 * (1 + maxabs(vb2)) and abs(T1[0] - T2[0]) <= 1e-9 * (1 + nF)
        fin = all(np.all(np.isfinite(x)) for x in (w1, w2, wd1, wd2, Mb1, Mb2))
        if fin:
            same = same and maxabs(w1 - w2) <= 1e-9 * (1 + maxabs(w2)) and maxabs(wd1 - wd2) <= 1e-8 * (1 + maxabs(wd2)) and maxabs(Mb1 - Mb2) <= 1e-8 * (1 + maxabs(Mb2))
        if not same:
            res.fail(site="f_ref_vs_mr_ref_traj", clause="shipped_variants_agree", cls="regular", detail=dict(info, w1=w1, w2=w2, M1=Mb1, M2=Mb2), sub="flat", case=case)
    res.samples.append(dict(fn="flatness", cases=len(cases)))
    return res


def explore_helpers(case):
    tier, seed = case["tier"], case["seed"]
    res = core.Result()
    M = mods()
    r = M["rdd2"]
    d2r = math.pi / 180
    yaws = [-3.0, -math.pi / 2, 0.0, 0.7, 2.5]
    pitches = [-1.2, -0.3, 0.0, 0.3, 1.5]
    rolls = [-2.0, 0.0, 0.4]
    for y, p, ro in itertools.product(yaws, pitches, rolls):
        res.count("evaluations")
        res.nontrivial.add(hash((y, p, ro)))
        q = arr(M["eulerB321_to_quat"](y, p, ro))
        want = ref.Rz(y) @ ref.Ry(p) @ ref.Rx(ro)
        if not np.all(np.isfinite(q)) or abs(np.linalg.norm(q) - 1) > 1e-9 or ref.rot_dist(ref.R_from_quat(q), want) > 1e-9:
            res.fail(site="eulerB321_to_quat", clause="unit_quaternion_of_Rz_Ry_Rx", cls="-", detail=dict(yaw=y, pitch=p, roll=ro, q=q), sub="helpers", case=case)
    sticks = [-1.0, -0.5, 0.0, 0.5, 1.0]
    for y, p, ro in itertools.product(yaws, (-0.3, 0.0, 0.8), (0.0, 0.4)):
        R0 = ref.Rz(y) @ ref.Ry(p) @ ref.Rx(ro)
        for sgn in (1, -1):
            q0 = ref.quat_of(ref.logm_rot(R0), sgn)
            for a, e, rr in itertools.product(sticks, sticks, (-1.0, 0.0, 1.0)):
                res.count("evaluations")
                res.nontrivial.add(hash((y, p, ro, sgn, a, e, rr)))
                out = M["input_auto_level"](1.5, 0.7, np.array([a, e, 0.25, rr]), q0)
                qr, th = arr(out[0]), float(out[1])
                want = ref.Rz(math.atan2(R0[1, 0], R0[0, 0]) + r.yaw_rate_max * d2r * rr) @ ref.Ry(r.rollpitch_max * d2r * e) @ ref.Rx(r.rollpitch_max * d2r * a)
                res.outcomes.add(hash(np.round(want, 8).tobytes()))
                if not np.all(np.isfinite(qr)) or abs(np.linalg.norm(qr) - 1) > 1e-9 or ref.rot_dist(ref.R_from_quat(qr), want) > 1e-9 or abs(th - (1.5 + 0.25 * 0.7)) > 1e-12:
                    res.fail(site="input_auto_level", clause="unit_quaternion_of_commanded_angles", cls="q-" if sgn < 0 else "q+",
                             detail=dict(q=q0, sticks=[a, e, 0.25, rr], q_r=qr, thrust=th), sub="helpers", case=case)
    res.samples.append(dict(fn="helpers"))
    return res


class _S:
    def __init__(self, fn, n, name):
        self.fn, self.n, self.name, self.chunks = fn, n, name, 1

    def cases(self, tier, seed):
        return [dict(sub=self.name, tier=tier, seed=seed, part=p, nparts=self.n) for p in range(self.n)]

    def run(self, case):
        return self.fn(case)


# module constants a user may set before deriving: another vehicle (also with integer-valued inertia and a fractional cross term)
OVERRIDES = [dict(bezier=dict(m=0.8, g=3.7, J_xx=2, J_yy=3, J_zz=4, J_xz=0.5), rdd2=dict(m=0.8, g=3.7, kp_pos=2.5), ll=dict(m=0.8, g=3.7)),
             dict(bezier=dict(m=12, g=9.8, J_xx=0.5, J_yy=0.25, J_zz=1, J_xz=-0.125), rdd2=dict(m=12, kp_vel=3), ll=dict(m=12, kp_vel=3))]
_OV = {"pc": core.overridden(mods, _M, explore_pc), "se23": core.overridden(mods, _M, explore_se23), "flat": core.overridden(mods, _M, explore_flat)}


class _Ov:
    chunks = 1

    def cases(self, tier, seed):
        return [dict(sub="overrides", which=w, tier=tier, seed=seed, part=p, nparts=12, override=o) for o in OVERRIDES for w in ("pc", "se23", "flat") for p in (0, 5)]

    def run(self, case):
        r = _OV[case["which"]](case)
        for f in r.fails:
            f["sub"] = "overrides"
            f["case"] = case
        return r


SUBCHECKS = {"pc": _S(explore_pc, 8, "pc"), "se23": _S(explore_se23, 4, "se23"), "flat": _S(explore_flat, 8, "flat"), "helpers": _S(explore_helpers, 1, "helpers"),
             "overrides": _Ov()}
REPLAY = {"pc": lambda c: explore_pc(c).fails, "se23": lambda c: explore_se23(c).fails, "flat": lambda c: explore_flat(c).fails,
          "helpers": lambda c: explore_helpers(c).fails, "overrides": lambda c: _Ov().run(c).fails}

# results must not depend on which library calls were made earlier in the process (see mc/order.py)
from .. import order as _order  # noqa: E402

_ORDER = _order.OrderSub("C14", "setpoints", None)
SUBCHECKS["order"] = _ORDER
REPLAY["order"] = _ORDER.replay

# keyword / dict calls bind the documented names (see mc/kw.py)
from .. import kw as _kw  # noqa: E402

_KW = _kw.KwSub("setpoints")
SUBCHECKS["keywords"] = _KW
REPLAY["keywords"] = _KW.replay
