"""C16 - the quadrotor model obeys rigid-body physics invariants.

explorer : product over states (attitudes in both quaternion signs, body velocities, body rates, rotor speeds, heights above ground)
           x rotor commands x parameter sets (defaults, asymmetric arms/angles, all 16 spin-direction patterns, scaled mass/inertia,
           aerodynamic coefficients zero and non-zero).
oracle   : q.q' = 0; hover equilibrium; accelerometer zero in free fall; net specific force and J w' + w x J w equal the reference
           rotor sum (thrust along body z at the arm position + reaction torque opposite to spin); zero moment for equal speeds on the
           symmetric frame; full state derivative equals the reference rigid-body derivative; equivariance under yaw rotations and
           horizontal translations of the world; first-order motor lag with spin-up / spin-down time constant.
"""
from __future__ import annotations

import contextlib
import io
import itertools
import math

import casadi as ca
import numpy as np

from .. import alpha, core, ref
from ..gutil import maxabs

LEVEL = "exploration"
RULE = ("attitudes: 4 axes x {0,0.1,1,pi/2,2.5} both signs; v_b, w in {0,(1,-2,3),generic}; rotor speeds {0, hover, (600,700,800,900)}; commands {speed-100, speed, speed+100, differential (+100,-100,+50,-20)}; "
        "states harvested along 10 rays (height, pitch, roll, yaw, rotor speed, command through the speed, airspeed, body rate, quaternion scalar part); attitudes inside the gimbal band with roll; quaternions scaled by 1+-1e-3, 1+1e-7, 1-1e-5, 1.02 (norm clause); commands within parts per million of the speeds; z in {2, 0.01}; parameter sets: default, asymmetric geometry, 16 spin patterns, scaled mass/inertia, aero on. non-trivial = non-zero rotor speed or rate; distinct by raw bytes")
ASSUMPTIONS = ["reference rigid-body equations in numpy double", "states on or below the ground plane (z <= 0) are outside the quantifier"]

_M = {}


def model():
    if not _M:
        with contextlib.redirect_stdout(io.StringIO()):
            from cyecca.models import quadrotor
            _M.update(quadrotor.derive_model())
    return _M


def bounds(tier):
    return dict()


def pvec(over=None):
    m = model()
    d = dict(m["p_defaults"])
    if over:
        for k, v in over.items():
            assert k in d, k
            d[k] = v
    names = [m["p"][i].name() for i in range(m["p"].shape[0])]
    return np.array([float(d[n]) for n in names]), d


def param_sets(tier):
    sets = [("default", {})]
    sets.append(("asym_geometry", {"l_motor_0": 0.2, "l_motor_1": 0.3, "l_motor_2": 0.25, "l_motor_3": 0.35, "theta_motor_0": -0.6, "theta_motor_1": 2.2,
                                   "theta_motor_2": 0.9, "theta_motor_3": -2.5}))
    for k, dirs in enumerate(itertools.product((1, -1), repeat=4)):
        sets.append(("spin_%d" % k, {"dir_motor_%d" % i: d for i, d in enumerate(dirs)}))
    sets.append(("heavy", {"m": 5.0, "Jx": 0.05, "Jy": 0.08, "Jz": 0.11, "CM": 0.03, "CT": 2e-5, "tau_up": 0.03, "tau_down": 0.01, "g": 3.7}))
    sets.append(("aero", {"CD0": 0.4, "Cl_p": -0.1, "Cm_q": -0.2, "Cn_r": -0.05}))
    # a 27 g palm-size vehicle and a 200 kg one: parameters orders of magnitude away from the defaults
    sets.append(("palm_size", {"m": 0.027, "Jx": 1.4e-5, "Jy": 1.4e-5, "Jz": 2.2e-5, "l_motor_0": 0.046, "l_motor_1": 0.046, "l_motor_2": 0.046, "l_motor_3": 0.046,
                               "CT": 3.2e-10 * 1e2, "CM": 0.006, "tau_up": 0.005, "tau_down": 0.02}))
    sets.append(("heavy_lift", {"m": 200.0, "Jx": 40.0, "Jy": 55.0, "Jz": 80.0, "l_motor_0": 1.5, "l_motor_1": 1.5, "l_motor_2": 1.5, "l_motor_3": 1.5, "CT": 2e-3, "CM": 0.05,
                                "tau_up": 0.3, "tau_down": 0.5}))
    return sets


def ref_xdot(x, u, d):
    """reference rigid-body derivative above ground (z > 0)"""
    p, vb, q, w, om = x[0:3], x[3:6], x[6:10], x[10:13], x[13:17]
    R = ref.R_from_quat(q)  # body -> world (q assumed unit)
    J = np.diag([d["Jx"], d["Jy"], d["Jz"]])
    F = np.zeros(3)
    M = np.zeros(3)
    V = float(np.linalg.norm(vb))
    wX = vb / V if V > 1e-5 else np.array([1.0, 0, 0])
    F += -d["CD0"] * 0.5 * d["rho"] * V ** 2 * d["S"] * wX
    for i in range(4):
        th = d["CT"] * om[i] ** 2
        Fi = np.array([0, 0, th])
        ri = d["l_motor_%d" % i] * np.array([math.cos(d["theta_motor_%d" % i]), math.sin(d["theta_motor_%d" % i]), 0])
        M += np.cross(ri, Fi) - d["CM"] * d["dir_motor_%d" % i] * th * np.array([0, 0, 1.0])
        M += np.array([d["Cl_p"] * w[0], d["Cm_q"] * w[1], d["Cn_r"] * w[2]]) * d["S"] * d["l_motor_%d" % i]
        F += Fi
    a_b = F / d["m"]
    Fg = F + R.T @ np.array([0, 0, -d["m"] * d["g"]])
    wd = np.linalg.solve(J, M - np.cross(w, J @ w))
    qd = 0.5 * np.array([-q[1] * w[0] - q[2] * w[1] - q[3] * w[2],
                         q[0] * w[0] + q[2] * w[2] - q[3] * w[1],
                         q[0] * w[1] - q[1] * w[2] + q[3] * w[0],
                         q[0] * w[2] + q[1] * w[1] - q[2] * w[0]])
    pd = R @ vb
    vd = Fg / d["m"] - np.cross(w, vb)
    tau = np.array([d["tau_up"] if u[i] - om[i] > 0 else d["tau_down"] for i in range(4)])
    omd = (u - om) / tau
    return np.concatenate([pd, vd, qd, wd, omd]), a_b, M


def explore(case):
    pname, over, tier, seed = case["pname"], case["over"], case["tier"], case["seed"]
    res = core.Result()
    m = model()
    f, g_accel, g_gyro = m["f"], m["g_accel"], m["g_gyro"]
    pv, d = pvec(over)
    axs = alpha.axes(seed, small=True)
    quats = []
    for th in (0.0, 0.1, 1.0, math.pi / 2, 2.5):
        for ax in axs:
            for s in (1, -1):
                quats.append(ref.quat_of(ax * th, s))
            if th == 0:
                break
    # attitudes inside the 3-2-1 gimbal band (pitch within 1e-3 rad of +-90 deg) with non-zero roll: the model must not depend on how an
    # Euler decomposition behaves there
    for sgn_ in (1.0, -1.0):
        for d_ in (5e-4, 1e-5):
            Rg = ref.R_from_euler321([0.3, sgn_ * (math.pi / 2 - d_), 0.4])
            quats.append(ref.quat_of(ref.logm_rot(Rg), 1))
    vbs = [np.zeros(3), np.array([1.0, -2.0, 3.0]), alpha.generic_vec(seed, 3)]
    ws = [np.zeros(3), np.array([0.3, -0.2, 0.5]), alpha.generic_vec(seed + 1, 3)]
    hover = math.sqrt(d["m"] * d["g"] / 4 / d["CT"])
    oms = [np.zeros(4), np.full(4, hover), np.array([600.0, 700.0, 800.0, 900.0])]
    zs = [2.0, 0.01, 0.002, 1e-4]  # above ground: also within millimetres of it
    aero = any(d[k] != 0 for k in ("CD0", "Cl_p", "Cm_q", "Cn_r"))
    if tier != "thorough" and pname.startswith("spin_"):
        quats, vbs, ws = quats[::4], vbs[:2], ws[:2]
    for q, vb, w, om, z in itertools.product(quats, vbs, ws, oms, zs):
        for du in (-100.0, 0.0, 100.0, np.array([100.0, -100.0, 50.0, -20.0]), np.array([1.0, -4.0, 9.0, -0.25]), "relative"):
            if isinstance(du, str):
                # commands that differ from the speeds by parts per million (the end of a spin-up): still (cmd - omega) / tau
                du = om * np.array([1e-6, -3e-6, 2e-7, -1e-9]) if maxabs(om) > 0 else np.array([1e-6, -3e-6, 2e-7, -1e-9])
            u = om + du
            x = np.concatenate([[0.4, -1.2, z], vb, q, w, om])
            res.count("evaluations")
            if maxabs(om) > 0 or maxabs(w) > 0:
                res.nontrivial.add(hash(x.tobytes() + u.tobytes() + pname.encode()))
            xd = np.array(f(x, u, pv), dtype=float).reshape(-1)
            info = dict(params=pname, x=x, u=u)
            cls = pname.split("_")[0]
            if not np.all(np.isfinite(xd)):
                res.fail(site="quadrotor.f", clause="finite", cls=cls, detail=info, sub="model", case=case)
                continue
            # (1) norm preservation
            if abs(float(q @ xd[6:10])) > 1e-12 * (1 + maxabs(w)):
                res.fail(site="quadrotor.f", clause="quaternion_norm_preserved", cls=cls, detail=dict(info, q_dot=xd[6:10], q_qdot=float(q @ xd[6:10])), sub="model", case=case)
            want, a_b, M = ref_xdot(x, u, d)
            res.outcomes.add(hash(np.round(want, 6).tobytes()))
            # (7) motor lag
            if maxabs(xd[13:17] - want[13:17]) > 1e-9 * (1 + maxabs(want[13:17])):
                res.fail(site="quadrotor.f", clause="motor_first_order_lag", cls=cls, detail=dict(info, got=xd[13:17], want=want[13:17]), sub="model", case=case)
            # (4) rotor force / moment sum through the accelerometer and Euler's equation
            y = np.array(g_accel(x, u, pv, np.zeros(3), 0.01), dtype=float).reshape(-1)
            if maxabs(y - a_b) > 1e-9 * (1 + maxabs(a_b)):
                res.fail(site="quadrotor.g_accel", clause="specific_force_is_rotor_sum", cls=cls, detail=dict(info, y=y, want=a_b), sub="model", case=case)
            J = np.diag([d["Jx"], d["Jy"], d["Jz"]])
            Mimp = J @ xd[10:13] + np.cross(w, J @ w)
            if maxabs(Mimp - M) > 1e-9 * (1 + maxabs(M)):
                res.fail(site="quadrotor.f", clause="moment_is_rotor_sum_plus_reaction_torque", cls=cls, detail=dict(info, got=Mimp, want=M), sub="model", case=case)
            # full derivative
            sc = 1 + maxabs(want)
            if maxabs(xd - want) > 1e-9 * sc:
                k = int(np.argmax(np.abs(xd - want)))
                res.fail(site="quadrotor.f", clause="state_derivative_is_rigid_body_derivative", cls=cls + ";component=%d" % (0 if k < 3 else 1 if k < 6 else 2 if k < 10 else 3 if k < 13 else 4),
                         detail=dict(info, got=xd, want=want), sub="model", case=case)
            yg = np.array(g_gyro(x, u, pv, np.zeros(3), 0.01), dtype=float).reshape(-1)
            if maxabs(yg - w) > 1e-12:
                res.fail(site="quadrotor.g_gyro", clause="gyro_is_body_rate", cls=cls, detail=dict(info, y=yg), sub="model", case=case)
            # (3) free fall
            if maxabs(om) == 0 and not aero and maxabs(y) > 1e-12:
                res.fail(site="quadrotor.g_accel", clause="accelerometer_zero_in_free_fall", cls=cls, detail=dict(info, y=y), sub="model", case=case)
            # (5) equal speeds on the symmetric frame
            if pname == "default" and not aero and len(set(om.tolist())) == 1 and maxabs(w) == 0 and maxabs(xd[10:13]) > 1e-9:
                res.fail(site="quadrotor.f", clause="zero_moment_for_equal_speeds_on_symmetric_frame", cls=cls, detail=dict(info, omega_dot=xd[10:13]), sub="model", case=case)
            # (6) equivariance under yaw rotation + horizontal translation of the world
            if np.isscalar(du) and du == 0.0:
                for psi, delta in ((0.7, np.array([3.0, -5.0, 0.0])), (math.pi / 2, np.zeros(3)), (math.pi, np.array([-100.0, 40.0, 0.0]))):
                    Rz = ref.Rz(psi)
                    qz = np.array([math.cos(psi / 2), 0, 0, math.sin(psi / 2)])

                    def qmul(a, b):
                        return np.array([a[0] * b[0] - a[1] * b[1] - a[2] * b[2] - a[3] * b[3],
                                         a[0] * b[1] + a[1] * b[0] + a[2] * b[3] - a[3] * b[2],
                                         a[0] * b[2] - a[1] * b[3] + a[2] * b[0] + a[3] * b[1],
                                         a[0] * b[3] + a[1] * b[2] - a[2] * b[1] + a[3] * b[0]])
                    x2 = np.concatenate([Rz @ x[0:3] + delta, vb, qmul(qz, q), w, om])
                    xd2 = np.array(f(x2, u, pv), dtype=float).reshape(-1)
                    want2 = np.concatenate([Rz @ xd[0:3], xd[3:6], qmul(qz, xd[6:10]), xd[10:17]])
                    res.count("evaluations")
                    if maxabs(xd2 - want2) > 1e-9 * (1 + maxabs(want2)):
                        res.fail(site="quadrotor.f", clause="equivariant_under_yaw_and_horizontal_translation", cls=cls, detail=dict(info, psi=psi, delta=delta, got=xd2, want=want2), sub="model", case=case)
    # states next to every outcome change of the compiled model along rays through the state / command space (height down to the ground,
    # pitch, roll and yaw through their ranges, one rotor speed, one command through its rotor's speed on a logarithmic grid, airspeed and
    # body rate from zero): a band, dead zone or snap between two lattice members is met by the members harvested next to it
    if pname.split("_")[0] in ("default", "aero", "asym") or tier == "thorough":
        from .. import harvest, sxvm
        prog = sxvm.compile_fn(f)
        q_gen = ref.quat_of(ref.logm_rot(ref.R_from_euler321([0.3, 0.5, 0.4])), 1)
        base = np.concatenate([[0.4, -1.2, 2.0], vbs[1], q_gen, ws[1], oms[2]])
        u_base = oms[2] + np.array([30.0, -10.0, 0.0, 5.0])
        logs = sorted([0.0] + [s_ * 10.0 ** e for e in range(-9, 4) for s_ in (1.0, -1.0)])
        hp = math.pi / 2

        def with_(idx, vals, x0=base):
            x = np.array(x0, dtype=float)
            x[idx] = vals
            return x
        rays = [("height", lambda t: (with_([2], [t]), u_base), [1e-6, 1e-5, 1e-4, 1e-3, 1e-2, 0.03, 0.06, 0.1, 0.2, 0.5, 1.0, 3.0, 10.0, 100.0]),
                ("pitch", lambda t: (with_(slice(6, 10), ref.quat_of(ref.logm_rot(ref.R_from_euler321([0.3, t, 0.4])), 1)), u_base), [-hp + 2e-3] + [k * hp / 12 for k in range(-11, 12)] + [hp - 2e-3]),
                ("roll", lambda t: (with_(slice(6, 10), ref.quat_of(ref.logm_rot(ref.R_from_euler321([0.3, 0.5, t])), 1)), u_base), [k * math.pi / 8 for k in range(-8, 9)]),
                ("yaw", lambda t: (with_(slice(6, 10), ref.quat_of(ref.logm_rot(ref.R_from_euler321([t, 0.5, 0.4])), 1)), u_base), [k * math.pi / 8 for k in range(-8, 9)]),
                ("rotor_speed_0", lambda t: (with_([13], [t]), u_base), [k * 100.0 for k in range(0, 16)]),
                ("command_minus_speed_1", lambda t: (base, u_base + np.array([0, base[14] + t - u_base[1], 0, 0])), logs),
                ("relative_command_2", lambda t: (base, with_([2], [base[15] * (1 + t)], u_base)), [x_ * 1e-3 for x_ in logs]),
                ("airspeed", lambda t: (with_(slice(3, 6), vbs[1] / np.linalg.norm(vbs[1]) * t), u_base), [0.0, 1e-9, 1e-6, 1e-5, 1e-4, 1e-3, 1e-2, 0.1, 1.0, 10.0, 50.0]),
                ("body_rate", lambda t: (with_(slice(10, 13), ws[1] / np.linalg.norm(ws[1]) * t), u_base), [0.0, 1e-9, 1e-6, 1e-3, 1e-2, 0.1, 1.0, 10.0, 30.0]),
                ("quaternion_scalar_part", lambda t: (with_(slice(6, 10), ref.quat_of(np.array([0.6, -0.64, 0.48]) * t, 1)), u_base), [k * math.pi / 8 for k in range(0, 17)])]
        for tag, mk, ts in rays:
            try:
                mem = harvest.ray_members(prog, lambda t: [list(mk(t)[0]), list(mk(t)[1]), list(pv)], ts, per_cell=(8 if tier == "quick" else 24), cap=60)
            except sxvm.NotRational:
                mem = []
            res.count("harvested_members", len(mem))
            mids = [(a + b) / 2 for a, b in zip(ts, ts[1:])]
            for t in list(mem) + mids:
                x, u = mk(t)
                if x[2] <= 0:
                    continue
                res.count("evaluations")
                res.nontrivial.add(hash(x.tobytes() + np.asarray(u).tobytes() + pname.encode()))
                xd = np.array(f(x, u, pv), dtype=float).reshape(-1)
                want, a_b, M = ref_xdot(x, np.asarray(u, dtype=float), d)
                info = dict(params=pname, x=x, u=u, ray=tag, t=t)
                if not np.all(np.isfinite(xd)) or maxabs(xd - want) > 1e-9 * (1 + maxabs(want)):
                    kbad = int(np.argmax(np.abs(xd - want))) if np.all(np.isfinite(xd)) else -1
                    res.fail(site="quadrotor.f", clause="state_derivative_is_rigid_body_derivative", cls=pname.split("_")[0] + ";ray=" + tag, detail=dict(info, got=xd, want=want, component=kbad), sub="model", case=case)
                    break
                y = np.array(g_accel(x, u, pv, np.zeros(3), 0.01), dtype=float).reshape(-1)
                if maxabs(y - a_b) > 1e-9 * (1 + maxabs(a_b)):
                    res.fail(site="quadrotor.g_accel", clause="specific_force_is_rotor_sum", cls=pname.split("_")[0] + ";ray=" + tag, detail=dict(info, y=y, want=a_b), sub="model", case=case)
                    break
    # the tables the model ships are consumed by position (`sim()`, the simulation scripts pass `p_defaults.values()` / `x0_defaults.values()`):
    # they must list the entries in the order of the parameter / state vectors, and a positional evaluation must equal the by-name one
    pnames = [m["p"][i].name() for i in range(m["p"].shape[0])]
    xnames = [m["x"][i].name() for i in range(m["x"].shape[0])]
    res.count("evaluations")
    if list(m["p_defaults"].keys()) != pnames or list(m["x0_defaults"].keys()) != xnames:
        res.fail(site="quadrotor.p_defaults", clause="default_tables_in_vector_order", cls="-", detail=dict(p_defaults=list(m["p_defaults"].keys()), p=pnames,
                 x0_defaults=list(m["x0_defaults"].keys()), x=xnames), sub="model", case=case)
    else:
        tab = dict(m["p_defaults"])
        tab.update(over)
        ppos = np.array([float(v) for v in tab.values()])
        xt = np.concatenate([[0.4, -1.2, 2.0], vbs[1], quats[min(5, len(quats) - 1)], ws[1], oms[2]])
        a1 = np.array(f(xt, oms[2] + 50.0, ppos), dtype=float)
        a2 = np.array(f(xt, oms[2] + 50.0, pv), dtype=float)
        if not np.array_equal(a1, a2):
            res.fail(site="quadrotor.p_defaults", clause="positional_parameter_table_equals_named", cls="-", detail=dict(params=pname), sub="model", case=case)
    # quaternions slightly off the unit sphere (what a fixed-step integrator hands to the model): q . q' = 0 holds for the exact kinematics
    # q' = q (0, w) / 2 whatever the norm, so the norm neither grows nor is "corrected" behind the integrator's back
    for q in quats[::2]:
        for sc_q in (1 + 1e-3, 1 - 1e-3, 1 + 1e-7, 1 - 1e-5, 1.02):
            for w in ws[1:]:
                xq = np.concatenate([[0.4, -1.2, 2.0], vbs[1], q * sc_q, w, oms[1]])
                res.count("evaluations")
                xdq = np.array(f(xq, oms[1], pv), dtype=float).reshape(-1)
                qq = q * sc_q
                if not np.all(np.isfinite(xdq)) or abs(float(qq @ xdq[6:10])) > 1e-12 * (1 + maxabs(w)):
                    res.fail(site="quadrotor.f", clause="quaternion_norm_preserved", cls="off_unit_sphere", detail=dict(params=pname, q=qq, scale=sc_q, w=w, q_dot=xdq[6:10], q_qdot=float(qq @ xdq[6:10])), sub="model", case=case)
                    break
    # every derive_model() call hands out its own default tables: customising one vehicle (sim() and the scripts write into the table in
    # place) must not change the defaults of a model derived afterwards
    if pname == "default":
        res.count("evaluations")
        with contextlib.redirect_stdout(io.StringIO()):
            from cyecca.models import quadrotor as _quad
            ma = _quad.derive_model()
            shipped_p, shipped_x = dict(ma["p_defaults"]), dict(ma["x0_defaults"])
            for k_, v_ in (("m", 3.0), ("l_motor_0", 0.35), ("dir_motor_1", -ma["p_defaults"]["dir_motor_1"])):
                ma["p_defaults"][k_] = v_
            first_x = next(iter(ma["x0_defaults"]))
            ma["x0_defaults"][first_x] = 7.0
            mb = _quad.derive_model()
        if dict(mb["p_defaults"]) != shipped_p or dict(mb["x0_defaults"]) != shipped_x:
            changed = [k_ for k_ in shipped_p if mb["p_defaults"].get(k_) != shipped_p[k_]] + [k_ for k_ in shipped_x if mb["x0_defaults"].get(k_) != shipped_x[k_]]
            res.fail(site="quadrotor.p_defaults", clause="default_tables_are_per_model", cls="-", detail=dict(changed_in_a_later_model=changed[:6]), sub="model", case=case)
    # the integrator interface (`model["dae"]`, used with idas / cvodes by sim() and the scripts) carries the same right-hand side as `f`,
    # also off the unit sphere (a stabilisation term would vanish for unit quaternions)
    dae = m["dae"]
    try:
        fode = ca.Function("ode", [dae["x"], dae["u"], dae["p"]], [dae["ode"]])
    except (KeyError, RuntimeError) as ex:
        res.count("evaluations")
        res.fail(site="quadrotor.dae", clause="integrator_interface_defined", cls="-", detail=dict(error="%s: %s" % (type(ex).__name__, str(ex)[:200])), sub="model", case=case)
        fode = None
    if fode is not None:
        for q, vb, w, om in itertools.product(quats[::3], vbs[1:], ws[1:], oms[1:]):
            for sc_q in (1.0, 1.1, 0.9):
                xq = np.concatenate([[0.4, -1.2, 2.0], vb, q * sc_q, w, om])
                bad = False
                for u in (om + np.array([30.0, -10.0, 0.0, 5.0]), np.array([-50.0, 20.0, -300.0, 0.0])):  # also negative commands
                    res.count("evaluations")
                    b1 = np.array(fode(xq, u, pv), dtype=float).reshape(-1)
                    b2 = np.array(f(xq, u, pv), dtype=float).reshape(-1)
                    if not (np.all(np.isfinite(b1)) and maxabs(b1 - b2) <= 1e-12 * (1 + maxabs(b2))):
                        res.fail(site="quadrotor.dae", clause="integrator_right_hand_side_equals_f", cls="unit" if sc_q == 1.0 else "off_unit_sphere", detail=dict(x=xq, u=u, ode=b1, f=b2), sub="model", case=case)
                        bad = True
                        break
                if bad:
                    break
    # (2) hover equilibrium
    xh = np.concatenate([[0, 0, 5.0], np.zeros(3), [1, 0, 0, 0], np.zeros(3), np.full(4, hover)])
    xdh = np.array(f(xh, np.full(4, hover), pv), dtype=float).reshape(-1)
    res.count("evaluations")
    sym = pname in ("default", "heavy", "aero") or pname.startswith("spin_")
    if sym:
        bal = sum(d["dir_motor_%d" % i] for i in range(4)) == 0
        chk = xdh if bal else np.concatenate([xdh[:12], xdh[13:]])  # unbalanced spin patterns yaw, everything else is still in equilibrium
        if maxabs(chk) > 1e-9:
            res.fail(site="quadrotor.f", clause="hover_is_equilibrium", cls=pname.split("_")[0], detail=dict(params=pname, x=xh, x_dot=xdh), sub="model", case=case)
    res.samples.append(dict(params=pname, hover_speed=hover))
    return res


class _Sub:
    chunks = 1

    def cases(self, tier, seed):
        return [dict(sub="model", pname=n, over=o, tier=tier, seed=seed) for n, o in param_sets(tier)]

    def run(self, case):
        return explore(case)


SUBCHECKS = {"model": _Sub()}
REPLAY = {"model": lambda c: explore(c).fails}

# results must not depend on which library calls were made earlier in the process (see mc/order.py)
from .. import order as _order  # noqa: E402

_ORDER = _order.OrderSub("C16", "quadrotor", None)
SUBCHECKS["order"] = _ORDER
REPLAY["order"] = _ORDER.replay
