"""C19 - SymPy <-> CasADi expression conversion preserves meaning.

explorer : program enumeration.  All SymPy expression trees to the depth over a leaf alphabet (symbols, integers, rationals, floats, special
           constants) and the constructors the converter has a case for (+ unsupported ones that must be refused), and all CasADi SX trees to the
           depth over every opcode the reverse converter has a case for; each program is converted and evaluated on a 5x5 lattice of points.
oracle   : value of the converted expression == value of the source (source evaluated by mpmath at 30 digits resp. by CasADi), relative
           1e-9, Booleans as 0/1 -- OR the converter raised an error for the construct; symbol tables: one name <-> one variable across
           repeated occurrences and across calls sharing the table.
"""
from __future__ import annotations

import contextlib
import io
import itertools
import math

import casadi as ca
import mpmath
import numpy as np
import sympy

from .. import core

LEVEL = "exploration"
RULE = ("sympy -> casadi: leaves {x, y, 2, -3, 1/3, 1/2, 1, 0, -1, 2.5, 0.75, -0.001}; depth-1 = unary/binary constructors on leaves; depth-2 = unary on depth-1, binary of "
        "depth-1 with a leaf (thorough: with a reduced depth-1 set); matrices, user function map and cse wrapper on a sub-family. casadi -> sympy: leaves {a, b, 2, 2.5, -0.5} + regularisation constants 1e-10 / 4e-10 / 3+1e-10 in well-conditioned positions, every "
        "handled opcode, same depth scheme. points (x,y) in {-7.5,-1.25,0.5,2,3.75}^2, points outside the real domain of the source skipped by the reference. "
        "user functions named by every fragment (<= 3 letters) of a built-in name; variables named like cse temporaries; constant pairs agreeing to 6+ digits in 5 operator shapes; all ordered pairs of 4 guard shapes x 4 conditions under + * -; a shared table with short-lived variables; two conversions in two threads with <= 2 preemptions (quick: call granularity). non-trivial = tree contains a symbol and at least one operator; distinct by structural representation (srepr / str)")
ASSUMPTIONS = ["mpmath evaluation of the SymPy source (30 digits) and CasADi evaluation of the SX source are the reference values",
               "a raised exception counts as an explicit refusal (allowed by the property); silent alteration is the violation"]
PTS = [-7.5, -1.25, 0.5, 2.0, 3.75]

_S = {}


def symb():
    if not _S:
        with contextlib.redirect_stdout(io.StringIO()):
            from cyecca import symbolic
        _S["m"] = symbolic
    return _S["m"]


def bounds(tier):
    return dict(depth=2, binary_depth2="full reduced set" if tier == "thorough" else "depth-1 x leaf")


# ------------------------------------------------------------------------------------------------------
# sympy -> casadi
# ------------------------------------------------------------------------------------------------------
X, Y = sympy.symbols("x y")


def sp_leaves():
    return [X, Y, sympy.Integer(2), sympy.Integer(-3), sympy.Rational(1, 3), sympy.Rational(1, 2), sympy.Integer(1), sympy.Integer(0), sympy.Integer(-1),
            sympy.Float(2.5), sympy.Float(0.75), sympy.Float(-1e-3)]


SP_UN = [("sq", lambda a: a ** 2), ("inv", lambda a: a ** -1), ("sqrt", lambda a: sympy.sqrt(a)), ("sin", sympy.sin), ("cos", sympy.cos), ("tan", sympy.tan), ("atan", sympy.atan),
         ("neg", lambda a: -a), ("exp", sympy.exp), ("rsqrt", lambda a: a ** sympy.Rational(-1, 2)), ("cbrt", lambda a: a ** sympy.Rational(1, 3))]
SP_BI = [("add", lambda a, b: a + b), ("mul", lambda a, b: a * b), ("pow", lambda a, b: a ** b), ("sub", lambda a, b: a - b), ("div", lambda a, b: a / b)]


def sp_trees(tier, part, nparts):
    L = sp_leaves()
    seen, out = set(), []

    def add(e, depth):
        try:
            k = sympy.srepr(e)
        except Exception:
            return
        if k in seen or e in (sympy.zoo, sympy.nan, sympy.oo, -sympy.oo) or e.has(sympy.zoo, sympy.nan, sympy.oo, sympy.I):
            return
        seen.add(k)
        out.append((e, depth))
    for l in L:
        add(l, 0)
    d1 = []
    for nm, f in SP_UN:
        for l in L:
            with contextlib.suppress(Exception):
                e = f(l)
                d1.append(e)
                add(e, 1)
    for nm, f in SP_BI:
        for a, b in itertools.product(L, L):
            with contextlib.suppress(Exception):
                e = f(a, b)
                d1.append(e)
                add(e, 1)
    d1u = [e for e, d in out if d == 1]
    for nm, f in SP_UN:
        for e in d1u:
            with contextlib.suppress(Exception):
                add(f(e), 2)
    red = d1u[:: 5] if tier == "thorough" else []
    L2 = L if tier == "thorough" else [X, sympy.Float(2.5), sympy.Rational(1, 3), sympy.Integer(-3)]
    d1b = d1u if tier == "thorough" else d1u[::3]
    for nm, f in SP_BI:
        for e in d1b:
            for l in L2:
                with contextlib.suppress(Exception):
                    add(f(e, l), 2)
                with contextlib.suppress(Exception):
                    add(f(l, e), 2)
        for a, b in itertools.product(red, red):
            with contextlib.suppress(Exception):
                add(f(a, b), 2)
    return out[part::nparts]


_SUBF = {}


def sub_real(expr, xv, yv):
    """are all sub-expressions of the source real and finite at the point (the real domain of the source)"""
    k = sympy.srepr(expr)
    if any(abs(float(f)) > 1e300 for f in expr.atoms(sympy.Float)):
        return False
    if k not in _SUBF:
        subs = [e for e in sympy.preorder_traversal(expr) if not e.is_Atom]
        try:
            _SUBF[k] = sympy.lambdify((X, Y), subs, "mpmath") if subs else None
        except Exception:
            _SUBF[k] = None
        if len(_SUBF) > 4000:
            _SUBF.clear()
    f = _SUBF.get(k)
    if f is None:
        return True
    try:
        with mpmath.workdps(30):
            for v in f(mpmath.mpf(xv), mpmath.mpf(yv)):
                if isinstance(v, (bool, sympy.logic.boolalg.BooleanAtom)):
                    continue
                v = mpmath.mpmathify(v)
                if isinstance(v, mpmath.mpc) and abs(v.imag) > 0:
                    return False
                if not mpmath.isfinite(v) or abs(v) > 1e300:
                    return False  # beyond the range of double precision constants / intermediates
    except Exception:
        return False
    return True


def mp_value(expr, xv, yv):
    """reference value of a SymPy expression; None if outside the real domain"""
    if not sub_real(expr, xv, yv):
        return None
    try:
        f = sympy.lambdify((X, Y), expr, "mpmath")
        with mpmath.workdps(30):
            v = f(mpmath.mpf(xv), mpmath.mpf(yv))
            if isinstance(v, (bool, sympy.logic.boolalg.BooleanAtom)):
                return float(bool(v))
            v = mpmath.mpmathify(v)
            if isinstance(v, mpmath.mpc):
                if abs(v.imag) > 1e-25:
                    return None
                v = v.real
            if not mpmath.isfinite(v):
                return None
            return float(v)
    except Exception:
        return None


def ca_eval(e_ca, symbols, xv, yv):
    if isinstance(e_ca, complex):
        return None
    if isinstance(e_ca, (int, float)):
        return float(e_ca)
    sx = symbols.get("x", ca.SX.sym("x"))
    sy = symbols.get("y", ca.SX.sym("y"))
    f = ca.Function("f", [sx, sy], [ca.SX(e_ca)])
    return np.array(f(xv, yv), dtype=float)


def explore_sp(case):
    tier, part, nparts = case["tier"], case["part"], case["nparts"]
    res = core.Result()
    S = symb()
    trees = sp_trees(tier, part, nparts)
    for e, depth in trees:
        res.count("evaluations")
        res.count("programs")
        key = sympy.srepr(e)
        if e.free_symbols and depth > 0:
            res.nontrivial.add(hash(key))
        symbols = {}
        try:
            with contextlib.redirect_stdout(io.StringIO()):
                e_ca, symbols = S.sympy_to_casadi(e, symbols=symbols)
        except Exception as ex:
            res.count("refused")
            res.add_set("refused_types", type(ex).__name__)
            continue
        bad_names = [n for n in symbols if n not in ("x", "y")]
        if bad_names or any(not isinstance(v, ca.SX) for v in symbols.values()):
            res.fail(site="sympy_to_casadi", clause="symbol_table_consistent", cls="-", detail=dict(expr=str(e), symbols=list(symbols)), sub="sp", case=case)
        types = sorted(set(type(a).__name__ for a in sympy.preorder_traversal(e)))
        cls = "Float" if e.has(sympy.Float) else ("Rational" if any(isinstance(a, sympy.Rational) and not a.is_Integer for a in sympy.preorder_traversal(e)) else "other")
        try:
            fca = None
            if not isinstance(e_ca, (int, float, complex)):
                sx = symbols.get("x", ca.SX.sym("x"))
                sy = symbols.get("y", ca.SX.sym("y"))
                fca = ca.Function("f", [sx, sy], [ca.SX(e_ca)])
        except Exception as ex:
            res.fail(site="sympy_to_casadi", clause="result_is_a_function_of_its_symbols", cls=cls, detail=dict(expr=str(e), error=str(ex)[:200]), sub="sp", case=case)
            continue
        pts = list(itertools.product(PTS, PTS)) if (depth < 2 or tier == "thorough") else list(itertools.product(PTS[::2], PTS[::2]))
        if not e.free_symbols:
            pts = pts[:1]
        for xv, yv in pts:
            want = mp_value(e, xv, yv)
            if want is None or abs(want) > 1e100:
                res.count("outside_domain")
                continue
            if isinstance(e_ca, complex):
                break
            try:
                got = float(e_ca) if fca is None else float(np.array(fca(xv, yv)).reshape(-1)[0])
            except OverflowError:
                got = float("inf")
            res.count("traces_validated_against_impl")
            res.outcomes.add(hash(round(want, 9)))
            if not (math.isfinite(got) and abs(got - want) <= 1e-9 * max(1.0, abs(want))):
                res.fail(site="sympy_to_casadi", clause="value_preserved", cls=cls, detail=dict(expr=str(e), srepr=key, x=xv, y=yv, converted=got, source=want, node_types=types),
                         sub="sp", case=case)
                break
    res.samples.append(dict(direction="sympy->casadi", trees=len(trees), example=str(trees[len(trees) // 2][0]) if trees else None))
    return res


def explore_sp_special(case):
    """matrices, user supplied function map, cse wrapper, shared symbol tables"""
    res = core.Result()
    S = symb()
    L = [X, Y, sympy.Rational(1, 3), sympy.Float(2.5), sympy.Integer(-3)]
    base = [X + Y, X * Y, sympy.sin(X) * Y + sympy.Rational(1, 3), X ** 2 + sympy.Float(0.75) * Y, sympy.sqrt(X ** 2 + 1), (X + 2) ** -1, sympy.cos(X + Y) ** 2]
    # matrices 2x2 of all ordered choices from base[:4] (complete)
    for a, b, c, d in itertools.product(base[:4], repeat=4):
        Mx = sympy.Matrix([[a, b], [c, d]])
        res.count("evaluations")
        res.nontrivial.add(hash(sympy.srepr(Mx)))
        try:
            with contextlib.redirect_stdout(io.StringIO()):
                e_ca, symbols = S.sympy_to_casadi(Mx)
        except Exception as ex:
            res.count("refused")
            continue
        f = ca.Function("f", [symbols.get("x", ca.SX.sym("x")), symbols.get("y", ca.SX.sym("y"))], [ca.densify(ca.SX(e_ca))])
        for xv, yv in ((0.5, 2.0), (-1.25, 3.75)):
            got = np.array(f(xv, yv), dtype=float)
            want = np.array(Mx.subs({X: xv, Y: yv}).evalf(20), dtype=float)
            if got.shape != want.shape or np.max(np.abs(got - want)) > 1e-9 * (1 + np.max(np.abs(want))):
                res.fail(site="sympy_to_casadi", clause="matrix_value_preserved", cls="Matrix", detail=dict(expr=str(Mx), x=xv, y=yv, converted=got, source=want), sub="special", case=case)
                break
    # cse wrapper and function dictionary
    g = sympy.Function("g")
    h = sympy.Function("h")
    f_dict = {"g": lambda a: ca.sin(a) + 1, "h": lambda a: 3 * a}
    f_ref = {"g": lambda a: sympy.sin(a) + 1, "h": lambda a: 3 * a}
    for e in base:
        for variant in ("cse", "g", "h", "g_then_h"):
            res.count("evaluations")
            res.nontrivial.add(hash((sympy.srepr(e), variant)))
            src = e
            kw = {}
            if variant == "cse":
                src = e * e + sympy.sin(e)
                kw["cse"] = True
                refe = src
            elif variant == "g":
                src = g(e) + 1
                refe = f_ref["g"](e) + 1
                kw["f_dict"] = f_dict
            elif variant == "h":
                src = h(e) * X
                refe = f_ref["h"](e) * X
                kw["f_dict"] = f_dict
            else:
                src = h(g(e))
                refe = f_ref["h"](f_ref["g"](e))
                kw["f_dict"] = f_dict
            try:
                with contextlib.redirect_stdout(io.StringIO()):
                    e_ca, symbols = S.sympy_to_casadi(src, **kw)
            except Exception:
                res.count("refused")
                continue
            extra = [n for n in symbols if n not in ("x", "y")]
            if extra:
                res.fail(site="sympy_to_casadi", clause="symbol_table_consistent", cls=variant, detail=dict(expr=str(src), symbols=list(symbols)), sub="special", case=case)
                continue
            try:
                f = ca.Function("f", [symbols.get("x", ca.SX.sym("x")), symbols.get("y", ca.SX.sym("y"))], [ca.SX(e_ca)])
            except Exception as ex:
                res.fail(site="sympy_to_casadi", clause="result_is_a_function_of_its_symbols", cls=variant, detail=dict(expr=str(src), error=str(ex)[:200]), sub="special", case=case)
                continue
            for xv, yv in ((0.5, 2.0), (-1.25, 3.75), (2.0, -7.5)):
                want = mp_value(refe, xv, yv)
                if want is None:
                    continue
                got = float(np.array(f(xv, yv)).reshape(-1)[0])
                if not (math.isfinite(got) and abs(got - want) <= 1e-9 * max(1, abs(want))):
                    res.fail(site="sympy_to_casadi", clause="value_preserved", cls=variant, detail=dict(expr=str(src), x=xv, y=yv, converted=got, source=want), sub="special", case=case)
                    break
    # history independence: a function map given to one call must not leak into later calls
    sat = sympy.Function("sat")
    with contextlib.redirect_stdout(io.StringIO()):
        try:
            S.sympy_to_casadi(sat(X) + 1, f_dict={"sat": lambda a: ca.fmin(a, 1), "g": lambda a: 5 * a})
        except Exception:
            pass
    res.count("evaluations")
    try:
        with contextlib.redirect_stdout(io.StringIO()):
            e_ca, symbols = S.sympy_to_casadi(sat(X) + 1)
        res.fail(site="sympy_to_casadi", clause="unsupported_construct_raises", cls="f_dict_sequence",
                 detail=dict(expr="sat(x) + 1", note="converted without a function map after an earlier call had one", result=str(e_ca)), sub="special", case=case)
    except Exception:
        res.count("refused")
    with contextlib.redirect_stdout(io.StringIO()):
        e_ca, symbols = S.sympy_to_casadi(sympy.sin(X) + sympy.cos(X) / 2)
    if "x" not in symbols:
        res.fail(site="sympy_to_casadi", clause="symbol_table_consistent", cls="f_dict_sequence", detail=dict(expr="sin(x) + cos(x)/2", symbols=list(symbols)), sub="special", case=case)
        return res
    got = float(np.array(ca.Function("f", [symbols["x"]], [ca.SX(e_ca)])(2.3)).reshape(-1)[0])
    res.count("evaluations")
    if abs(got - (math.sin(2.3) + math.cos(2.3) / 2)) > 1e-12:
        res.fail(site="sympy_to_casadi", clause="value_preserved", cls="f_dict_sequence", detail=dict(expr="sin(x) + cos(x)/2", x=2.3, converted=got), sub="special", case=case)
    # shared symbol table across calls: the same name maps to the same variable
    table = {}
    with contextlib.redirect_stdout(io.StringIO()):
        e1, table = S.sympy_to_casadi(X + Y, symbols=table)
        x_first = table["x"]
        e2, table = S.sympy_to_casadi(X * X - sympy.sin(X), symbols=table)
    res.count("evaluations")
    if not ca.is_equal(table["x"], x_first) or len(table) != 2 or ca.symvar(ca.SX(e2))[0].name() != "x" or len(ca.symvar(ca.SX(e2))) != 1 \
            or not ca.is_equal(ca.symvar(ca.SX(e2))[0], x_first):
        res.fail(site="sympy_to_casadi", clause="symbol_table_consistent", cls="shared_table", detail=dict(table=list(table)), sub="special", case=case)
    # a caller-owned (initially empty) table passed to several conversions without re-binding must be filled in place
    own = {}
    with contextlib.redirect_stdout(io.StringIO()):
        f1, _ = S.sympy_to_casadi(X + Y, symbols=own)
        f2, _ = S.sympy_to_casadi(X * X - Y, symbols=own)
    res.count("evaluations")
    vars_ = ca.symvar(ca.SX(f1) + ca.SX(f2))
    if sorted(own) != ["x", "y"] or len(vars_) != 2 or not all(any(ca.is_equal(v, own[k]) for k in own) for v in vars_):
        res.fail(site="sympy_to_casadi", clause="symbol_table_consistent", cls="caller_owned_table", detail=dict(table=list(own), variables=[v.name() for v in vars_]), sub="special", case=case)
    # nested common sub-expressions through the cse path
    u_ = (X + Y) ** 2 + 1
    for src in (u_ ** 2 + sympy.sin(u_) + (X + Y), sympy.cos((X * Y + 2) ** 2) * (X * Y + 2) + ((X * Y + 2) ** 2) ** 2):
        res.count("evaluations")
        res.nontrivial.add(hash(sympy.srepr(src)))
        try:
            with contextlib.redirect_stdout(io.StringIO()):
                e_ca, symbols = S.sympy_to_casadi(src, cse=True)
        except Exception:
            res.count("refused")
            continue
        leftover = [n for n in symbols if n not in ("x", "y")]
        free = [v.name() for v in ca.symvar(ca.SX(e_ca))]
        # the table must hold exactly the variables of the source, and every free variable of the result must be the table's object
        missing = [n for n in ("x", "y") if n not in symbols]
        foreign = [v.name() for v in ca.symvar(ca.SX(e_ca)) if not any(ca.is_equal(v, symbols[k]) for k in symbols)]
        if leftover or missing or foreign or any(n not in ("x", "y") for n in free):
            res.fail(site="sympy_to_casadi", clause="symbol_table_consistent", cls="cse_nested", detail=dict(expr=str(src), symbols=list(symbols), free=free, missing=missing, not_in_table=foreign),
                     sub="special", case=case)
            continue
        f = ca.Function("f", [symbols["x"], symbols["y"]], [ca.SX(e_ca)])
        for xv, yv in ((0.5, 2.0), (-1.25, 3.75)):
            want = mp_value(src, xv, yv)
            got = float(np.array(f(xv, yv)).reshape(-1)[0])
            if want is not None and not abs(got - want) <= 1e-9 * max(1, abs(want)):
                res.fail(site="sympy_to_casadi", clause="value_preserved", cls="cse_nested", detail=dict(expr=str(src), x=xv, y=yv, converted=got, source=want), sub="special", case=case)
                break
    # reverse direction table
    a, b = ca.SX.sym("a"), ca.SX.sym("b")
    syms = {}
    s1 = S.casadi_to_sympy(a + b * a, syms)
    s2 = S.casadi_to_sympy(ca.sin(a) - b, syms)
    res.count("evaluations")
    if len(syms) != 2 or len(s1.free_symbols | s2.free_symbols) != 2:
        res.fail(site="casadi_to_sympy", clause="symbol_table_consistent", cls="shared_table", detail=dict(table=[str(k) for k in syms]), sub="special", case=case)
    # matrices in the reverse direction, dense and with structural zeros (identity, diagonal, triangular, a Jacobian): entry (i, j) of the
    # SymPy matrix is the conversion of entry (i, j)
    a, b = ca.SX.sym("a"), ca.SX.sym("b")
    dense = ca.vertcat(ca.horzcat(a + b, a * b, ca.sin(a)), ca.horzcat(b - 1, 2.5 * a, ca.cos(b)))
    tri = ca.tril(ca.vertcat(ca.horzcat(a, b, a), ca.horzcat(b * b, a + 1, b), ca.horzcat(a * b, 3 + b, a - b)))
    sp5 = ca.SX(5, 5)
    for (i, j, e) in ((0, 0, a), (1, 3, b), (2, 1, a * b), (4, 0, a - 2), (3, 4, ca.exp(b)), (4, 4, a + b)):
        sp5[i, j] = e
    mats = [("dense", dense), ("identity_scaled", ca.SX.eye(3) * a), ("diag", ca.diag(ca.vertcat(a, b, a * b))), ("tril", tri),
            ("jacobian", ca.jacobian(ca.vertcat(a * b, ca.sin(a), b * b, a + 2 * b), ca.vertcat(a, b))), ("scattered", sp5),
            ("numeric_sparse", ca.SX(ca.sparsify(ca.DM([[0, 2.5, 0], [0, 0, -1.5]])))), ("row", ca.horzcat(a, 0, b)), ("column", ca.vertcat(0, a, 0, b))]
    for tag, Mx in mats:
        res.count("evaluations")
        res.nontrivial.add(hash("camat" + tag))
        try:
            with contextlib.redirect_stdout(io.StringIO()):
                sm = S.casadi_to_sympy(Mx, {})
        except Exception as ex:
            res.fail(site="casadi_to_sympy", clause="value_preserved", cls="matrix;" + tag, detail=dict(error="%s: %s" % (type(ex).__name__, str(ex)[:200])), sub="special", case=case)
            continue
        want = np.array(ca.Function("m", [a, b], [ca.densify(Mx)])(0.7, -1.3), dtype=float)
        try:
            sm = sympy.Matrix(sm)
            subs = {s_: (0.7 if str(s_) == "a" else -1.3) for s_ in sm.free_symbols}
            got = np.array(sm.subs(subs).evalf(17).tolist(), dtype=float)
        except Exception as ex:
            res.fail(site="casadi_to_sympy", clause="value_preserved", cls="matrix;" + tag, detail=dict(result=str(sm)[:200], error="%s: %s" % (type(ex).__name__, str(ex)[:200])), sub="special", case=case)
            continue
        if got.shape != want.shape or np.max(np.abs(got - want)) > 1e-12 * (1 + np.max(np.abs(want))):
            res.fail(site="casadi_to_sympy", clause="value_preserved", cls="matrix;" + tag, detail=dict(converted=got, source=want), sub="special", case=case)
    # represent or refuse: constructs beyond the documented set must either raise or convert with the value preserved (never silently altered)
    X_, Y_ = sympy.Symbol("x"), sympy.Symbol("y")
    beyond = [sympy.Max(X_, Y_, 1), sympy.Min(X_, Y_, 2, 3), sympy.Max(X_, Y_), sympy.Min(X_, 2), sympy.Abs(X_ - Y_), sympy.sign(X_ * Y_), sympy.floor(X_ / 2), sympy.ceiling(Y_),
              sympy.Heaviside(X_ - 1), sympy.Piecewise((X_, X_ > Y_), (Y_ ** 2, True)), sympy.Mod(X_ + 7, 3), sympy.erf(X_), sympy.gamma(X_ + 3), sympy.atan2(Y_, X_), sympy.sinh(X_) * sympy.cosh(Y_),
              sympy.tanh(X_ + Y_), sympy.asinh(X_), sympy.acosh(X_ + 3), sympy.log(X_ + 5, 2), sympy.exp(X_) ** Y_, sympy.Max(X_, Y_, X_ * Y_, -1), sympy.Min(sympy.Max(X_, 0), 1, Y_ + 4),
              sympy.root(X_ + 5, 3), sympy.sec(X_), sympy.cot(X_ + 2), sympy.Rational(2, 7) * X_ + sympy.pi * Y_ - sympy.E, sympy.LambertW(X_ + 2), sympy.sinc(X_)]
    for src in beyond:
        res.count("evaluations")
        res.nontrivial.add(hash("beyond" + sympy.srepr(src)))
        try:
            with contextlib.redirect_stdout(io.StringIO()):
                e_ca, symbols = S.sympy_to_casadi(src)
        except Exception:
            res.count("refused")
            continue
        try:
            fx = ca.Function("f", [symbols.get("x", ca.SX.sym("x")), symbols.get("y", ca.SX.sym("y"))], [ca.SX(e_ca)])
        except Exception as ex:
            res.fail(site="sympy_to_casadi", clause="unsupported_construct_raises_or_is_preserved", cls=type(src).__name__, detail=dict(expr=str(src), error="%s: %s" % (type(ex).__name__, str(ex)[:200])), sub="special", case=case)
            continue
        for xv, yv in ((0.5, 2.0), (-1.25, 3.75), (2.5, -0.75), (4.0, 0.25)):
            want = mp_value(src, xv, yv)
            got = float(np.array(fx(xv, yv)).reshape(-1)[0])
            if want is not None and math.isfinite(want) and not abs(got - want) <= 1e-9 * max(1, abs(want)):
                res.fail(site="sympy_to_casadi", clause="unsupported_construct_raises_or_is_preserved", cls=type(src).__name__, detail=dict(expr=str(src), x=xv, y=yv, converted=got, source=want), sub="special", case=case)
                break
    # guarded expressions evaluated exactly where the guard is false and the guarded branch is singular (CasADi's if_else yields the other
    # branch there; a translation as a product would give 0 * oo): the library's own small-angle switches among them
    a, b = ca.SX.sym("a"), ca.SX.sym("b")
    guarded = [("a_over_b_or_0", ca.if_else(ca.ne(b, 0), a / b, 0), [(1.5, 0.0), (0.0, 0.0), (2.0, 4.0)]),
               ("xlogx", ca.if_else(a > 0, a * ca.log(a), 0), [(0.0, 1.0), (-1.0, 1.0), (2.0, 1.0)]),
               ("sinc_guard", ca.if_else(ca.fabs(a) < 1e-3, 1 - a * a / 6, ca.sin(a) / a), [(0.0, 0.0), (1e-4, 0.0), (0.5, 0.0)]),
               ("nested", ca.if_else(a > 1, ca.sqrt(a - 1), ca.if_else(a < -1, 1 / (a + 1) , 2.0)) + b, [(1.0, 0.5), (-1.0, 0.5), (0.0, 0.5), (5.0, 0.5), (-3.0, 0.5)])]
    with contextlib.redirect_stdout(io.StringIO()):
        from cyecca.symbolic import SERIES, SQUARED_SERIES
    for nm in ("sin(x)/x", "(1 - cos(x))/x^2", "(x - sin(x))/x^3"):
        if nm in SERIES:
            guarded.append(("SERIES[%s]" % nm, 2 * SERIES[nm](a) + 1, [(0.0, 0.0), (1e-4, 0.0), (0.3, 0.0)]))
        if nm in SQUARED_SERIES:
            guarded.append(("SQUARED_SERIES[%s]" % nm, SQUARED_SERIES[nm](a) - b, [(0.0, 0.25), (1e-7, 0.25), (0.09, 0.25)]))
    for tag, ex, pts in guarded:
        try:
            with contextlib.redirect_stdout(io.StringIO()):
                sm = S.casadi_to_sympy(ex, {})
        except NotImplementedError:
            res.count("refused")
            continue
        except Exception as ex_:
            res.count("evaluations")
            res.fail(site="casadi_to_sympy", clause="value_preserved", cls="guarded;" + tag, detail=dict(error="%s: %s" % (type(ex_).__name__, str(ex_)[:200])), sub="special", case=case)
            continue
        fnum = ca.Function("g", [a, b], [ex])
        for av, bv in pts:
            res.count("evaluations")
            res.nontrivial.add(hash(("guarded", tag, av, bv)))
            want = float(fnum(av, bv))
            try:
                subs = {s_: (av if str(s_) == "a" else bv) for s_ in sm.free_symbols}
                got = complex(sympy.N(sm.subs(subs), 17))
                got = got.real if abs(got.imag) < 1e-30 else float("nan")
            except Exception:
                got = float("nan")
            if not (math.isfinite(want) and abs(got - want) <= 1e-12 * (1 + abs(want))):
                if math.isfinite(want):
                    res.fail(site="casadi_to_sympy", clause="value_preserved", cls="guarded;" + tag, detail=dict(a=av, b=bv, converted=got, source=want, sympy=str(sm)[:200]), sub="special", case=case)
    # a caller-supplied table for a MATRIX expression: the entries must use the table's symbols (the conversion of entry (i, j) gets the table)
    for tag, Mx in (("jacobian", ca.jacobian(ca.vertcat(a * ca.cos(b), a * ca.sin(b)), ca.vertcat(a, b))), ("column", ca.vertcat(a + b, a * b, b))):
        for names in (("a", "b"), ("b", "a")):  # the second table permutes the names
            res.count("evaluations")
            res.nontrivial.add(hash(("camat_table", tag, names)))
            r_, th_ = sympy.Symbol("r_table", positive=True), sympy.Symbol("theta_table", real=True)
            table = {names[0]: r_, names[1]: th_}
            key_style = None
            for mk_key in (lambda sx: str(sx), lambda sx: sx):
                tb = {}
                try:
                    for sx, nm in ((a, "a"), (b, "b")):
                        tb[mk_key(sx)] = table[nm]
                    with contextlib.redirect_stdout(io.StringIO()):
                        probe = S.casadi_to_sympy(a + b, dict(tb))
                    if probe.free_symbols <= {r_, th_}:
                        key_style = mk_key
                        break
                except Exception:
                    continue
            if key_style is None:
                res.count("table_key_style_unknown")
                continue
            tb = {key_style(a): table["a"], key_style(b): table["b"]}
            try:
                with contextlib.redirect_stdout(io.StringIO()):
                    sm = sympy.Matrix(S.casadi_to_sympy(Mx, tb))
            except Exception as ex:
                res.fail(site="casadi_to_sympy", clause="symbol_table_consistent", cls="matrix_with_table", detail=dict(error="%s: %s" % (type(ex).__name__, str(ex)[:200])), sub="special", case=case)
                continue
            stray = [str(x) for x in sm.free_symbols if x not in (r_, th_)]
            want = np.array(ca.Function("m", [a, b], [ca.densify(Mx)])(0.7, -1.3), dtype=float)
            val = {table["a"]: 0.7, table["b"]: -1.3}
            got = np.array(sm.subs(val).evalf(17).tolist(), dtype=float) if not stray else None
            if stray or got.shape != want.shape or np.max(np.abs(got - want)) > 1e-12:
                res.fail(site="casadi_to_sympy", clause="symbol_table_consistent", cls="matrix_with_table", detail=dict(matrix=tag, names=list(names), stray_symbols=stray, converted=got, source=want),
                         sub="special", case=case)
    # names.  (i) a user function may be called anything, in particular something that is a fragment of a built-in's name;
    # (ii) the caller's variables may be called like the temporaries of sympy.cse or like anything else;  (iii) in the reverse
    # direction two different sub-expressions may PRINT alike (constants agreeing to six digits, two symbols of the same name)
    builtins_ = ["sin", "cos", "tan", "asin", "acos", "atan", "atan2", "exp", "log", "sqrt", "Abs", "sign", "Pow", "Add", "Mul", "Max", "Min"]
    fn_names = sorted({b[i:j] for b in builtins_ for i in range(len(b)) for j in range(i + 1, min(len(b), i + 3) + 1)} - set(builtins_)) + ["f", "sinc2", "my_sin", "cosine"]
    for nm in fn_names:
        if not nm.isidentifier():
            continue
        res.count("evaluations")
        res.nontrivial.add(hash(("fn_name", nm)))
        uf = sympy.Function(nm)
        src = uf(X) * 2 + Y
        try:
            with contextlib.redirect_stdout(io.StringIO()):
                e_ca, symbols = S.sympy_to_casadi(src, f_dict={nm: lambda a_: 3 * a_ + 1})
            fx = ca.Function("f", [symbols.get("x", ca.SX.sym("x")), symbols.get("y", ca.SX.sym("y"))], [ca.SX(e_ca)])
        except Exception as ex:
            res.fail(site="sympy_to_casadi", clause="user_function_map_is_applied", cls="raises", detail=dict(function_name=nm, error="%s: %s" % (type(ex).__name__, str(ex)[:200])), sub="special", case=case)
            continue
        for xv, yv in ((0.5, 2.0), (-1.25, 3.75)):
            got = float(np.array(fx(xv, yv)).reshape(-1)[0])
            want = 2 * (3 * xv + 1) + yv
            if not abs(got - want) <= 1e-12 * max(1, abs(want)):
                res.fail(site="sympy_to_casadi", clause="user_function_map_is_applied", cls="value", detail=dict(function_name=nm, x=xv, y=yv, converted=got, source=want), sub="special", case=case)
                break
    var_names = [("x0", "x1", "x2"), ("x1", "x0", "y"), ("x", "x0", "x10"), ("_x0", "x_0", "x00"), ("a", "t", "n"), ("s", "c", "e"), ("X", "Y", "x"), ("lambda_", "pi_", "Pi"), ("k", "v", "f")]
    for names in var_names:
        s0, s1, s2 = [sympy.Symbol(n) for n in names]
        u_ = (s0 + s1) ** 2 + 1
        for tag, src, kw in (("plain", sympy.sin(s0) * s1 + s2 ** 2, {}), ("cse", u_ ** 2 + sympy.sin(u_) + s2 * (s0 + s1), dict(cse=True)),
                             ("cse_no_common", s0 + 2 * s1 - s2, dict(cse=True))):
            res.count("evaluations")
            res.nontrivial.add(hash(("var_names", names, tag)))
            try:
                with contextlib.redirect_stdout(io.StringIO()):
                    e_ca, symbols = S.sympy_to_casadi(src, **kw)
            except Exception as ex:
                res.fail(site="sympy_to_casadi", clause="symbol_table_consistent", cls="names;raises", detail=dict(names=names, variant=tag, error="%s: %s" % (type(ex).__name__, str(ex)[:200])), sub="special", case=case)
                continue
            free = ca.symvar(ca.SX(e_ca))
            foreign = [v.name() for v in free if not any(ca.is_equal(v, symbols[k]) for k in symbols)]
            if sorted(symbols) != sorted(names) or foreign:
                res.fail(site="sympy_to_casadi", clause="symbol_table_consistent", cls="names;" + tag, detail=dict(names=names, table=sorted(symbols), free=[v.name() for v in free], not_in_table=foreign), sub="special", case=case)
                continue
            vals = (0.5, 2.0, -1.25)
            got = float(np.array(ca.Function("f", [symbols[n] for n in names], [ca.SX(e_ca)])(*vals)).reshape(-1)[0])
            want = float(src.subs(dict(zip((s0, s1, s2), vals))).evalf(20))
            if not abs(got - want) <= 1e-11 * max(1, abs(want)):
                res.fail(site="sympy_to_casadi", clause="value_preserved", cls="names;" + tag, detail=dict(names=names, converted=got, source=want), sub="special", case=case)
    a, b = ca.SX.sym("a"), ca.SX.sym("b")
    near = [(1234567.25, 1234567.75), (3 + 1e-10, 3.0), (0.12345671, 0.12345679), (1e-10, 1.00000001e-10), (-2.5000001, -2.5)]
    alike = []
    for c1, c2 in near:
        for utag, uf_ in (("mul", lambda v, c: v * c), ("add", lambda v, c: v + c), ("sin", lambda v, c: ca.sin(v * c)), ("div", lambda v, c: c / (v + 3)), ("pow", lambda v, c: (v + 3) ** c)):
            alike.append(("%s;%r;%r" % (utag, c1, c2), uf_(a, c1) - uf_(a, c2) + b * uf_(a, c2), [a, b]))
    # (two CasADi variables of one name are one SymPy symbol by the property's own wording: "the same symbol name always maps to the same
    # variable"; not explored)
    for tag, ex, vars_ in alike:
        res.count("evaluations")
        res.nontrivial.add(hash(("alike", tag)))
        try:
            with contextlib.redirect_stdout(io.StringIO()):
                table = {}
                sm = S.casadi_to_sympy(ex, table)
        except NotImplementedError:
            res.count("refused")
            continue
        except Exception as ex_:
            res.fail(site="casadi_to_sympy", clause="value_preserved", cls="alike;raises", detail=dict(expr=tag, error="%s: %s" % (type(ex_).__name__, str(ex_)[:200])), sub="special", case=case)
            continue
        fnum = ca.Function("g", vars_, [ex])
        for av, bv in ((0.7, -1.3), (2.0, 0.5)):
            want = float(fnum(av, bv))
            subs = {s_: (av if str(s_) == "a" else bv) for s_ in sm.free_symbols}
            try:
                got = float(sympy.N(sm.subs(subs), 30))
            except Exception:
                got = float("nan")
            # the source is evaluated in double by CasADi, the result in 30 digits: the comparison allows the double rounding of the source
            tol = 1e-9 * abs(want) + 4e-16 * max(abs(c) for c in (1.0,) + tuple(float(x) for x in tag.split(";")[1:3] if x)) * 10
            if not (math.isfinite(got) and abs(got - want) <= tol):
                res.fail(site="casadi_to_sympy", clause="value_preserved", cls="alike;" + tag.split(";")[0], detail=dict(expr=tag, a=av, b=bv, converted=got, source=want, sympy=str(sm)[:200]), sub="special", case=case)
                break
    # two guarded terms with DIFFERENT conditions combined by an operator (a pattern matcher that re-assembles an if_else from a sum of
    # two if_else_zero terms must check that the conditions belong together): all ordered pairs of guard shapes x conditions, on points
    # that realise every combination of truth values
    a, b = ca.SX.sym("a"), ca.SX.sym("b")
    conds = [("a>b", lambda: a > b), ("a<0.5", lambda: a < 0.5), ("b>=1", lambda: b >= 1), ("a!=b", lambda: ca.ne(a, b))]
    shapes = [("x_else_y", lambda c: ca.if_else(c, a - b, 2 * b + 1)), ("x_else_0", lambda c: ca.if_else(c, a - b, 0)), ("0_else_y", lambda c: ca.if_else(c, 0, 0.8 * b + 3)),
              ("not_c", lambda c: ca.if_else(ca.logic_not(c), a * b, 1.5))]
    pts = [(0.2, -1.0), (0.2, 2.0), (0.75, 0.25), (0.75, 3.0), (2.0, 2.0), (-1.0, -1.0), (0.5, 1.0)]
    for (c1n, c1), (c2n, c2) in itertools.product(conds, repeat=2):
        if c1n == c2n:
            continue
        for (s1n, s1), (s2n, s2) in itertools.product(shapes, repeat=2):
            for opn, op in (("+", lambda u_, v_: u_ + v_), ("*", lambda u_, v_: u_ * v_), ("-", lambda u_, v_: u_ - v_)):
                res.count("evaluations")
                tag = "%s(%s) %s %s(%s)" % (s1n, c1n, opn, s2n, c2n)
                res.nontrivial.add(hash(("two_guards", tag)))
                ex = op(s1(c1()), s2(c2()))
                try:
                    with contextlib.redirect_stdout(io.StringIO()):
                        sm = S.casadi_to_sympy(ex, {})
                except NotImplementedError:
                    res.count("refused")
                    continue
                except Exception as ex_:
                    res.fail(site="casadi_to_sympy", clause="value_preserved", cls="two_guards;raises", detail=dict(expr=tag, error="%s: %s" % (type(ex_).__name__, str(ex_)[:200])), sub="special", case=case)
                    continue
                fnum = ca.Function("g", [a, b], [ex])
                for av, bv in pts:
                    want = float(fnum(av, bv))
                    try:
                        got = float(sympy.N(sm.subs({s_: (av if str(s_) == "a" else bv) for s_ in sm.free_symbols}), 17))
                    except Exception:
                        got = float("nan")
                    if not abs(got - want) <= 1e-12 * (1 + abs(want)):
                        res.fail(site="casadi_to_sympy", clause="value_preserved", cls="two_guards;" + opn, detail=dict(expr=tag, a=av, b=bv, converted=got, source=want, sympy=str(sm)[:200]), sub="special", case=case)
                        break
    # a caller's table shared by conversions whose CasADi variables do not live equally long: the first expression's variables are
    # dropped (and collected) before the second one's are created; the table must still map each name to its own symbol
    import gc

    def convert_temporaries(table, names):
        vs = [ca.SX.sym(n_) for n_ in names]
        e = vs[0] * 2 + ca.sin(vs[1]) - vs[0] * vs[1]
        with contextlib.redirect_stdout(io.StringIO()):
            return S.casadi_to_sympy(e, table), names
    for rounds in (2, 5):
        table = {}
        got_all = []
        ok = True
        for r_ in range(rounds):
            names = ["alpha%d" % r_, "beta%d" % r_]
            try:
                sm, _ = convert_temporaries(table, names)
            except Exception as ex_:
                res.count("evaluations")
                res.fail(site="casadi_to_sympy", clause="symbol_table_consistent", cls="short_lived_variables;raises", detail=dict(error="%s: %s" % (type(ex_).__name__, str(ex_)[:200])), sub="special", case=case)
                ok = False
                break
            gc.collect()
            res.count("evaluations")
            res.nontrivial.add(hash(("short_lived", rounds, r_)))
            free = sorted(str(x) for x in sm.free_symbols)
            val = {x: (0.7 if str(x).startswith("alpha") else -1.3) for x in sm.free_symbols}
            got = float(sympy.N(sm.subs(val), 17)) if len(val) == 2 else float("nan")
            want = 0.7 * 2 + math.sin(-1.3) - 0.7 * -1.3
            if free != sorted(names) or not abs(got - want) <= 1e-12:
                res.fail(site="casadi_to_sympy", clause="symbol_table_consistent", cls="short_lived_variables", detail=dict(round=r_, names=names, free_symbols=free, converted=got, source=want, sympy=str(sm)[:200]), sub="special", case=case)
                break
    # two conversions in two threads, every interleaving of the converter's Python statements with at most one preemption: each returns
    # what it returns alone (its own function map, its own table)
    from .. import threads
    fA, fB = sympy.Function("fa"), sympy.Function("fb")
    # (small trees: two preemptions are needed to put one conversion inside the other - enter A, enter B, continue A - and the number of
    # schedules grows with the square of the number of statements executed)
    srcA = fA(X) ** fA(Y)
    srcB = fB(Y) - X
    dA = {"fa": lambda v: ca.tanh(v)}
    dB = {"fb": lambda v: 3 * v + 1}

    def conv(src, fd):
        def call():
            e_ca, symbols = S.sympy_to_casadi(src, f_dict=dict(fd))
            fx = ca.Function("f", [symbols.get("x", ca.SX.sym("x")), symbols.get("y", ca.SX.sym("y"))], [ca.SX(e_ca)])
            return (tuple(sorted(symbols)), tuple(round(float(fx(xv, yv)), 12) for xv, yv in ((0.5, 2.0), (1.25, 0.75))))
        return call
    cA, cB = conv(srcA, dA), conv(srcB, dB)
    _quiet = contextlib.redirect_stdout(io.StringIO())  # one redirection around the exploration, none inside the threads
    _quiet.__enter__()
    try:
        alone = [cA(), cB()]
        nrun = 0
        for choices, results, npts, capped in threads.explore([cA, cB], ("cyecca/symbolic.py",), 2, max_runs=(6000 if case.get("tier") != "thorough" else 20000),
                                                               granularity=("call" if case.get("tier") != "thorough" else "line")):
            if capped:
                res.counters["thread_schedules_capped"] += 1
                break
            nrun += 1
            res.count("evaluations")
            res.count("schedules")
            res.nontrivial.add(hash(("threads", tuple(choices))))
            bad = [k for k, r_ in enumerate(results) if r_ is None or r_[0] != "ok" or r_[1] != alone[k]]
            if bad:
                res.fail(site="sympy_to_casadi", clause="conversion_independent_of_a_concurrent_conversion", cls="threads", detail=dict(thread=bad[0], schedule=choices, got=str(results[bad[0]])[:200], alone=str(alone[bad[0]])), sub="special", case=case)
                break
    except Exception as ex_:  # a refusal of the constructs themselves is reported by the sequential checks
        res.count("refused")
    finally:
        _quiet.__exit__(None, None, None)
    res.samples.append(dict(special="matrices (both directions, dense and sparse, with a caller's table), cse, f_dict, shared tables, names, alike-printing sub-expressions, two guards, short-lived variables, two threads"))
    return res


# ------------------------------------------------------------------------------------------------------
# casadi -> sympy
# ------------------------------------------------------------------------------------------------------
CA_UN = [("neg", lambda a: -a), ("exp", ca.exp), ("log", ca.log), ("sqrt", ca.sqrt), ("sq", lambda a: a * a), ("twice", lambda a: 2 * a), ("sin", ca.sin), ("cos", ca.cos),
         ("tan", ca.tan), ("asin", ca.asin), ("acos", ca.acos), ("atan", ca.atan), ("floor", ca.floor), ("ceil", ca.ceil), ("fabs", ca.fabs), ("sign", ca.sign), ("erf", ca.erf),
         ("inv", lambda a: 1 / a), ("sinh", ca.sinh), ("cosh", ca.cosh), ("tanh", ca.tanh), ("asinh", ca.asinh), ("acosh", ca.acosh), ("atanh", ca.atanh), ("not", ca.logic_not)]
CA_BI = [("add", lambda a, b: a + b), ("sub", lambda a, b: a - b), ("mul", lambda a, b: a * b), ("div", lambda a, b: a / b), ("pow", lambda a, b: a ** b),
         ("lt", lambda a, b: a < b), ("le", lambda a, b: a <= b), ("eq", lambda a, b: ca.eq(a, b)), ("ne", lambda a, b: ca.ne(a, b)),
         ("and", ca.logic_and), ("or", ca.logic_or), ("fmod", ca.fmod), ("fmin", ca.fmin), ("fmax", ca.fmax), ("atan2", ca.atan2), ("remainder", ca.remainder),
         ("if_else_zero", lambda a, b: ca.if_else(a, b, 0)), ("copysign", ca.copysign)]


def ca_trees(tier, part, nparts):
    A, Bs = ca.SX.sym("a"), ca.SX.sym("b")
    L = [A, Bs, ca.SX(2), ca.SX(2.5), ca.SX(-0.5)]
    out, seen = [], set()

    def add(e, tag, depth):
        k = str(e)
        if k in seen:
            return
        seen.add(k)
        out.append((e, tag, depth))
    for l in L:
        add(l, "leaf", 0)
    d1 = []
    for nm, f in CA_UN:
        for l in L:
            with contextlib.suppress(Exception):
                e = f(l)
                d1.append((e, nm))
                add(e, nm, 1)
    for nm, f in CA_BI:
        for a, b in itertools.product(L, L):
            with contextlib.suppress(Exception):
                e = f(a, b)
                d1.append((e, nm))
                add(e, nm, 1)
    # constants that are tiny or within 1e-9 of an integer (regularisation constants), in well-conditioned positions only
    for cst in (1e-10, 4e-10, 3.0 + 1e-10):
        c = ca.SX(cst)
        for e, t in ((A * c, "mul_tiny"), (ca.sqrt(A * A + c), "sqrt_reg"), (A / (Bs * Bs + c), "div_reg"), (c - 3 + A * 0, "tiny_minus_int")):
            add(e, t, 1)
    d1u = [(e, t) for e, t, d in out if d == 1 and t not in ("mul_tiny", "sqrt_reg", "div_reg", "tiny_minus_int")]
    for nm, f in CA_UN:
        for e, t in d1u:
            with contextlib.suppress(Exception):
                add(f(e), nm + "(" + t + ")", 2)
    red = d1u[::7] if tier == "thorough" else []
    for nm, f in CA_BI:
        for e, t in d1u:
            for l in (L[:4] if tier == "thorough" else [L[0], L[3]]):
                with contextlib.suppress(Exception):
                    add(f(e, l), nm + "(" + t + ",leaf)", 2)
                with contextlib.suppress(Exception):
                    add(f(l, e), nm + "(leaf," + t + ")", 2)
        for (e1, t1), (e2, t2) in itertools.product(red, red):
            with contextlib.suppress(Exception):
                add(f(e1, e2), nm + "(" + t1 + "," + t2 + ")", 2)
    return A, Bs, out[part::nparts]


def sp_num(expr, syms_map, av, bv):
    """numeric value of the converted SymPy object at (a, b); Booleans as 0/1; None if not real / undefined"""
    def finish(v):
        if v in (sympy.true, sympy.false) or isinstance(v, bool):
            return float(bool(v))
        if isinstance(v, (int, float)):
            return float(v)
        c = complex(v)
        if abs(c.imag) > 1e-12 or not math.isfinite(c.real):
            return None
        return c.real
    try:
        subs = {s: (av if str(k) == "a" else bv) for k, s in syms_map.items()}
        if isinstance(expr, (bool, int, float)):
            return float(expr)
        v = expr.subs(subs) if hasattr(expr, "subs") else expr
        if v in (sympy.true, sympy.false) or isinstance(v, bool):
            return float(bool(v))
        v = sympy.N(v, 25)
        if v in (sympy.true, sympy.false):
            return float(bool(v))
        if not v.is_number:
            return "unevaluated"
        return finish(v)
    except Exception as ex:
        first = type(ex).__name__
    # SymPy's own substitution machinery failed (e.g. RecursionError inside relational simplification): evaluate the same object numerically
    try:
        syms = list(syms_map.values())
        f = sympy.lambdify(syms, expr, "mpmath")
        with mpmath.workdps(25):
            v = f(*[mpmath.mpf(av if str(k) == "a" else bv) for k in syms_map.keys()])
        if isinstance(v, (bool, sympy.logic.boolalg.BooleanAtom)):
            return float(bool(v))
        v = mpmath.mpmathify(v)
        if isinstance(v, mpmath.mpc):
            if abs(v.imag) > 1e-12:
                return None
            v = v.real
        return float(v) if mpmath.isfinite(v) else None
    except Exception as ex:
        return "error:%s/%s" % (first, type(ex).__name__)


def explore_ca(case):
    tier, part, nparts = case["tier"], case["part"], case["nparts"]
    res = core.Result()
    S = symb()
    A, Bs, trees = ca_trees(tier, part, nparts)
    for e, tag, depth in trees:
        res.count("evaluations")
        res.count("programs")
        if depth > 0 and ca.symvar(e):
            res.nontrivial.add(hash(str(e)))
        syms = {}
        try:
            with contextlib.redirect_stdout(io.StringIO()):
                e_sp = S.casadi_to_sympy(e, syms)
        except Exception as ex:
            res.count("refused")
            res.add_set("refused_ops", tag.split("(")[0])
            continue
        nodes = []

        def walk(n):
            nodes.append(n)
            for i in range(n.n_dep()):
                walk(n.dep(i))
        walk(e)
        f = ca.Function("f", [A, Bs], [e])
        fall = ca.Function("fall", [A, Bs], [ca.vertcat(*nodes)])
        cls = tag.split("(")[0]
        pts = list(itertools.product(PTS, PTS)) if (depth < 2 or tier == "thorough") else list(itertools.product(PTS[::2], PTS[::2]))
        for av, bv in pts:
            want = float(np.array(f(av, bv)).reshape(-1)[0])
            inter = np.array(fall(av, bv), dtype=float).reshape(-1)
            if np.any((inter == 0) & np.signbit(inter)):
                res.count("negative_zero_intermediate")  # IEEE signed zero has no SymPy counterpart (matters only on branch cuts)
                continue
            if not math.isfinite(want) or not np.all(np.isfinite(inter)):
                # a non-finite intermediate value: the point is outside the real domain of the source
                res.count("outside_domain")
                continue
            # a point within rounding distance of a discontinuity of the source (exact tie of a rounding function, branch cut,
            # signed zero) is not judged: there the value depends on the last bit of intermediate results
            near = False
            for da, db in ((1e-7, 0), (-1e-7, 0), (0, 1e-7), (0, -1e-7)):
                w2 = float(np.array(f(av * (1 + da), bv * (1 + db))).reshape(-1)[0])
                if not math.isfinite(w2) or abs(w2 - want) > 1e-4 * max(1.0, abs(want)):
                    near = True
            if near:
                res.count("near_discontinuity")
                continue
            got = sp_num(e_sp, syms, av, bv)
            res.count("traces_validated_against_impl")
            res.outcomes.add(hash(round(want, 9)))
            if got is None:
                continue  # converted expression is complex / undefined where CasADi's libm returned a real: domain edge, not judged
            # relative 1e-9 plus the round-off of the double-precision source itself (1e-13 of its largest intermediate value)
            if isinstance(got, str) or not abs(got - want) <= 1e-9 * abs(want) + 1e-13 * max(1.0, float(np.max(np.abs(inter)))):
                res.fail(site="casadi_to_sympy", clause="value_preserved", cls=cls, detail=dict(expr=str(e), tag=tag, a=av, b=bv, converted=got, source=want, sympy=str(e_sp)[:200]),
                         sub="ca", case=case)
                break
    # a 2x2 matrix of trees
    res.samples.append(dict(direction="casadi->sympy", trees=len(trees), example=str(trees[len(trees) // 2][0]) if trees else None))
    return res


class _SP:
    chunks = 1

    def cases(self, tier, seed):
        return [dict(sub="sp", tier=tier, part=p, nparts=32) for p in range(32)]

    def run(self, case):
        return explore_sp(case)


class _SPs:
    chunks = 1

    def cases(self, tier, seed):
        return [dict(sub="special", tier=tier)]

    def run(self, case):
        return explore_sp_special(case)


class _CA:
    chunks = 1

    def cases(self, tier, seed):
        return [dict(sub="ca", tier=tier, part=p, nparts=32) for p in range(32)]

    def run(self, case):
        return explore_ca(case)


SUBCHECKS = {"sp": _SP(), "special": _SPs(), "ca": _CA()}
REPLAY = {"sp": lambda c: explore_sp(c).fails, "special": lambda c: explore_sp_special(c).fails, "ca": lambda c: explore_ca(c).fails}
