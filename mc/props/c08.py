"""C08 - strapdown INS propagation on SE_2(3) is the exact flow of the IMU kinematics.

explorer : history.  state = the fed-back 10-vector (p, v, q); transition = the real strapdown_ins_propagate with one
           menu item (a_b, w_b, g, dt); BFS over all menu words to the depth, de-duplicated on the 12-digit state.
           + product over a one-step lattice with |w| magnitudes on both sides of the small-angle switch harvested
           from the compiled function for every dt.
oracle   : reference model = closed-form flow  R1 = R0 E, v1 = v0 + R0 G1 a - g e3 dt, p1 = p0 + v0 dt + R0 G2 a - g e3 dt^2/2
           with E, G1, G2 from 80-digit power series; carried along the word (accumulated) and applied to the implementation's
           own state (local); semigroup dt1 then dt2 == dt1+dt2; dt = 0 identity; unit quaternion.
"""
from __future__ import annotations

import contextlib
import functools
import io
import itertools
import math
from collections import deque

import casadi as ca
import mpmath
import numpy as np

from .. import alpha, core, gutil, harvest, lib, ref, sxvm
from ..gutil import key_of, maxabs

LEVEL = "model_checking"
RULE = ("menu: a_b in {0,(0,0,9.8),(3,-2,11)} x w_b in {0, 1e-9 e1, (0.3,-0.2,0.5), 30 e3} x g in {0, 9.8} x dt in {0,1e-3,0.01,0.5,2}; "
        "initial states: identity and two generic poses (both quaternion signs); BFS over all words to the depth; one-step lattice "
        "adds 7 axes x 14 magnitudes + harvested switch neighbours for every dt, each also in 60-digit arithmetic against the closed-form flow; exp_mixed with general increments (4 x 4 x 2); two steps in two threads, all interleavings with <= 1 (thorough 2) preemptions. non-trivial = dt>0 and (a,w,g) not all zero; "
        "distinct by raw bytes of (state, menu item)")
ASSUMPTIONS = ["reference flow from 80-digit power series of Gamma_1, Gamma_2 rounded to doubles; numpy afterwards",
               "words longer than the depth not covered"]

MPI = mpmath.mp.clone()
MPI.dps = 80


@functools.lru_cache(maxsize=100000)
def gammas(w, dt):
    """E = exp([w]dt), G1 = int_0^dt exp([w]s)ds, G2 = int_0^dt int_0^s exp([w]u) du ds as 3x3 double arrays"""
    m = MPI
    K = m.matrix([[0, -w[2], w[1]], [w[2], 0, -w[0]], [-w[1], w[0], 0]])
    t = m.mpf(dt)
    E, G1, G2 = m.eye(3) * 1, m.eye(3) * t, m.eye(3) * (t * t / 2)
    Kp = m.eye(3)
    for k in range(1, 600):
        Kp = Kp * K
        cE = t ** k / m.factorial(k)
        E = E + Kp * cE
        G1 = G1 + Kp * (cE * t / (k + 1))
        G2 = G2 + Kp * (cE * t * t / ((k + 1) * (k + 2)))
        if k > 3 and max(abs(Kp[i, j]) for i in range(3) for j in range(3)) * abs(cE) < m.mpf(10) ** (-60):  # abs: t may be negative
            break
    f = lambda M: np.array([[float(M[i, j]) for j in range(3)] for i in range(3)])
    return f(E), f(G1), f(G2)


def ref_step(p, v, R, a, w, g, dt):
    E, G1, G2 = gammas(tuple(float(c) for c in w), float(dt))
    e3 = np.array([0.0, 0, 1.0])
    R1 = R @ E
    v1 = v + R @ (G1 @ a) - g * e3 * dt
    p1 = p + v * dt + R @ (G2 @ a) - g * e3 * dt * dt / 2
    return p1, v1, R1


_FN = {}


def fn(config):
    if config not in _FN:
        with contextlib.redirect_stdout(io.StringIO()):
            if config == "strapdown_quat":
                from cyecca.models import rdd2
                _FN[config] = rdd2.derive_strapdown_ins_propagation()["strapdown_ins_propagate"]
            else:  # the same wiring through SE23Mrp.exp_mixed (public group method)
                G = lib.lie.SE23Mrp
                X0 = G.elem(ca.SX.sym("X0", 9))
                a_b, w_b, g, dt = ca.SX.sym("a", 3), ca.SX.sym("w", 3), ca.SX.sym("g"), ca.SX.sym("dt")
                l = lib.lie.se23.elem(ca.vertcat(0, 0, 0, a_b, w_b))
                r = lib.lie.se23.elem(ca.vertcat(0, 0, 0, 0, 0, -g, 0, 0, 0))
                B = ca.sparsify(ca.SX([[0, 1], [0, 0]]))
                X1 = G.exp_mixed(X0, l * dt, r * dt, B * dt)
                _FN[config] = ca.Function("exp_mixed_mrp", [X0.param, a_b, w_b, g, dt], [X1.param])
    return _FN[config]


def step(config, x, a, w, g, dt):
    f = fn(config)
    return np.array(f(x, a, w, g, dt), dtype=float).reshape(-1)


def split(config, x):
    p, v, att = x[0:3], x[3:6], x[6:]
    R = ref.R_from_quat(att) if config == "strapdown_quat" else ref.R_from_mrp(att)
    return p, v, R


A_MENU = [np.zeros(3), np.array([0, 0, 9.8]), np.array([3.0, -2.0, 11.0])]
W_MENU = [np.zeros(3), np.array([1e-9, 0, 0]), np.array([0.3, -0.2, 0.5]), np.array([0, 0, 30.0])]
G_MENU = [0.0, 9.8]
G_ONESTEP = [0.0, 9.8, -9.8]  # one-step lattice: also the z-down sign convention (g < 0)
DT_MENU = [0.0, 1e-3, 0.01, 0.5, 2.0]


def initial_states(config, seed):
    gv = alpha.generic_vec(seed, 3)
    poses = [(np.zeros(3), np.zeros(3), np.zeros(3), +1),
             (np.array([1.0, -2.0, 3.0]), np.array([0.5, 0.2, -1.0]), np.array([0.4, -0.7, 1.1]), +1),
             (gv, -gv[::-1], alpha.generic_axis(seed) * 2.4, -1)]
    out = []
    for p, v, rv, sgn in poses:
        if config == "strapdown_quat":
            att = ref.quat_of(rv, sgn)
        else:
            att = ref.mrp_of(rv, shadow=(sgn < 0 and np.linalg.norm(rv) > 0.5))
        out.append(np.concatenate([p, v, att]))
    return out


def judge(res, config, x1, pr, vr, Rr, tol_scale, what, detail, case, steps=1):
    p1, v1, R1 = split(config, x1)
    sc = (1 + maxabs(pr) + maxabs(vr)) * tol_scale
    bad = []
    if not np.all(np.isfinite(x1)):
        bad.append("finite")
    else:
        if maxabs(p1 - pr) > 1e-9 * sc:
            bad.append("position")
        if maxabs(v1 - vr) > 1e-9 * sc:
            bad.append("velocity")
        if ref.rot_dist(R1, Rr) > 1e-9 * tol_scale:
            bad.append("attitude")
        if config == "strapdown_quat" and abs(float(np.linalg.norm(x1[6:])) - 1.0) > 1e-12 * (steps + 1):
            bad.append("unit_norm")
    for b in bad:
        d = dict(detail)
        d.update(result=x1, ref_p=pr, ref_v=vr)
        res.fail(site=config, clause=what + ":" + b, cls=detail.get("cls", "-"), detail=d, sub=case["sub"], case=case)
    return not bad


def _mp_R(config, att):
    mp = mpmath.mp
    if config == "strapdown_quat":
        w_, x_, y_, z_ = att
        n2 = w_ * w_ + x_ * x_ + y_ * y_ + z_ * z_
        return mp.matrix([[1 - 2 * (y_ * y_ + z_ * z_) / n2, 2 * (x_ * y_ - w_ * z_) / n2, 2 * (x_ * z_ + w_ * y_) / n2],
                          [2 * (x_ * y_ + w_ * z_) / n2, 1 - 2 * (x_ * x_ + z_ * z_) / n2, 2 * (y_ * z_ - w_ * x_) / n2],
                          [2 * (x_ * z_ - w_ * y_) / n2, 2 * (y_ * z_ + w_ * x_) / n2, 1 - 2 * (x_ * x_ + y_ * y_) / n2]])
    r = mp.matrix(list(att))
    n2 = (r.T * r)[0]
    K = mp.matrix([[0, -r[2], r[1]], [r[2], 0, -r[0]], [-r[1], r[0], 0]])
    return mp.eye(3) + (8 * K * K + 4 * (1 - n2) * K) / (1 + n2) ** 2


def mp_truncation_error(config, prog, x0, a, w, g, dt):
    """the compiled step evaluated in 60-digit arithmetic (rounding out of the picture) against the closed-form flow in the same
    arithmetic: what remains is the step's own truncation / formula error.  Returns the largest deviation of p, v, R."""
    mp = mpmath.mp
    outs, _ = sxvm.run(prog, [list(x0), list(a), list(w), [g], [dt]], sxvm.MPF)
    x1 = outs[0]
    if any(v is sxvm.POISON for v in x1):
        return float("inf")
    f_ = lambda v: mp.mpf(float(v))
    p0, v0 = mp.matrix([f_(c) for c in x0[0:3]]), mp.matrix([f_(c) for c in x0[3:6]])
    R0 = _mp_R(config, [f_(c) for c in x0[6:]])
    av, wv = mp.matrix([f_(c) for c in a]), mp.matrix([f_(c) for c in w])
    t = f_(dt)
    th = mp.sqrt((wv.T * wv)[0])
    K = mp.matrix([[0, -wv[2], wv[1]], [wv[2], 0, -wv[0]], [-wv[1], wv[0], 0]])
    if th * t < mp.mpf(10) ** -25:
        E, I1, I2 = mp.eye(3) + K * t, mp.eye(3) * t + K * t * t / 2, mp.eye(3) * t * t / 2 + K * t ** 3 / 6
    else:
        s_, c_ = mp.sin(th * t), mp.cos(th * t)
        E = mp.eye(3) + s_ / th * K + (1 - c_) / th ** 2 * K * K
        I1 = mp.eye(3) * t + (1 - c_) / th ** 2 * K + (t - s_ / th) / th ** 2 * K * K
        I2 = mp.eye(3) * t * t / 2 + (t - s_ / th) / th ** 2 * K + (t * t / 2 - (1 - c_) / th ** 2) / th ** 2 * K * K
    e3 = mp.matrix([0, 0, 1])
    pr = p0 + v0 * t + R0 * I2 * av - f_(g) * e3 * t * t / 2
    vr = v0 + R0 * I1 * av - f_(g) * e3 * t
    Rr = R0 * E
    R1 = _mp_R(config, list(x1[6:]))
    err = max([abs(x1[i] - pr[i]) for i in range(3)] + [abs(x1[3 + i] - vr[i]) for i in range(3)]) / (1 + max(abs(c) for c in list(pr) + list(vr)))
    errR = max(abs(R1[i, j] - Rr[i, j]) for i in range(3) for j in range(3))
    errN = 0
    if config == "strapdown_quat":
        # "the attitude quaternion keeps unit norm": the norm leaves the step as it entered it
        n_in = mp.sqrt(sum(f_(c) ** 2 for c in x0[6:]))
        n_out = mp.sqrt(sum(c * c for c in x1[6:]))
        errN = abs(n_out - n_in)
    return float(max(err, errR, errN))


def explore_onestep(case):
    config, tier, seed, dt = case["config"], case["tier"], case["seed"], case["dt"]
    res = core.Result()
    f = fn(config)
    prog = sxvm.compile_fn(f)
    x0s = initial_states(config, seed)
    mags = [0.0, 5e-324, 1e-200, 1e-12, 1e-9, 1e-6, 1e-3, 0.03, 0.1, 0.5, 1.0, 3.0, 10.0, 30.0]
    axes = alpha.axes(seed)
    ws = []
    # harvest the |w| switch points of the compiled function for this dt
    if dt > 0:
        for ax in (axes[0], axes[6]):
            def mk(t, ax=ax):
                return [list(x0s[1]), [3.0, -2.0, 11.0], list(ax * t), [9.8], [dt]]
            for lo, hi in harvest.walk(prog, mk, mags):
                res.add_set("harvested_boundaries", "%s dt=%g |w|=%r|%r" % (config, dt, lo, hi))
                ws += [ax * lo, ax * hi]
            # windows that open and close between two magnitudes (e.g. around every whole turn |w| dt = 2 pi k): followed on the margins
            if ax is axes[0]:
                for lo, hi in harvest.margin_walk(prog, mk, [m_ for m_ in mags if m_ >= 1e-3], per_cell=48):
                    res.add_set("harvested_boundaries", "%s dt=%g |w| window %r|%r" % (config, dt, lo, hi))
                    ws += [ax * lo, ax * hi]
    for m in mags:
        for ax in (axes if tier == "thorough" else [axes[0], axes[3], axes[6]]):
            ws.append(ax * m)
    # relation rays: the specific force swept from parallel to the rate axis to perpendicular and anti-parallel (nearly parallel inputs);
    # comparison outcome changes of the compiled step along the sweep are bisected, both sides become (a, w) pairs
    pairs = [(a, w) for a in A_MENU for w in ws]
    if dt > 0:
        phi_grid = [0.0, 1e-12, 1e-9, 1e-6, 1e-4, 1e-2, 0.3, 1.2, math.pi / 2, math.pi - 1e-2, math.pi - 1e-6, math.pi]
        for wmag in (1.2, 1e-3 / dt if dt < 1 else 1e-3):
            wv = axes[6] * wmag
            nv = np.cross(axes[6], axes[3])
            nv = nv / np.linalg.norm(nv)

            def a_of(phi):
                return 9.81 * (math.cos(phi) * axes[6] + math.sin(phi) * nv)

            def mk2(phi, wv=wv):
                return [list(x0s[1]), list(a_of(phi)), list(wv), [9.8], [dt]]
            for lo, hi in harvest.walk(prog, mk2, phi_grid):
                res.add_set("harvested_boundaries", "%s dt=%g angle(a,w)=%r|%r" % (config, dt, lo, hi))
                pairs += [(a_of(lo), wv), (a_of(hi), wv)]
            pairs += [(a_of(1e-3), wv), (a_of(3e-4), wv)]  # a fixed pair of nearly parallel members as well
    seen = set()
    for x0 in x0s:
        p0, v0, R0 = split(config, x0)
        if True:
            for a, w in pairs:
                k = (x0.tobytes(), a.tobytes(), w.tobytes())
                if k in seen:
                    continue
                seen.add(k)
                for g in G_ONESTEP:
                    res.count("evaluations")
                    x1 = step(config, x0, a, w, g, dt)
                    pr, vr, Rr = ref_step(p0, v0, R0, a, w, g, dt)
                    th = float(np.linalg.norm(w)) * dt
                    if dt > 0 and (maxabs(a) > 0 or maxabs(w) > 0 or g > 0):
                        res.nontrivial.add(hash(k + (g, dt)))
                    res.outcomes.add(hash(np.round(np.concatenate([pr, vr]), 8).tobytes()))
                    cls = "dt=0" if dt == 0 else ("theta=0" if th == 0 else ("theta<0.0316" if th * th < 1e-3 else "theta>=0.0316"))
                    judge(res, config, x1, pr, vr, Rr, 1.0, "one_step_exact_flow", dict(x0=x0, a=a, w=w, g=g, dt=dt, cls=cls), case)
                    if dt == 0 and maxabs(x1 - x0) > 1e-14 * (1 + maxabs(x0)):
                        res.fail(site=config, clause="dt_zero_is_identity", cls="dt=0", detail=dict(x0=x0, a=a, w=w, g=g, x1=x1),
                                 sub="onestep", case=case)
    # "no discretisation error": with rounding taken out (60 digits) the step is the closed-form flow to 1e-13 - a series shortened by a
    # term or two is invisible to the double comparison above in one step and grows with the number of steps
    if dt > 0:
        wset = {w.tobytes(): w for w in ws}
        worst = 0.0
        for w in wset.values():
            res.count("evaluations")
            res.count("exact_arithmetic_steps")
            e = mp_truncation_error(config, prog, x0s[1], A_MENU[2], w, 9.8, dt)
            worst = max(worst, e if math.isfinite(e) else 0.0)
            if not e <= 1e-13:
                res.fail(site=config, clause="no_discretisation_error_in_exact_arithmetic", cls="theta<0.0632" if (np.linalg.norm(w) * dt) ** 2 / 4 < 1e-3 else "closed_form",
                         detail=dict(x0=x0s[1], a=A_MENU[2], w=w, g=9.8, dt=dt, theta=float(np.linalg.norm(w) * dt), deviation=e), sub="onestep", case=case)
        res.counters["worst_exact_arithmetic_deviation_1e-30"] = max(res.counters["worst_exact_arithmetic_deviation_1e-30"], int(min(worst, 1.0) * 1e30))
    # the function is also called by argument name (dict / keyword calls, name-based binding of generated code)
    if config == "strapdown_quat":
        names = [f.name_in(i) for i in range(f.n_in())]
        res.count("evaluations")
        if names != ["x0", "a_b", "omega_b", "g", "dt"] or [f.name_out(i) for i in range(f.n_out())] != ["x1"]:
            res.fail(site=config, clause="documented_argument_names", cls="-", detail=dict(names_in=names), sub="onestep", case=case)
        else:
            a, w = A_MENU[2], W_MENU[2]
            for x0 in x0s:
                res.count("evaluations")
                x1 = np.array(f(x0=x0, a_b=a, omega_b=w, g=9.8, dt=dt)["x1"], dtype=float).reshape(-1)
                p0, v0, R0 = split(config, x0)
                pr, vr, Rr = ref_step(p0, v0, R0, a, w, 9.8, dt)
                judge(res, config, x1, pr, vr, Rr, 1.0, "keyword_call_exact_flow", dict(x0=x0, a=a, w=w, g=9.8, dt=dt, cls="keyword"), case)
    res.samples.append(dict(config=config, dt=dt, n_w=len(ws)))
    return res


def menu(tier, full):
    if full:
        return list(itertools.product(range(len(A_MENU)), range(len(W_MENU)), range(len(G_MENU)), range(len(DT_MENU))))
    return list(itertools.product([0, 2], [0, 2, 3], [1], [1, 3, 4]))


def explore_words(case):
    config, tier, seed, i0, first = case["config"], case["tier"], case["seed"], case["init"], case["first"]
    depth = case["depth"]
    res = core.Result()
    items = menu(tier, case["full"])
    x0 = initial_states(config, seed)[i0]
    p0, v0, R0 = split(config, x0)
    seen = {key_of(x0)}
    fr = deque([(x0, (p0, v0, R0), 0, (), 0.0)])
    res.count("states")
    while fr:
        x, (pr, vr, Rr), d, word, T = fr.popleft()
        res.counters["max_depth"] = max(res.counters["max_depth"], d)
        if d >= depth:
            continue
        its = [items[first]] if d == 0 else items
        for it in its:
            a, w, g, dt = A_MENU[it[0]], W_MENU[it[1]], G_MENU[it[2]], DT_MENU[it[3]]
            res.count("transitions")
            res.count("evaluations")
            res.count("traces_validated_against_impl")
            x1 = step(config, x, a, w, g, dt)
            # accumulated reference (model state carried along the word)
            pr1, vr1, Rr1 = ref_step(pr, vr, Rr, a, w, g, dt)
            w1 = word + (it,)
            T1 = T + dt
            sc = (1 + T1) ** 2 * (d + 1)
            if dt > 0:
                res.nontrivial.add(hash(x.tobytes() + bytes(it)))
            ok = judge(res, config, x1, pr1, vr1, Rr1, sc, "word_matches_reference_flow",
                       dict(x0=x0, word=[list(i) for i in w1], cls="depth%d" % (d + 1)), case, steps=d + 1)
            # local: reference applied to the implementation's own state
            pl, vl, Rl = split(config, x)
            plr, vlr, Rlr = ref_step(pl, vl, Rl, a, w, g, dt)
            judge(res, config, x1, plr, vlr, Rlr, 1.0 + T1, "local_step_exact_flow", dict(x=x, item=list(it), cls="local"), case, steps=d + 1)
            # semigroup: same input continued for dt2 equals one step of dt+dt2
            if d + 1 < depth or True:
                for j2 in (1, 3):
                    dt2 = DT_MENU[j2]
                    xa = step(config, x1, a, w, g, dt2)
                    xb = step(config, x, a, w, g, dt + dt2)
                    res.count("evaluations")
                    pa, va, Ra = split(config, xa)
                    pb, vb, Rb = split(config, xb)
                    s2 = (1 + maxabs(pb) + maxabs(vb)) * (1 + T1 + dt2)
                    if (not np.all(np.isfinite(xa))) or maxabs(pa - pb) > 1e-9 * s2 or maxabs(va - vb) > 1e-9 * s2 or ref.rot_dist(Ra, Rb) > 1e-9 * (1 + T1):
                        res.fail(site=config, clause="semigroup_dt1_then_dt2", cls="depth%d" % (d + 1),
                                 detail=dict(x=x, item=list(it), dt2=dt2, two_steps=xa, one_step=xb), sub="words", case=case)
            if not ok:
                continue
            k = key_of(x1)
            if k not in seen:
                seen.add(k)
                res.count("states")
                res.outcomes.add(hash(k))
                fr.append((x1, (pr1, vr1, Rr1), d + 1, w1, T1))
    if first == 0 and i0 == 0:
        res.samples.append(dict(config=config, init=x0, depth=depth, menu_size=len(items), example_word=[list(items[first]), list(items[-1])]))
    return res


def explore_longrun(case):
    """one long deterministic history per (configuration, initial state, menu phase): N consecutive steps fed back into each other, menu items
    cycling.  Every step is judged locally (reference flow applied to the implementation's own previous state) and for unit norm, so a
    defect that is below round-off in one step but compounds (normalisation, drift) is seen when it has grown."""
    config, tier, seed, i0, phase = case["config"], case["tier"], case["seed"], case["init"], case["phase"]
    n = 600 if tier == "thorough" else 150
    res = core.Result()
    items = [it for it in menu(tier, True) if DT_MENU[it[3]] in (1e-3, 0.01)]
    x = initial_states(config, seed)[i0]
    T = 0.0
    for k in range(n):
        it = items[(k * 5 + phase * 7) % len(items)]
        a, w, g, dt = A_MENU[it[0]], W_MENU[it[1]], G_MENU[it[2]], DT_MENU[it[3]]
        res.count("evaluations")
        res.count("transitions")
        res.count("traces_validated_against_impl")
        res.nontrivial.add(hash((config, i0, phase, k)))
        x1 = step(config, x, a, w, g, dt)
        pl, vl, Rl = split(config, x)
        plr, vlr, Rlr = ref_step(pl, vl, Rl, a, w, g, dt)
        T += dt
        ok = judge(res, config, x1, plr, vlr, Rlr, 1.0 + T, "local_step_exact_flow", dict(x=x, item=list(it), step=k + 1, cls="long_run"), case, steps=k + 1)
        if not ok:
            break
        x = x1
    res.counters["max_depth"] = k + 1
    res.count("states", k + 1)
    res.outcomes.add(hash(np.round(x, 6).tobytes()))
    res.samples.append(dict(config=config, init=i0, phase=phase, steps=k + 1))
    return res


class _SubLong:
    chunks = 1

    def cases(self, tier, seed):
        return [dict(sub="longrun", config=c, tier=tier, seed=seed, init=i0, phase=ph) for c in ("strapdown_quat", "exp_mixed_mrp") for i0 in range(3) for ph in range(2)]

    def run(self, case):
        return explore_longrun(case)


def explore_pyapi(case):
    """the group method used directly from Python with numeric elements that are built once and reused over several steps
    (l, r, B constructed once; X fed back): the way a Python user integrates an IMU stream without code generation"""
    from .. import numapi
    seed = case["seed"]
    res = core.Result()
    for config, G in (("strapdown_quat", lib.lie.SE23Quat), ("exp_mixed_mrp", lib.lie.SE23Mrp)):
        for x0 in initial_states(config, seed):
            for a, w, g, dt in ((A_MENU[2], W_MENU[2], 9.8, 0.1), (A_MENU[1], W_MENU[3], 9.8, 0.01), (A_MENU[2], W_MENU[1], 0.0, 0.5)):
                res.count("evaluations")
                res.count("states", 4)
                res.count("transitions", 3)
                res.nontrivial.add(hash((config, x0.tobytes(), a.tobytes(), w.tobytes(), g, dt)))
                lp = np.concatenate([np.zeros(3), a, w])
                rp = np.array([0, 0, 0, 0, 0, -g, 0, 0, 0.0])
                l = lib.lie.se23.elem(ca.DM(lp))
                r = lib.lie.se23.elem(ca.DM(rp))
                Bm = ca.sparsify(ca.SX([[0, 1], [0, 0]]))
                X = G.elem(ca.DM(x0))
                p, v, R = split(config, x0)
                try:
                    for k in range(3):
                        X = G.exp_mixed(X, l * dt, r * dt, Bm * dt)
                        p, v, R = ref_step(p, v, R, a, w, g, dt)
                        x1 = numapi.ev(X.param).reshape(-1)
                        res.count("traces_validated_against_impl")
                        if not judge(res, config, x1, p, v, R, 1.0 + (k + 1) * dt, "python_api_reused_elements", dict(x0=x0, a=a, w=w, g=g, dt=dt, step=k + 1, cls="step%d" % (k + 1)), case, steps=k + 1):
                            break
                except Exception as ex:
                    res.fail(site=config, clause="python_api_reused_elements:no_exception", cls=type(ex).__name__, detail=dict(error=str(ex)[:200]), sub="pyapi", case=case)
                    continue
                if not (np.array_equal(numapi.ev(l.param).reshape(-1), lp) and np.array_equal(numapi.ev(r.param).reshape(-1), rp)):
                    res.fail(site=config, clause="python_api_reused_elements:arguments_not_mutated", cls="-",
                             detail=dict(l_before=lp, l_after=numapi.ev(l.param).reshape(-1), r_after=numapi.ev(r.param).reshape(-1)), sub="pyapi", case=case)
    # the initial state spelled `G.identity()` (its position / velocity entries are structural zeros) and as a structurally sparse element
    for config, G in (("strapdown_quat", lib.lie.SE23Quat), ("exp_mixed_mrp", lib.lie.SE23Mrp)):
        a, w, g, dt = A_MENU[2], W_MENU[2], 9.8, 0.25
        l = lib.lie.se23.elem(ca.DM(np.concatenate([np.zeros(3), a, w])))
        r = lib.lie.se23.elem(ca.DM([0, 0, 0, 0, 0, -g, 0, 0, 0.0]))
        Bm = ca.sparsify(ca.SX([[0, 1], [0, 0]]))
        with contextlib.redirect_stdout(io.StringIO()):
            xid = numapi.ev(G.identity().param).reshape(-1)
        sparse_id = ca.SX(len(xid), 1)
        for k_, v_ in enumerate(xid):
            if v_ != 0:
                sparse_id[k_] = float(v_)
        for tag, mk0 in (("identity()", lambda: G.identity()), ("sparse_element", lambda: G.elem(sparse_id)), ("dense_element", lambda: G.elem(ca.DM(xid)))):
            res.count("evaluations")
            res.nontrivial.add(hash((config, tag)))
            try:
                with contextlib.redirect_stdout(io.StringIO()):
                    X = mk0()
                    p, v, R = split(config, xid)
                    for k in range(2):
                        X = G.exp_mixed(X, l * dt, r * dt, Bm * dt)
                        p, v, R = ref_step(p, v, R, a, w, g, dt)
                        x1 = numapi.ev(X.param).reshape(-1)
                        if not judge(res, config, x1, p, v, R, 1.0 + (k + 1) * dt, "python_api_initial_state_spelling", dict(spelling=tag, step=k + 1, cls=tag), case, steps=k + 1):
                            break
            except Exception as ex:
                res.fail(site=config, clause="python_api_reused_elements:no_exception", cls=tag, detail=dict(error="%s: %s" % (type(ex).__name__, str(ex)[:200])), sub="pyapi", case=case)
    # an IMU stream integrated from ONE work vector that is refilled in place for every sample (buf[3:6] = a_k; buf[6:9] = w_k), all the
    # per-sample algebra elements created first and used afterwards: every step must use the inputs of its own sample
    for config, G in (("strapdown_quat", lib.lie.SE23Quat), ("exp_mixed_mrp", lib.lie.SE23Mrp)):
        x0 = initial_states(config, seed)[1]
        samples = [(A_MENU[2], W_MENU[2]), (A_MENU[1], W_MENU[3]), (A_MENU[0], W_MENU[2]), (A_MENU[2], W_MENU[0])]
        g, dt = 9.8, 0.05
        res.count("evaluations")
        res.count("transitions", len(samples))
        res.nontrivial.add(hash((config, "stream")))
        buf = ca.SX(9, 1)
        ls = []
        for a, w in samples:
            for k in range(3):
                buf[3 + k] = float(a[k])
                buf[6 + k] = float(w[k])
            ls.append(lib.lie.se23.elem(buf))
        r = lib.lie.se23.elem(ca.DM([0, 0, 0, 0, 0, -g, 0, 0, 0.0]))
        Bm = ca.sparsify(ca.SX([[0, 1], [0, 0]]))
        X = G.elem(ca.DM(x0))
        p, v, R = split(config, x0)
        try:
            for k, ((a, w), l) in enumerate(zip(samples, ls)):
                X = G.exp_mixed(X, l * dt, r * dt, Bm * dt)
                p, v, R = ref_step(p, v, R, a, w, g, dt)
                x1 = numapi.ev(X.param).reshape(-1)
                if not judge(res, config, x1, p, v, R, 1.0 + (k + 1) * dt, "python_api_stream_from_one_work_vector", dict(x0=x0, sample=k, a=a, w=w, cls="sample%d" % k), case, steps=k + 1):
                    break
        except Exception as ex:
            res.fail(site=config, clause="python_api_reused_elements:no_exception", cls=type(ex).__name__, detail=dict(error=str(ex)[:200]), sub="pyapi", case=case)
    # successive samples that agree to six or more digits (a gyro signal that changes slowly): every step integrates ITS sample.  The
    # reference distinguishes them (the attitude after the step differs by |dw| dt, far above the tolerance).
    for config, G in (("strapdown_quat", lib.lie.SE23Quat), ("exp_mixed_mrp", lib.lie.SE23Mrp)):
        x0 = initial_states(config, seed)[1]
        w0, a0 = W_MENU[2] * 1.0, A_MENU[2] * 1.0
        if maxabs(w0) == 0:
            w0 = np.array([0.7, -1.9, 2.3])
        g, dt = 9.8, 0.5
        for rel in (3e-7, -2e-8, 4e-6):
            samples = [(a0, w0), (a0 * (1 + rel), w0 * (1 + rel)), (a0, w0 * (1 - 2 * rel))]
            res.count("evaluations")
            res.count("transitions", len(samples))
            res.nontrivial.add(hash((config, "slow", rel)))
            r = lib.lie.se23.elem(ca.DM([0, 0, 0, 0, 0, -g, 0, 0, 0.0]))
            Bm = ca.sparsify(ca.SX([[0, 1], [0, 0]]))
            try:
                # each sample applied to the SAME initial state, so the three results are comparable one to one with the reference
                for k, (a, w) in enumerate(samples):
                    X = G.exp_mixed(G.elem(ca.DM(x0)), lib.lie.se23.elem(ca.DM(np.concatenate([np.zeros(3), a, w]))) * dt, r * dt, Bm * dt)
                    p, v, R = ref_step(*split(config, x0), a, w, g, dt)
                    x1 = numapi.ev(X.param).reshape(-1)
                    if not judge(res, config, x1, p, v, R, 1.0 + dt, "python_api_nearly_equal_samples", dict(x0=x0, sample=k, a=a, w=w, rel=rel, cls="sample%d" % k), case):
                        break
            except Exception as ex:
                res.fail(site=config, clause="python_api_reused_elements:no_exception", cls=type(ex).__name__, detail=dict(error=str(ex)[:200]), sub="pyapi", case=case)
    # the group method in its general form: both increments carry a rotation and translational parts, generic state.  The mixed-invariant
    # flow is X1 = expm(r^ - B~) X0 expm(l^ + B~) with B~ the 2x2 coupling in the lower right block of the 5x5 matrices (the strapdown step
    # is the case r = (0, -g e3 dt, 0)); matrices by an independent wedge and scipy's expm
    def wedge5(x):
        W = np.zeros((5, 5))
        W[:3, :3] = ref.hat(x[6:9])
        W[:3, 3] = x[3:6]
        W[:3, 4] = x[0:3]
        return W
    gens = [np.array([0.3, -0.5, 0.2, 0.7, 0.1, -0.4, 0.25, -0.3, 0.45]), np.array([-1.0, 0.4, 0.6, -0.2, 0.9, 0.3, -0.5, 0.35, 0.2]), np.array([0.0, 0.0, 0.0, 0.5, -0.2, 0.1, 0.0, 0.0, 0.6]),
            np.array([0.2, 0.1, -0.3, 0.0, 0.0, 0.0, 0.02, -0.01, 0.015])]
    for config, G in (("strapdown_quat", lib.lie.SE23Quat), ("exp_mixed_mrp", lib.lie.SE23Mrp)):
        x0 = initial_states(config, seed)[1]
        M0 = np.eye(5)
        p0_, v0_, R0_ = split(config, x0)
        M0[:3, :3], M0[:3, 3], M0[:3, 4] = R0_, v0_, p0_
        for lv, rv in itertools.product(gens, repeat=2):
            for dt_ in (0.7, 0.05):
                res.count("evaluations")
                res.nontrivial.add(hash((config, "general", lv.tobytes(), rv.tobytes(), dt_)))
                Bn = np.array([[0, 1.0], [0, 0]]) * dt_
                try:
                    with contextlib.redirect_stdout(io.StringIO()):
                        X1 = G.exp_mixed(G.elem(ca.DM(x0)), lib.lie.se23.elem(ca.DM(lv)), lib.lie.se23.elem(ca.DM(rv)), ca.SX(ca.DM(Bn)))
                        x1 = numapi.ev(X1.param).reshape(-1)
                except Exception as ex:
                    res.fail(site=config, clause="python_api_reused_elements:no_exception", cls="general_increments", detail=dict(error="%s: %s" % (type(ex).__name__, str(ex)[:200])), sub="pyapi", case=case)
                    continue
                Bt = np.zeros((5, 5))
                Bt[3:, 3:] = Bn
                Mref = ref.expm(wedge5(rv) - Bt) @ M0 @ ref.expm(wedge5(lv) + Bt)
                judge(res, config, x1, Mref[:3, 4], Mref[:3, 3], Mref[:3, :3], 1.0, "python_api_general_increments", dict(x0=x0, l=lv, r=rv, dt=dt_, cls="r_rotates" if maxabs(rv[6:]) > 0 else "r_translates"), case)
    res.samples.append(dict(pyapi=True))
    return res


def explore_threads(case):
    """the group method called from two threads"""
    # two filters propagate in two threads (different step sizes): every interleaving of the library's Python statements with at most one
    # preemption (thorough: two); each call returns what it returns alone
    from .. import numapi, threads
    seed = case["seed"]
    res = core.Result()
    for config, G in ((case["config"], lib.lie.SE23Quat if case["config"] == "strapdown_quat" else lib.lie.SE23Mrp),):
        x0 = initial_states(config, seed)[1]

        def mk(dt_, a_, w_, G=G, x0=x0):
            def call():
                l_ = lib.lie.se23.elem(ca.DM(np.concatenate([np.zeros(3), a_, w_])))
                r_ = lib.lie.se23.elem(ca.DM([0, 0, 0, 0, 0, -9.8, 0, 0, 0.0]))
                Bm_ = ca.sparsify(ca.SX([[0, 1], [0, 0]]))
                return numapi.ev(G.exp_mixed(G.elem(ca.DM(x0)), l_ * dt_, r_ * dt_, Bm_ * dt_).param).tobytes()
            return call
        fa, fb = mk(0.01, A_MENU[2], W_MENU[2]), mk(0.5, A_MENU[1], W_MENU[3])
        alone = [fa(), fb()]
        nrun = 0
        _quiet = contextlib.redirect_stdout(io.StringIO())  # one redirection around the exploration, none inside the threads
        _quiet.__enter__()
        for choices, results, npts, capped in threads.explore([fa, fb], ("cyecca/lie/", "cyecca/symbolic.py"), 1 if case["tier"] == "quick" else 2, max_runs=3000 if case["tier"] == "quick" else 6000):
            if capped:
                res.counters["thread_schedules_capped"] += 1
                break
            nrun += 1
            res.count("evaluations")
            res.count("schedules")
            res.nontrivial.add(hash((config, "threads", tuple(choices))))
            res.counters["max_scheduling_points"] = max(res.counters["max_scheduling_points"], npts)
            bad = [k for k, r_ in enumerate(results) if r_ is None or r_[0] != "ok" or r_[1] != alone[k]]
            if bad:
                res.fail(site=config, clause="python_api_step_independent_of_a_concurrent_step", cls="threads", detail=dict(thread=bad[0], schedule=choices,
                         outcome=(results[bad[0]][1] if results[bad[0]] and results[bad[0]][0] != "ok" else "differs from the call alone")), sub="threads", case=case)
                break
        _quiet.__exit__(None, None, None)
    res.samples.append(dict(threads=case["config"]))
    return res


class _SubTh:
    chunks = 1

    def cases(self, tier, seed):
        return [dict(sub="threads", tier=tier, seed=seed, config=c) for c in ("strapdown_quat", "exp_mixed_mrp")]

    def run(self, case):
        return explore_threads(case)


class _SubPy:
    chunks = 1

    def cases(self, tier, seed):
        return [dict(sub="pyapi", tier=tier, seed=seed)]  # (tier read by the thread exploration)

    def run(self, case):
        return explore_pyapi(case)


class _SubOne:
    chunks = 1

    def cases(self, tier, seed):
        # the flow is defined for backward steps as well ("for any dt"): two negative steps in the one-step lattice
        return [dict(sub="onestep", config=c, tier=tier, seed=seed, dt=dt) for c in ("strapdown_quat", "exp_mixed_mrp") for dt in DT_MENU + [-1e-3, -0.5]]

    def run(self, case):
        return explore_onestep(case)


class _SubWords:
    chunks = 1

    def cases(self, tier, seed):
        out = []
        for c in ("strapdown_quat", "exp_mixed_mrp"):
            for i0 in range(3):
                # full menu to depth 2 (quick) / reduced-to-medium menu deeper
                n_full = len(menu(tier, True))
                for first in range(n_full):
                    out.append(dict(sub="words", config=c, tier=tier, seed=seed, init=i0, first=first, full=True, depth=2))
                n_red = len(menu(tier, False))
                for first in range(n_red):
                    out.append(dict(sub="words", config=c, tier=tier, seed=seed, init=i0, first=first, full=False,
                                    depth=4 if tier == "thorough" else 3))
        return out

    def run(self, case):
        return explore_words(case)


SUBCHECKS = {"onestep": _SubOne(), "pyapi": _SubPy(), "threads": _SubTh(), "words": _SubWords(), "longrun": _SubLong()}
SUBCHECKS["words"].chunks = 4
REPLAY = {"onestep": lambda c: explore_onestep(c).fails, "words": lambda c: explore_words(c).fails, "pyapi": lambda c: explore_pyapi(c).fails, "threads": lambda c: explore_threads(c).fails,
          "longrun": lambda c: explore_longrun(c).fails}


def bounds(tier):
    return dict(full_menu=len(menu(tier, True)), full_menu_depth=2, reduced_menu=len(menu(tier, False)),
                reduced_menu_depth=4 if tier == "thorough" else 3)

# keyword / dict calls bind the documented names (see mc/kw.py)
from .. import kw as _kw  # noqa: E402

_KW = _kw.KwSub("ins")
SUBCHECKS["keywords"] = _KW
REPLAY["keywords"] = _KW.replay
