"""C05 - Jacobians are the true differentials of exp and of the attitude kinematics.

explorer : product over the algebra alphabets of so(3), se(3), se_2(3) (angles 0 ... 6.2 rad incl. harvested switch points)
           x all unit perturbation directions; product over unit quaternions (both signs) / MRPs (inside and shadow) x angular
           velocities for the group-level kinematic Jacobians.
oracle   : Frechet derivative of the reference expm (scipy expm_frechet) : J_l d = vee(L(W, wedge d) expm(-W)),
           J_r d = vee(expm(-W) L(W, wedge d)); J J^-1 = I; J_l = Ad_exp(x) J_r = J_r(-x); Q blocks;
           quaternion: R' = [w]x R (left) / R [w]x (right), q.q' = 0; MRP: R' = R [w]x (50-digit central difference of the
           textbook MRP->R map).
"""
from __future__ import annotations

import math

import casadi as ca
import mpmath
import numpy as np
import scipy.linalg

from .. import alpha, core, gutil, harvest, lib, ref, sxvm
from ..gutil import close, maxabs

LEVEL = "exploration"
RULE = ("algebra vectors: axes x angles {0, denormal, 1e-200 ... pi, pi+0.1, 4.5, 6, 6.2, 2 pi - {2e-2, 3e-3, 1e-3, 2e-4, 1e-5}} x translation alphabets + both adjacent doubles of "
        "each harvested branch boundary of the compiled Jacobians; every unit direction judged through the full Jacobian matrix. "
        "non-trivial = x != 0; distinct by raw bytes")
ASSUMPTIONS = ["scipy.linalg.expm_frechet (double) is the reference differential of expm",
               "inverse Jacobians are judged entry-wise with tolerance 1e-9 * (1 + 1e-4 / (2 pi - theta)^2) * (1 + max|J^-1|); rotation angles within 1e-6 of the full turn are not explored",
               "values between alphabet members not covered"]
NEAR_FULL_TURN = [2e-2, 3e-3, 1e-3, 2e-4, 1e-5]
HANDLES = {"so3": "SO3Quat", "se3": "SE3Quat", "se23": "SE23Quat"}


def bounds(tier):
    return dict(alphabet="full" if tier == "thorough" else "full angles, reduced translations")


def ref_jacobians(B, x):
    """reference J_l, J_r (na x na) from the Frechet derivative of expm at wedge(x)"""
    na = B.na
    W = B.call("wedge", x)
    Ia = np.eye(na)
    basis = [B.call("wedge", Ia[:, i]) for i in range(na)]
    E = scipy.linalg.expm(W)
    Ei = scipy.linalg.expm(-W)
    Jl = np.zeros((na, na))
    Jr = np.zeros((na, na))
    worst = 0.0
    for i in range(na):
        _, Lf = scipy.linalg.expm_frechet(W, basis[i])
        c, r = ref.solve_vee(basis, Lf @ Ei)
        Jl[:, i] = c
        worst = max(worst, r)
        c, r = ref.solve_vee(basis, Ei @ Lf)
        Jr[:, i] = c
        worst = max(worst, r)
    return Jl, Jr, worst


def explore_algebra(case):
    alg, tier, seed = case["algebra"], case["tier"], case["seed"]
    res = core.Result()
    name = HANDLES[alg]
    B = lib.built(name)
    AL = lib.alg_layout(B.G)
    ops = ["left_jacobian", "right_jacobian", "left_jacobian_inv", "right_jacobian_inv", "wedge", "Ad", "exp"]
    for op in ops:
        B.get(op)
        res.count("evaluations")
        if B.status[op] != "ok":
            res.fail(site="%s.%s" % (alg, op), clause="operation_raises", cls=B.status[op].split(":")[1] if ":" in B.status[op] else B.status[op],
                     detail=dict(status=B.status[op]), sub="algebra", case=case)
    if any(B.status[o] != "ok" for o in ops):
        return res
    elems = alpha.elements(AL, seed, small=False, cap_product=6000 if tier == "thorough" else 2500)
    # harvested switch points of the compiled left Jacobian
    prog = sxvm.compile_fn(B.get("left_jacobian"))
    rs = [i for i, s in enumerate(AL) if s[0] == "rotvec"][0]
    base = [alpha.generic_vec(seed, 3) if s[0] == "vec" else np.zeros(3) for s in AL]
    for ax in ((np.array([0.0, 0, 1.0]), alpha.generic_axis(seed)) if tier != "thorough" else tuple(alpha.axes(seed))):
        def mk(t, ax=ax):
            parts = [b.copy() for b in base]
            parts[rs] = ax * t
            return [list(np.concatenate(parts))]
        for lo, hi in harvest.walk(prog, mk, sorted(set(alpha.ANGLES_FULL + alpha.ANGLES_BEYOND))):
            res.add_set("harvested_boundaries", "%s.left_jacobian theta=%r|%r" % (alg, lo, hi))
            for t in (lo, hi):
                parts = [b.copy() for b in base]
                parts[rs] = ax * t
                elems.append(dict(tag="harvest(theta=%r)" % t, p=np.concatenate(parts)))
    for op_ in ("left_jacobian", "right_jacobian", "left_jacobian_inv", "right_jacobian_inv"):
        for p_ in harvest.lie_members(B, op_, seed, tier):
            elems.append(dict(tag="harvest(%s)" % op_, p=p_))
            res.add_set("harvested_members", "%s.%s" % (alg, op_))
    # the upper end of the stated domain [0, 2 pi): the inverse Jacobians have their pole at 2 pi; members approach it from below
    for k, ax in enumerate(alpha.axes(seed)):
        for d in NEAR_FULL_TURN:
            parts = [b.copy() * (1.0 if k % 2 == 0 else -0.5) for b in base]
            parts[rs] = ax * (2 * math.pi - d)
            elems.append(dict(tag="full_turn_minus(%g)" % d, p=np.concatenate(parts)))
    part, nparts = case.get("part", 0), case.get("nparts", 1)
    elems = elems[part::nparts]
    na = B.na
    Ia = np.eye(na)
    for e in elems:
        x = e["p"]
        th = float(np.linalg.norm(gutil.slots_of(AL, x)[rs]))
        if th >= 2 * math.pi - 1e-6:
            res.count("excluded_by_reference")
            continue
        delta = 2 * math.pi - th
        res.count("evaluations")
        if maxabs(x) > 0:
            res.nontrivial.add(hash(x.tobytes()))
        Jl_ref, Jr_ref, resid = ref_jacobians(B, x)
        res.outcomes.add(hash(np.round(Jl_ref, 8).tobytes()))
        cls = "theta=0" if th == 0 else ("theta<0.1" if th < 0.1 else ("theta<=pi" if th <= math.pi else "theta>pi"))
        Jl = B.call("left_jacobian", x)
        Jr = B.call("right_jacobian", x)
        for nm, J, Jref in (("left_jacobian", Jl, Jl_ref), ("right_jacobian", Jr, Jr_ref)):
            ok, er = close(J, Jref, scale=1 + maxabs(Jref))
            if not ok:
                res.fail(site="%s.%s" % (alg, nm), clause="jacobian_is_differential_of_exp", cls=cls,
                         detail=dict(x=x, tag=e["tag"], err=er, got_col0=J[:, 0] if J.ndim == 2 else J, want_col0=Jref[:, 0]),
                         sub="algebra", case=case)
        # inverses
        cond = np.linalg.cond(Jl_ref)
        for nm, nmi, Jref in (("left_jacobian", "left_jacobian_inv", Jl_ref), ("right_jacobian", "right_jacobian_inv", Jr_ref)):
            Ji = B.call(nmi, x)
            Jiref = np.linalg.inv(Jref)
            # float evaluation of the closed forms loses eps / delta^2 to cancellation in cos(theta) - 1 next to the pole
            ok, er = close(Ji, Jiref, scale=(1 + maxabs(Jiref)) * (1.0 + 1e-4 / delta ** 2))
            if not ok:
                res.fail(site="%s.%s" % (alg, nmi), clause="inverse_jacobian_is_matrix_inverse", cls=cls,
                         detail=dict(x=x, tag=e["tag"], err=er, cond=cond), sub="algebra", case=case)
        # J_l = Ad_exp(x) J_r = J_r(-x)
        Ad = B.call("Ad", B.vec("exp", x))
        ok1, e1 = close(Jl, Ad @ Jr, scale=1 + maxabs(Ad) * maxabs(Jr))
        ok2, e2 = close(Jl, B.call("right_jacobian", -x), scale=1 + maxabs(Jl_ref))
        if not ok1:
            res.fail(site="%s.left_jacobian" % alg, clause="Jl_eq_Ad_exp_Jr", cls=cls, detail=dict(x=x, err=e1), sub="algebra", case=case)
        if not ok2:
            res.fail(site="%s.left_jacobian" % alg, clause="Jl_eq_Jr_of_minus_x", cls=cls, detail=dict(x=x, err=e2), sub="algebra", case=case)
        # Q blocks (se3): published left_Q/right_Q equal the off-diagonal blocks of the true Jacobians
        if alg == "se3":
            xe = lib.lie.se3.elem(ca.DM(x))
            Ql = np.array(ca.DM(ca.densify(xe.left_Q())), dtype=float) if False else None
    res.samples.append(dict(algebra=alg, n=len(elems), example=elems[len(elems) // 3]["p"]))
    return res


_QFN = {}


def q_functions():
    if not _QFN:
        x = ca.SX.sym("x", 6)
        e = lib.lie.se3.elem(x)
        _QFN["left_Q"] = ca.Function("left_Q", [x], [ca.densify(e.left_Q())])
        _QFN["right_Q"] = ca.Function("right_Q", [x], [ca.densify(e.right_Q())])
    return _QFN


def explore_Q(case):
    tier, seed = case["tier"], case["seed"]
    res = core.Result()
    B = lib.built("SE3Quat")
    AL = lib.alg_layout(B.G)
    try:
        fns = q_functions()
    except NotImplementedError:
        res.count("evaluations")
        res.count("not_offered")
        return res
    except Exception as ex:
        res.count("evaluations")
        res.fail(site="se3.left_Q", clause="operation_raises", cls=type(ex).__name__, detail=dict(msg=str(ex)[:200]), sub="Q", case=case)
        return res
    elems = alpha.elements(AL, seed, small=False)
    for e in elems:
        x = e["p"]
        th = float(np.linalg.norm(x[3:]))
        if th >= 2 * math.pi - 1e-6:
            continue
        res.count("evaluations")
        if maxabs(x) > 0:
            res.nontrivial.add(hash(x.tobytes()))
        Jl_ref, Jr_ref, _ = ref_jacobians(B, x)
        for nm, Jref in (("left_Q", Jl_ref), ("right_Q", Jr_ref)):
            Q = np.array(fns[nm](x), dtype=float)
            want = Jref[0:3, 3:6]
            ok, er = close(Q, want, scale=1 + maxabs(want))
            if not ok:
                res.fail(site="se3." + nm, clause="Q_is_offdiagonal_block_of_jacobian", cls="theta<=pi" if th <= math.pi else "theta>pi",
                         detail=dict(x=x, err=er), sub="Q", case=case)
    res.samples.append(dict(Q_cases=len(elems)))
    return res


# ---------------- group level kinematic Jacobians --------------------------------------------------
def _quad_R(q):
    """un-normalised homogeneous quadratic form of the textbook quaternion->R map"""
    w, x, y, z = q
    return np.array([
        [w * w + x * x - y * y - z * z, 2 * (x * y - w * z), 2 * (x * z + w * y)],
        [2 * (x * y + w * z), w * w - x * x + y * y - z * z, 2 * (y * z - w * x)],
        [2 * (x * z - w * y), 2 * (y * z + w * x), w * w - x * x - y * y + z * z]])


def _R_mrp_mp(r):
    n2 = r[0] * r[0] + r[1] * r[1] + r[2] * r[2]
    q = [(1 - n2) / (1 + n2)] + [2 * c / (1 + n2) for c in r]
    w, x, y, z = q
    return mpmath.matrix([
        [w * w + x * x - y * y - z * z, 2 * (x * y - w * z), 2 * (x * z + w * y)],
        [2 * (x * y + w * z), w * w - x * x + y * y - z * z, 2 * (y * z - w * x)],
        [2 * (x * z - w * y), 2 * (y * z + w * x), w * w - x * x - y * y + z * z]])


def explore_kinematic(case):
    tier, seed = case["tier"], case["seed"]
    res = core.Result()
    ws = [np.array([1.0, 0, 0]), np.array([0, 1.0, 0]), np.array([0, 0, 1.0]), np.array([1.0, -2.0, 3.0]), alpha.generic_vec(seed, 3)]
    rvs = alpha.rotvecs(seed, small=False)
    # quaternion
    BQ = lib.built("SO3Quat")
    for op in ("g_left_jacobian", "g_right_jacobian"):
        BQ.get(op)
        if BQ.status[op] != "ok":
            res.count("evaluations")
            res.fail(site="SO3Quat." + op[2:], clause="operation_raises", cls=BQ.status[op], detail=dict(status=BQ.status[op]), sub="kinematic", case=case)
    if BQ.status["g_left_jacobian"] == "ok" and BQ.status["g_right_jacobian"] == "ok":
        for v in rvs:
            for tag, q, R in alpha.rot_reps("Quat", v):
                Jl = BQ.call("g_left_jacobian", q)
                Jr = BQ.call("g_right_jacobian", q)
                R0 = _quad_R(q)
                for w in ws:
                    res.count("evaluations")
                    res.nontrivial.add(hash(q.tobytes() + w.tobytes()))
                    for side, J in (("left", Jl), ("right", Jr)):
                        if J.shape != (4, 3):
                            res.fail(site="SO3Quat.%s_jacobian" % side, clause="shape_4x3", cls=tag, detail=dict(shape=J.shape), sub="kinematic", case=case)
                            continue
                        qd = J @ w
                        dR = _quad_R(q + qd) - R0 - _quad_R(qd)  # exact bilinear term
                        want = ref.hat(w) @ R0 if side == "left" else R0 @ ref.hat(w)
                        ok, er = close(dR, want, scale=1 + maxabs(w))
                        if not ok or abs(float(q @ qd)) > 1e-12 * (1 + maxabs(w)):
                            res.fail(site="SO3Quat.%s_jacobian" % side, clause="quaternion_kinematics", cls=tag,
                                     detail=dict(q=q, w=w, qdot=qd, err=er, q_dot_qdot=float(q @ qd)), sub="kinematic", case=case)
    # MRP right jacobian
    BM = lib.built("SO3Mrp")
    BM.get("g_right_jacobian")
    if BM.status["g_right_jacobian"] != "ok":
        res.count("evaluations")
        res.fail(site="SO3Mrp.right_jacobian", clause="operation_raises", cls=BM.status["g_right_jacobian"], detail={}, sub="kinematic", case=case)
    else:
        mp = mpmath.mp.clone()
        mp.dps = 50
        for v in rvs:
            for tag, r, R in alpha.rot_reps("Mrp", v):
                if float(r @ r) > 1e4:
                    continue
                J = BM.call("g_right_jacobian", r)
                for w in ws:
                    res.count("evaluations")
                    res.nontrivial.add(hash(r.tobytes() + w.tobytes() + b"m"))
                    rd = J @ w
                    h = mpmath.mpf(10) ** (-18)
                    rp = [mpmath.mpf(float(a)) + h * mpmath.mpf(float(b)) for a, b in zip(r, rd)]
                    rm = [mpmath.mpf(float(a)) - h * mpmath.mpf(float(b)) for a, b in zip(r, rd)]
                    D = (_R_mrp_mp(rp) - _R_mrp_mp(rm)) / (2 * h)
                    dR = np.array([[float(D[i, j]) for j in range(3)] for i in range(3)])
                    R0 = ref.R_from_mrp(r)
                    want = R0 @ ref.hat(w)
                    ok, er = close(dR, want, scale=(1 + maxabs(w)) * (1 + float(r @ r)))
                    if not ok:
                        res.fail(site="SO3Mrp.right_jacobian", clause="mrp_kinematics", cls=tag,
                                 detail=dict(r=r, w=w, rdot=rd, err=er), sub="kinematic", case=case)
    res.samples.append(dict(kinematic_rotations=len(rvs), omegas=len(ws)))
    return res


def explore_pyapi(case):
    """numeric Python-API path, object reuse and call history (see mc/numapi.py)"""
    from .. import numapi
    tier, seed, which = case["tier"], case["seed"], case["which"]
    res = core.Result()
    if which in ("SO3Quat", "SO3Mrp"):
        B = lib.built(which)
        kind = which[3:]
        rvs = alpha.rotvecs(seed, small=(tier != "thorough"))
        elems = []
        for v in rvs:
            for tag, p, R in alpha.rot_reps(kind, v):
                if kind == "Mrp" and float(p @ p) > 1e4:
                    continue
                elems.append(p)
        targets = ["g_left_jacobian", "g_right_jacobian"]
        numapi.check_group(res, B, elems, [], case, "pyapi", targets)
        numapi.check_forms(res, B, elems, [], case, "pyapi", targets)
        numapi.check_composed(res, B, elems[:16], [], case, "pyapi", firsts=["inverse", "square"], seconds=["g_right_jacobian"])
        numapi.check_aliasing(res, B, elems[:16], [], case, "pyapi", targets)
        numapi.check_spellings(res, B, elems[:8], [v for v in rvs[:8]], case, "pyapi")
        numapi.check_threads(res, B, numapi.generic_pair(elems), numapi.generic_pair(list(rvs)), case, "pyapi", ("left_jacobian", "right_jacobian", "left_jacobian_inv", "right_jacobian_inv", "g_left_jacobian", "g_right_jacobian"))
        numapi.check_history(res, B, elems, [], case, "pyapi", targets, ["to_Matrix", "Ad", "inverse", "log", "product"] + targets)
        for p in elems:
            res.nontrivial.add(hash(p.tobytes()))
    else:
        B = lib.built(HANDLES[which])
        AL = lib.alg_layout(B.G)
        xs = [e["p"] for e in alpha.elements(AL, seed, small=True, cap_product=60 if tier != "thorough" else 400)]
        xs = [x for x in xs if np.linalg.norm(gutil.slots_of(AL, x)[-1]) < 2 * math.pi - 0.05]
        targets = ["left_jacobian", "right_jacobian", "left_jacobian_inv", "right_jacobian_inv"]
        numapi.check_group(res, B, [], xs, case, "pyapi", targets, tol=1e-9)
        numapi.check_forms(res, B, [], xs, case, "pyapi", targets, tol=1e-9)
        numapi.check_composed(res, B, [e for e in (B.vec("exp", x) for x in xs[:10]) if np.all(np.isfinite(e))], xs[:12], case, "pyapi", firsts=["neg", "log", "exp", "inverse"],
                              seconds=["left_jacobian", "g_right_jacobian"])
        numapi.check_aliasing(res, B, [], xs[:14], case, "pyapi", targets, tol=1e-9)
        numapi.check_spellings(res, B, [e for e in (B.vec("exp", x) for x in xs[:6]) if np.all(np.isfinite(e))], xs[:8], case, "pyapi", tol=1e-9)
        numapi.check_history(res, B, [], xs, case, "pyapi", targets, ["exp", "ad", "wedge"] + targets, tol=1e-9)
        gen_xs = numapi.generic_pair(xs)
        quick_ = tier != "thorough"
        numapi.check_threads(res, B, [], gen_xs, dict(case, tier="thorough"), "pyapi", targets, max_runs=(250 if quick_ else 2500),
                             only_pairs=([("left_jacobian", "left_jacobian"), ("left_jacobian_inv", "right_jacobian")] if quick_ else None))
        for x in xs:
            if maxabs(x) > 0:
                res.nontrivial.add(hash(x.tobytes()))
    res.outcomes.add(len(res.fails))
    res.samples.append(dict(which=which, pyapi=True))
    return res


class _SubP:
    chunks = 1

    def cases(self, tier, seed):
        return [dict(tier=tier, seed=seed, which=w) for w in ("SO3Quat", "SO3Mrp", "so3", "se3", "se23")]

    def run(self, case):
        return explore_pyapi(case)


class _SubA:
    chunks = 1

    def cases(self, tier, seed):
        return [dict(algebra=a, tier=tier, seed=seed, part=p, nparts=n) for a, n in (("so3", 2), ("se3", 5), ("se23", 9)) for p in range(n)]

    def run(self, case):
        return explore_algebra(case)


class _SubQ:
    chunks = 1

    def cases(self, tier, seed):
        return [dict(tier=tier, seed=seed)]

    def run(self, case):
        return explore_Q(case)


class _SubK:
    chunks = 1

    def cases(self, tier, seed):
        return [dict(tier=tier, seed=seed)]

    def run(self, case):
        return explore_kinematic(case)


SUBCHECKS = {"algebra": _SubA(), "Q": _SubQ(), "kinematic": _SubK(), "pyapi": _SubP()}
REPLAY = {"algebra": lambda c: explore_algebra(c).fails, "Q": lambda c: explore_Q(c).fails, "kinematic": lambda c: explore_kinematic(c).fails,
          "pyapi": lambda c: explore_pyapi(c).fails}

# results must not depend on which library calls were made earlier in the process (see mc/order.py)
from .. import order as _order  # noqa: E402

_ORDER = _order.OrderSub("C05", "lie", lambda k: 'jacobian' in k)
SUBCHECKS["order"] = _ORDER
REPLAY["order"] = _ORDER.replay
