"""C07 - SO(3) representation conversions preserve the rotation and yield valid parameters.

explorer : product over source rotations x source representatives x all conversion words of length <= 2 (thorough 3)
           through the representation graph (12 ordered pairs), + from_Matrix of all four + shadow_if_necessary;
           Shepperd branch edges and gimbal-band edges are harvested from the compiled converters by signature-flip
           bisection and approached from both sides.
oracle   : textbook reference maps (quaternion->R, MRP->R, Euler321->R, DCM reshape) applied to the raw result equal the
           source's reference rotation (1e-9 outside the +-1e-3 rad gimbal band, 2e-3 inside); validity of the result.
"""
from __future__ import annotations

import contextlib
import io
import itertools
import math

import casadi as ca
import numpy as np

from .. import alpha, core, gutil, harvest, lib, ref, sxvm
from ..gutil import maxabs

LEVEL = "exploration"
RULE = ("sources: 7 axes x 16 angles in [0, pi] (incl. exactly pi, 2pi/3 = Shepperd trace edge) + gimbal family Rz(psi)Ry(+-(pi/2 - d))Rx(phi), "
        "d in {0, 5e-4, 1e-3 -/+, 0.01} + harvested branch-edge neighbours; representatives q, -q, (-1,0,0,0), MRP inside / shadow / |r|=1, exact DCM, Euler; "
        "every conversion word of length <= 2 (quick) / 3 (thorough). non-trivial = source rotation angle > 1e-6; distinct by (word, raw source bytes)")
ASSUMPTIONS = ["textbook maps in numpy double are the reference meaning of raw parameters", "values between alphabet members not covered"]
KINDS = ["Quat", "Mrp", "Dcm", "Euler"]
NPAR = {"Quat": 4, "Mrp": 3, "Dcm": 9, "Euler": 3}
BAND = 1e-3


def bounds(tier):
    return dict(word_length=3 if tier == "thorough" else 2)


_CONV = {}
_STATUS = {}


def conv(to, frm):
    """numeric function raw(frm) -> raw(to) built from the library's own converter"""
    k = (to, frm)
    if k not in _STATUS:
        try:
            Gt = lib.SO3S[to]
            Gf = lib.SO3S[frm] if frm != "Matrix" else None
            p = ca.SX.sym("p", NPAR[frm]) if frm != "Matrix" else None
            if frm == "Matrix":
                M = ca.SX.sym("M", 3, 3)
                _CONV[k] = ca.Function("c", [M], [ca.densify(Gt.from_Matrix(M).param)])
            else:
                meth = getattr(Gt, "from_" + frm)
                _CONV[k] = ca.Function("c", [p], [ca.densify(meth(Gf.elem(p)).param)])
            _STATUS[k] = "ok"
        except NotImplementedError:
            _STATUS[k] = "not_implemented"
        except Exception as ex:
            _STATUS[k] = "error:%s: %s" % (type(ex).__name__, str(ex)[:200])
    return _CONV.get(k)


def _shadow_fn():
    k = ("shadow", "Mrp")
    if k not in _STATUS:
        try:
            p = ca.SX.sym("p", 3)
            e = lib.lie.SO3Mrp.elem(p)
            lib.lie.SO3Mrp.shadow_if_necessary(e)
            _CONV[k] = ca.Function("s", [p], [ca.densify(e.param)])
            _STATUS[k] = "ok"
        except Exception as ex:
            _STATUS[k] = "error:%s: %s" % (type(ex).__name__, str(ex)[:200])
    return _CONV.get(k)


def call(f, p):
    return np.array(f.call([ca.DM(np.asarray(p, dtype=float))])[0], dtype=float).reshape(-1)


def pitch_of(R):
    return math.asin(max(-1.0, min(1.0, -R[2, 0])))


def in_band(R, margin=0.0):
    return abs(abs(pitch_of(R)) - math.pi / 2) < BAND + margin


def valid(kind, p, src_exact):
    """validity clauses of a result; returns list of (clause, detail)"""
    out = []
    if not np.all(np.isfinite(p)):
        return [("result_finite", dict(result=p))]
    if kind == "Quat":
        if abs(float(np.linalg.norm(p)) - 1.0) > 1e-12:
            out.append(("quaternion_unit_norm", dict(norm=float(np.linalg.norm(p)))))
    elif kind == "Mrp":
        if float(np.linalg.norm(p)) > 1.0 + 1e-12:
            out.append(("mrp_on_non_shadow_branch", dict(norm=float(np.linalg.norm(p)))))
    elif kind == "Dcm":
        R = p.reshape(3, 3, order="F")
        if maxabs(R.T @ R - np.eye(3)) > 1e-12 or abs(np.linalg.det(R) - 1.0) > 1e-12:
            out.append(("dcm_orthonormal_det1", dict(orth_err=maxabs(R.T @ R - np.eye(3)), det=float(np.linalg.det(R)))))
    elif kind == "Euler":
        if not (-math.pi / 2 - 1e-12 <= p[1] <= math.pi / 2 + 1e-12):
            out.append(("euler_pitch_in_range", dict(pitch=float(p[1]))))
    return out


def sources(seed, tier):
    """list of (tag, R_ref, dict kind->list of (reptag, raw))"""
    out = []
    rvs = alpha.rotvecs(seed, angles=alpha.ANGLES_FULL)
    fam = []
    for sgn in (+1, -1):
        for d in (0.0, 5e-4, 1e-3 * (1 - 1e-9), 1e-3 * (1 + 1e-6), 0.01):
            for psi, phi in ((0.3, -0.4), (0.0, 0.0), (-2.0, 1.0)):
                e = np.array([psi, sgn * (math.pi / 2 - d), phi])
                fam.append(("gimbal(psi=%g,theta=%+.7f,phi=%g)" % (psi, e[1], phi), e))
    for v in rvs:
        R = ref.rot(v)
        reps = {}
        for kind in KINDS:
            reps[kind] = [(t, p) for t, p, _ in alpha.rot_reps(kind, v)]
            if kind == "Euler" and not reps[kind]:
                reps[kind] = [("e_band", ref.euler321_of_R(R))]
        out.append(("rot(%s)" % ",".join("%.4g" % c for c in v), R, reps))
    for tag, e in fam:
        R = ref.R_from_euler321(e)
        v = ref.logm_rot(R)
        q = ref.quat_of(v)
        # make the representatives from the exact R through reference maps (not through v, which loses digits)
        reps = {"Euler": [("e", e)], "Dcm": [("R", R.reshape(-1, order="F").copy())],
                "Quat": [("q+", q), ("q-", -q)], "Mrp": [("r", ref.mrp_of(v))]}
        # the quaternion/MRP of v only reproduce R to ~1e-15; reference rotation for those sources is their own
        out.append((tag, R, reps))
    # rotations by exactly pi written literally: quaternion (0, n) with scalar part exactly 0.0 (both signs) and the exactly symmetric
    # matrix 2 n n^T - I (axis-angle constructors give cos(pi/2) = 6e-17 instead)
    for n in (np.array([1.0, 0, 0]), np.array([0, 1.0, 0]), np.array([0, 0, 1.0]), np.array([0.6, 0.8, 0.0]), np.array([0.0, -0.6, 0.8]), np.array([2.0, -1.0, 2.0]) / 3.0):
        R = 2.0 * np.outer(n, n) - np.eye(3)
        q = np.concatenate([[0.0], n])
        out.append(("literal_half_turn(%s)" % ",".join("%g" % c for c in n), R,
                    {"Quat": [("q0=0", q), ("q0=-0", -q)], "Dcm": [("R_sym", R.reshape(-1, order="F").copy())], "Mrp": [("r_unit", n.copy())], "Euler": []}))
    # the exact element (-1,0,0,0), which the library itself produces as the square of a 180 degree flip
    out.append(("q=(-1,0,0,0)", np.eye(3), {"Quat": [("q-exact-minus-one", np.array([-1.0, 0, 0, 0]))], "Mrp": [], "Dcm": [], "Euler": []}))
    return out


def harvest_sources(seed, res):
    """both neighbours of every branch edge of Quat.from_Matrix (Shepperd) and Euler.from_Matrix along rotation rays"""
    extra = []
    for to in ("Quat", "Euler"):
        f = conv(to, "Matrix")
        if f is None:
            continue
        prog = sxvm.compile_fn(f)
        for ax in alpha.axes(seed):
            def mk(t, ax=ax):
                return [list(ref.rot(ax * t).reshape(-1, order="F"))]
            for lo, hi in harvest.walk(prog, mk, [0.0, 0.5, 1.0, 1.5, 2.0, 2.5, 3.0, math.pi]):
                res.add_set("harvested_boundaries", "%s.from_Matrix axis=%s theta=%r|%r" % (to, np.round(ax, 3).tolist(), lo, hi))
                for t in (lo, hi):
                    extra.append(ax * t)
    # every converter between two parameterisations: members next to every outcome change along the rotation angle (signature flips,
    # windows that open and close between grid neighbours, pieces of sign / fabs / floor), three axes
    ts = [0.0, 1e-6, 1e-3, 0.05, 0.2, 0.5, 1.0, 1.5, 2.0, 2.5, 3.0, math.pi]
    for to in KINDS:
        for frm in KINDS:
            if frm == to:
                continue
            f = conv(to, frm)
            if f is None:
                continue
            prog = sxvm.compile_fn(f)
            for ax in alpha.axes(seed)[:7:3]:
                def mk(t, ax=ax, frm=frm):
                    return [list(alpha.rot_reps(frm, ax * t)[0][1])]
                try:
                    mem = harvest.ray_members(prog, mk, ts, per_cell=8, cap=24)
                except Exception:  # noqa: BLE001 - a representation without a canonical member on this ray
                    continue
                for t in mem:
                    res.add_set("harvested_boundaries", "%s.from_%s theta=%r" % (to, frm, t))
                    extra.append(ax * t)
    return extra


def explore(case):
    tier, seed, part, nparts = case["tier"], case["seed"], case["part"], case["nparts"]
    res = core.Result()
    # ---- build all converters ---------------------------------------------------------------------
    for to in KINDS:
        for frm in KINDS + ["Matrix"]:
            if frm == to:
                continue
            conv(to, frm)
            st = _STATUS[(to, frm)]
            if part == 0:
                res.count("evaluations")
                if st.startswith("error"):
                    res.fail(site="SO3%s.from_%s" % (to, frm), clause="operation_raises", cls=st.split(":")[1], detail=dict(status=st),
                             sub="convert", case=case)
    _shadow_fn()
    srcs = sources(seed, tier)
    if part == 0 or True:
        tmp = core.Result()
        for v in harvest_sources(seed, res if part == 0 else tmp):
            R = ref.rot(v)
            reps = {k: [(t, p) for t, p, _ in alpha.rot_reps(k, v)] for k in KINDS}
            srcs.append(("harvest(%s)" % ",".join("%.17g" % c for c in v), R, reps))
    srcs = srcs[part::nparts]
    L = 3 if tier == "thorough" else 2
    words = []
    for n in range(1, L + 1):
        for w in itertools.product(KINDS, repeat=n):
            words.append(w)
    for tag, R, reps in srcs:
        th = ref.rot_angle(R)
        for frm in KINDS:
            for rtag, p0 in reps[frm]:
                # the meaning of the source is the reference rotation of ITS raw parameters
                Rsrc = gutil.ref_R_of_slot(frm, p0)
                src_band = in_band(Rsrc, 1e-9)
                # from_Matrix entry points
                for to in KINDS:
                    f = conv(to, "Matrix")
                    if f is None:
                        continue
                    res.count("evaluations")
                    q = np.array(f.call([ca.DM(Rsrc)])[0], dtype=float).reshape(-1)
                    _judge(res, "SO3%s.from_Matrix" % to, to, q, Rsrc, src_band, rtag, dict(source=tag, rep=rtag, raw=p0), case)
                for w in words:
                    if w[0] == frm or any(a == b for a, b in zip(w, w[1:])):
                        continue
                    p, cur, okw = p0, frm, True
                    for to in w:
                        f = conv(to, cur)
                        if f is None:
                            okw = False
                            break
                        p = call(f, p)
                        cur = to
                    if not okw:
                        continue
                    res.count("evaluations")
                    if th > 1e-6:
                        res.nontrivial.add(hash((w, p0.tobytes())))
                    site = "SO3%s.from_%s" % (w[-1], (frm if len(w) == 1 else w[-2]))
                    _judge(res, site, w[-1], p, Rsrc, src_band or ("Euler" in w[:-1] and in_band(Rsrc, 1e-9)), rtag,
                           dict(source=tag, rep=rtag, raw=p0, word=[frm] + list(w)), case, word_len=len(w))
            # shadow_if_necessary
        f = _shadow_fn()
        if f is not None:
            for rtag, p0 in reps["Mrp"]:
                res.count("evaluations")
                q = call(f, p0)
                Rsrc = ref.R_from_mrp(p0)
                bad = (not np.all(np.isfinite(q))) or float(np.linalg.norm(q)) > 1 + 1e-12 or ref.rot_dist(ref.R_from_mrp(q), Rsrc) > 1e-9
                if bad:
                    res.fail(site="SO3Mrp.shadow_if_necessary", clause="shadow_preserves_rotation_and_norm_le_1", cls=rtag,
                             detail=dict(r=p0, result=q), sub="convert", case=case)
    numeric_path(res, srcs[:: max(1, len(srcs) // 12)], case)
    matrix_forms(res, srcs[:: max(1, len(srcs) // 40)], case)
    aliasing(res, srcs[:: max(1, len(srcs) // 14)], case)
    res.samples.append(dict(n_sources=len(srcs), n_words=len(words), example=srcs[min(5, len(srcs) - 1)][0]))
    return res


def numeric_path(res, srcs, case):
    """conversions called directly on elements built from numeric values (no casadi.Function), element reuse, argument mutation and
    `param` reassignment (see mc/numapi.py for why)"""
    from .. import numapi
    for tag, R, reps in srcs:
        for frm in KINDS:
            for rtag, p0 in reps[frm]:
                for to in KINDS:
                    if to == frm or conv(to, frm) is None:
                        continue
                    res.count("evaluations")
                    res.count("numeric_api_calls")
                    Gt, Gf = lib.SO3S[to], lib.SO3S[frm]
                    want = call(conv(to, frm), p0)
                    X = Gf.elem(ca.DM(p0))
                    try:
                        r1 = numapi.ev(getattr(Gt, "from_" + frm)(X).param).reshape(-1)
                        r2 = numapi.ev(getattr(Gt, "from_" + frm)(X).param).reshape(-1)
                    except Exception as ex:
                        res.fail(site="SO3%s.from_%s" % (to, frm), clause="numeric_api:call_raises", cls=type(ex).__name__, detail=dict(raw=p0, error=str(ex)[:200]), sub="convert", case=case)
                        continue
                    info = dict(source=tag, rep=rtag, raw=p0)

                    def same_meaning(a, b):
                        # the two paths may differ in the sign of a zero (atan2(+-0, -x) = +-pi): compare what the parameters mean
                        if numapi._same(a, b, 1e-11)[0]:
                            return True
                        if not (np.all(np.isfinite(a)) and np.all(np.isfinite(b))):
                            return False
                        return ref.rot_dist(gutil.ref_R_of_slot(to, a), gutil.ref_R_of_slot(to, b)) <= 1e-9
                    if not same_meaning(r1, want):
                        res.fail(site="SO3%s.from_%s" % (to, frm), clause="numeric_api:numeric_equals_symbolic_path", cls=rtag, detail=dict(info, numeric=r1, symbolic=want), sub="convert", case=case)
                        continue
                    if not numapi._same(r2, r1, 0.0)[0]:
                        res.fail(site="SO3%s.from_%s" % (to, frm), clause="numeric_api:same_result_on_reuse", cls=rtag, detail=dict(info, first=r1, second=r2), sub="convert", case=case)
                    # the same numbers supplied in another form: numeric SX, structurally sparse, expression of a symbol
                    for form in numapi.FORMS:
                        if form == "sparse" and np.all(np.asarray(p0) != 0):
                            continue
                        res.count("evaluations")
                        res.count("input_form_calls")
                        try:
                            rf = numapi.eval_form(Gf, Gf.algebra, "g", lambda Xe: getattr(Gt, "from_" + frm)(Xe).param, (p0,), form).reshape(-1)
                        except Exception as ex:
                            res.fail(site="SO3%s.from_%s" % (to, frm), clause="numeric_api:call_raises", cls="form=" + form, detail=dict(info, error="%s: %s" % (type(ex).__name__, str(ex)[:200])), sub="convert", case=case)
                            continue
                        if not same_meaning(rf, want):
                            res.fail(site="SO3%s.from_%s" % (to, frm), clause="numeric_api:result_independent_of_input_form", cls="form=" + form, detail=dict(info, got=rf, want=want), sub="convert", case=case)
                    if not numapi._same(numapi.ev(X.param).reshape(-1), p0, 0.0)[0]:
                        res.fail(site="SO3%s.from_%s" % (to, frm), clause="numeric_api:arguments_not_mutated", cls=rtag, detail=dict(info, after=numapi.ev(X.param).reshape(-1)), sub="convert", case=case)
                    # reassign the parameters of the same element object: the next conversion must see the new value
                    others = [q for t2, q in reps[frm] if q is not p0] + [p for (_, _, rr) in srcs for (_, p) in rr[frm]][:3]
                    for p2 in others[:2]:
                        if np.array_equal(p2, p0):
                            continue
                        X.param = ca.SX(ca.DM(p2))
                        r4 = numapi.ev(getattr(Gt, "from_" + frm)(X).param).reshape(-1)
                        want4 = call(conv(to, frm), p2)
                        if not same_meaning(r4, want4):
                            res.fail(site="SO3%s.from_%s" % (to, frm), clause="numeric_api:param_reassignment_takes_effect", cls=rtag,
                                     detail=dict(first=p0, then=p2, got=r4, want=want4), sub="convert", case=case)
                        break


def aliasing(res, srcs, case):
    """several rotations alive at once: to_Matrix results held together, and conversions of elements built from one refilled work vector"""
    from .. import numapi
    names = {"Quat": "SO3Quat", "Mrp": "SO3Mrp", "Dcm": "SO3Dcm", "Euler": "SO3EulerB321"}
    pools = {k: [] for k in KINDS}
    for tag, R, reps in srcs:
        for k in KINDS:
            for rtag, p0 in reps[k][:1]:
                if np.all(np.isfinite(p0)):
                    pools[k].append(np.asarray(p0, dtype=float))
    for k in KINDS:
        B = lib.built(names[k])
        B.get("to_Matrix")
        numapi.check_aliasing(res, B, pools[k][:12], [], case, "convert", ("to_Matrix",))
    for frm in KINDS:
        Gf = lib.SO3S[frm]
        pool = pools[frm][:8]
        for to in KINDS:
            if to == frm or conv(to, frm) is None:
                continue
            Gt = lib.SO3S[to]
            for i in range(len(pool) - 1):
                pa, pb = pool[i], pool[i + 1]
                if np.array_equal(pa, pb):
                    continue
                res.count("evaluations", 2)
                res.count("aliasing_calls", 2)
                buf = ca.SX(len(pa), 1)
                for j, v in enumerate(pa):
                    buf[j] = float(v)
                Xa = Gf.elem(buf)
                for j, v in enumerate(pb):
                    buf[j] = float(v)
                Xb = Gf.elem(buf)
                ca_, cb_ = getattr(Gt, "from_" + frm)(Xa), getattr(Gt, "from_" + frm)(Xb)  # both alive before evaluation
                ga, gb = numapi.ev(ca_.param).reshape(-1), numapi.ev(cb_.param).reshape(-1)
                for which, got, p_ in (("first", ga, pa), ("second", gb, pb)):
                    want = call(conv(to, frm), p_)
                    okv = numapi._same(got, want, 1e-11)[0] or (np.all(np.isfinite(got)) and np.all(np.isfinite(want)) and
                                                              ref.rot_dist(gutil.ref_R_of_slot(to, got), gutil.ref_R_of_slot(to, want)) <= 1e-9)
                    if not okv:
                        res.fail(site="SO3%s.from_%s" % (to, frm), clause="numeric_api:element_keeps_its_value_when_the_callers_buffer_is_refilled", cls=which,
                                 detail=dict(a=pa, b=pb, got=got, want=want), sub="convert", case=case)
                        break


def matrix_forms(res, srcs, case):
    """from_Matrix given the same rotation matrix as numeric SX and as SX whose exact zeros are structural"""
    from .. import numapi
    for tag, R, reps in srcs:
        for _, pR in reps["Dcm"][:1]:
            Rm = np.asarray(pR, dtype=float).reshape(3, 3, order="F")
            for to in KINDS:
                f = conv(to, "Matrix")
                if f is None:
                    continue
                want = np.array(f.call([ca.DM(Rm)])[0], dtype=float).reshape(-1)
                Ms = ca.SX(3, 3)
                for i in range(3):
                    for j in range(3):
                        if Rm[i, j] != 0:
                            Ms[i, j] = float(Rm[i, j])
                for form, M in (("sx", ca.SX(ca.DM(Rm))), ("sparse", Ms)):  # the entry points are typed ca.SX: DM is not an accepted form
                    if form == "sparse" and np.all(Rm != 0):
                        continue
                    res.count("evaluations")
                    res.count("input_form_calls")
                    try:
                        got = numapi.ev(lib.SO3S[to].from_Matrix(M).param).reshape(-1)
                    except Exception as ex:
                        res.fail(site="SO3%s.from_Matrix" % to, clause="numeric_api:call_raises", cls="form=" + form, detail=dict(source=tag, R=Rm, error="%s: %s" % (type(ex).__name__, str(ex)[:200])), sub="convert", case=case)
                        continue
                    ok = numapi._same(got, want, 1e-11)[0] or (np.all(np.isfinite(got)) and np.all(np.isfinite(want)) and
                                                             ref.rot_dist(gutil.ref_R_of_slot(to, got), gutil.ref_R_of_slot(to, want)) <= 1e-9)
                    if not ok:
                        res.fail(site="SO3%s.from_Matrix" % to, clause="numeric_api:result_independent_of_input_form", cls="form=" + form, detail=dict(source=tag, R=Rm, got=got, want=want), sub="convert", case=case)


def _judge(res, site, kind, p, Rsrc, band, rtag, info, case, word_len=1):
    res.outcomes.add(hash(np.round(Rsrc, 9).tobytes()))
    v = valid(kind, p, True)
    cls = rtag + (";band" if band else "")
    if word_len > 1:
        cls += ";word"
    for clause, d in v:
        d.update(info)
        d["result"] = p
        res.fail(site=site, clause=clause, cls=cls, detail=d, sub="convert", case=case)
    if v and v[0][0] == "result_finite":
        return
    Rres = gutil.ref_R_of_slot(kind, p)
    tol = 2e-3 if (band or (kind == "Euler" and in_band(Rsrc, 1e-9))) else 1e-9
    dist = ref.rot_dist(Rres, Rsrc) if np.all(np.isfinite(Rres)) else float("inf")
    if not dist <= tol * max(1, word_len):
        d = dict(info)
        d.update(result=p, rotation_error=dist, tol=tol)
        res.fail(site=site, clause="same_rotation", cls=cls, detail=d, sub="convert", case=case)


def explore_threads(case):
    """two numeric conversions in two threads (different rotations), every interleaving of the library's Python statements with at most one
    preemption (thorough: two): each returns what it returns alone"""
    from .. import numapi, threads
    res = core.Result()
    to = case["to"]
    v1, v2 = np.array([0.4, -0.7, 1.1]), np.array([-1.2, 0.3, 0.5])
    Gt = lib.SO3S[to]
    quiet = contextlib.redirect_stdout(io.StringIO())
    quiet.__enter__()
    try:
        for frm in [k for k in KINDS if k != to] + ["Matrix"]:
            def mk(v, frm=frm):
                if frm == "Matrix":
                    M = ca.SX(ca.DM(ref.rot(v)))
                    return lambda: numapi.ev(Gt.from_Matrix(M).param).tobytes()
                p = alpha.rot_reps(frm, v)[0][1]
                meth = getattr(Gt, "from_" + frm, None)
                if meth is None:
                    return None
                return lambda: numapi.ev(meth(lib.SO3S[frm].elem(ca.DM(p))).param).tobytes()
            fa, fb = mk(v1), mk(v2)
            if fa is None:
                continue
            try:
                alone = [fa(), fb()]
            except NotImplementedError:
                continue
            for choices, results, npts, capped in threads.explore([fa, fb], ("cyecca/lie/", "cyecca/symbolic.py"), 1 if case["tier"] == "quick" else 2, max_runs=(1500 if case["tier"] == "quick" else 4000)):
                if capped:
                    res.counters["thread_schedules_capped"] += 1
                    break
                res.count("evaluations")
                res.count("schedules")
                res.nontrivial.add(hash((to, frm, tuple(choices))))
                res.counters["max_scheduling_points"] = max(res.counters["max_scheduling_points"], npts)
                bad = [k for k, r_ in enumerate(results) if r_ is None or r_[0] != "ok" or r_[1] != alone[k]]
                if bad:
                    res.fail(site="SO3%s.from_%s" % (to, frm), clause="conversion_independent_of_a_concurrent_conversion", cls="threads", detail=dict(to=to, source=frm, thread=bad[0], schedule=choices,
                             outcome=(results[bad[0]][1] if results[bad[0]] and results[bad[0]][0] != "ok" else "differs from the call alone")), sub="threads", case=case)
                    break
    finally:
        quiet.__exit__(None, None, None)
    res.samples.append(dict(threads_to=to))
    return res


class _Th:
    chunks = 1

    def cases(self, tier, seed):
        return [dict(sub="threads", to=k, tier=tier) for k in KINDS]

    def run(self, case):
        return explore_threads(case)


class _Sub:
    chunks = 1

    def cases(self, tier, seed):
        n = 16
        return [dict(tier=tier, seed=seed, part=i, nparts=n) for i in range(n)]

    def run(self, case):
        return explore(case)


SUBCHECKS = {"convert": _Sub(), "threads": _Th()}
REPLAY = {"convert": lambda c: explore(c).fails, "threads": lambda c: explore_threads(c).fails}

# results must not depend on which library calls were made earlier in the process (see mc/order.py)
from .. import order as _order  # noqa: E402

_ORDER = _order.OrderSub("C07", "lie", lambda k: k.split('/')[-1].startswith('to_') or k.split('/')[-1] == 'from_Matrix')
SUBCHECKS["order"] = _ORDER
REPLAY["order"] = _ORDER.replay
