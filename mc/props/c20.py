"""C20 - the simulation bus delivers every message once, in order, to the right nodes; the estimator node respects its timing rules.

explorer : explicit-state + sched, on the real uros.Core / Publisher / Subscriber / Param / Logger / msgs and the real AttitudeEstimator
           (equation functions replaced by call-through spies).  For every small topology, all event words to the depth over
           {publish right/wrong type on each topic, set_param, run slices with periodic integer-period publishers (exact ties)} are executed on a
           fresh Core, and the simultaneous simpy events inside the run slices are permuted with <= k deviations from FIFO.
oracle   : reference bus model = one Python list of publish calls per topic: every subscriber's inbox equals its topic's list (exactly once,
           in publication order, nobody else), already when publish returns; wrong type => ValueError and no delivery; after set_param every
           node following the parameter topic reads the new value (others keep the old); logger: consecutive periods, non-decreasing time, each
           row = the latest message per topic at the instant the row was taken under the schedule actually taken; registration after lock
           refused.  Estimator: every predict has dt > 0, corrections at least dt_min - 1 ms apart, nothing before initialisation.
"""
from __future__ import annotations

import contextlib
import io
import itertools
import math

import numpy as np
import simpy

from .. import core, sched

with contextlib.redirect_stdout(io.StringIO()):
    import cyecca.sim.msgs as msgs
    import cyecca.sim.uros as uros
    from cyecca.estimate.attitude.estimator import AttitudeEstimator

LEVEL = "model_checking"
RULE = ("topologies: 2 topics (Imu, Mag) + params; subscriber sets = every multiset of <= 3 subscribers from {plain on a, plain on b, relay a->b} (incl. none, two on one topic); "
        "parameter nodes {0,1,2} each following or not following the parameter topic; logger present/absent; periodic publishers with integer periods (1,2),(2,3),(1,1) or none. "
        "events: pub a, pub b, wrong type on a, set_param node, set_param logger/dt, run +1, run +2; all words to the depth; tie-break schedules with <= k deviations. "
        "topic names with pattern / path characters (7 sets) on 3 subscriber sets; wrong objects {Mag, foreign class named Imu, base Msg with Imu layout, other layout} in turn. logger runs of 70000 / 33000 rows (thorough 280000 / 140000). estimator (also at time stamps 4096 s and 1e6 s, with one reused message object, and for a node the caller does not keep): all words over (sensor, delta t) with delta t in {-20,-1,0,1,4,5,6,20} ms. a state = (registry, queue, inboxes) after an event; non-trivial = word with a delivery")
ASSUMPTIONS = ["simpy's event queue is permuted only among events tied at exactly the same (time, priority)", "topologies and words beyond the bounds are not covered"]


def bounds(tier):
    return dict(bus_word_depth=5 if tier == "thorough" else 4, deviations=2 if tier == "thorough" else 1, estimator_word_depth=5 if tier == "thorough" else 4)


SUB_KINDS = ["plain_a", "plain_b", "relay_ab", "fwd_ac"]  # fwd_ac: republishes the very same message object on topic c (same type)
EVENTS = ["pub_a", "pub_b", "wrong_a", "set_p", "set_logdt", "run1", "run2"]


NAME_SETS = [("t[0]", "t0", "t?"), ("imu*", "imu", "imu_raw"), ("x.y", "xay", "x+y"), ("ns/imu", "ns/mag", "ns"), ("A", "a", "a "), ("[ab]", "a", "b"), ("imu", "Imu", "imu$")]


def _foreign_imu():
    """an unrelated message class that happens to be called Imu (a user's own record with another layout)"""
    def __init__(self):
        msgs.Msg.__init__(self, self.dtype)
    return type("Imu", (msgs.Msg,), dict(dtype=np.dtype([("time", "f8"), ("pressure", "f8")]), __init__=__init__))()


WRONG_KINDS = [("Mag", lambda: msgs.Mag()), ("foreign_class_named_Imu", _foreign_imu), ("base_Msg_with_Imu_layout", lambda: msgs.Msg(msgs.Imu.dtype)), ("Params_like", lambda: msgs.Msg(np.dtype([("time", "f8")])))]


def topologies(tier):
    tops = []
    sub_sets = []
    for n in range(0, 4):
        for c in itertools.combinations_with_replacement(range(3), n):
            sub_sets.append(c)
    # forwarding of the same message object to a third topic, alone and next to every other kind
    sub_sets += [(3,), (3, 0), (0, 3), (3, 1), (3, 2), (2, 3), (3, 3), (0, 3, 1), (3, 2, 0)]
    for subs in sub_sets:
        for logger in (True, False):
            tops.append(dict(subs=list(subs), logger=logger, nodes=[True, False], periods=(1, 2)))
    # topic NAMES: the bus treats a topic as an opaque string; names that a pattern language, a path or a dtype field parser would read
    # differently (and that collide once "normalised") must behave exactly like a, b, c
    for names in NAME_SETS:
        for subs in ([0, 1, 2], [3, 0, 1], [0, 0, 1]):
            tops.append(dict(subs=subs, logger=(subs[0] == 0), nodes=[True], periods=(1, 2), names=dict(zip("abc", names))))
    # parameter-node variants and period variants on a fixed subscriber set
    for nodes in ([], [True], [False], [True, True], [False, True]):
        for periods in ((2, 3), (1, 1), None):
            for logger in (True, False):
                tops.append(dict(subs=[0, 1, 2], logger=logger, nodes=nodes, periods=periods))
    return tops


_BUSES = {}  # id(core) -> Bus: several buses may be alive at once (twin exploration); each core's steps go to its own reference model


def _dispatch_observer(c):
    b = _BUSES.get(id(c))
    if b is not None:
        b._after_step(c)


class Bus:
    """one fresh real bus + the reference model, driven event by event"""

    def __init__(self, top, chooser=None):
        self.top = top
        self.fails = []
        sched.ControlledCore.chooser = chooser
        sched.ControlledCore.observer = _dispatch_observer
        self.core = c = sched.ControlledCore()
        _BUSES[id(c)] = self
        self.nm = nm = top.get("names") or {"a": "a", "b": "b", "c": "c"}
        self.pub = {"a": uros.Publisher(c, nm["a"], msgs.Imu), "b": uros.Publisher(c, nm["b"], msgs.Mag), "c": uros.Publisher(c, nm["c"], msgs.Imu)}
        self.n_wrong = 0
        self.ref_pubs = {"a": [], "b": [], "c": []}  # reference model: order of publish calls per topic
        self.latest = {"a": None, "b": None, "c": None}
        self.inbox = []
        self.sub_topic = []
        self.next_id = 1.0
        for i, k in enumerate(top["subs"]):
            kind = SUB_KINDS[k]
            topic = "b" if kind == "plain_b" else "a"
            self.inbox.append([])
            self.sub_topic.append(topic)
            if kind == "relay_ab":
                cb = (lambda i: lambda msg: self._relay(i, msg))(i)
            elif kind == "fwd_ac":
                cb = (lambda i: lambda msg: self._forward(i, msg))(i)
            else:
                cb = (lambda i, topic: lambda msg: self.inbox[i].append(float(msg.data["time"])))(i, topic)
            uros.Subscriber(c, nm[topic], msgs.Imu if topic == "a" else msgs.Mag, cb)
        self.params = []
        for n, follows in enumerate(top["nodes"]):
            # node 0 declares its default with an integer literal (as the estimator does for mag_decl), the others with a float
            p = uros.Param(c, "n%d/p" % n, 1 if n == 0 else 1.0, "f8")
            self.params.append((p, follows))
            if follows:
                uros.Subscriber(c, "params", msgs.Params, (lambda p: lambda msg: p.update())(p))
        self.param_ref = [1.0 for _ in top["nodes"]]  # what each node should read
        self.param_set = [1.0 for _ in top["nodes"]]
        self.logger = uros.Logger(c) if top["logger"] else None
        self.rows_seen = 0
        self.ref_rows = []
        self.ref_logdt = 1.0 / 200  # reference copy of the logger period (follows the parameter topic)
        self.ref_next_row = 0.0  # reference model: time of the next row
        if top["periods"]:
            for topic, per in zip(("a", "b"), top["periods"]):
                simpy.Process(c, self._periodic(topic, per))
        self.until = 0.0
        self.lock_checked = False
        self.params_published = False  # becomes true with the first parameter broadcast (set_param or run)

    # -- driver side ------------------------------------------------------------------------------------
    def _new_msg(self, topic):
        m = msgs.Imu() if topic == "a" else msgs.Mag()
        m.data["time"] = self.next_id
        self.next_id += 1.0
        return m

    def do_publish(self, topic, msg=None):
        msg = msg or self._new_msg(topic)
        mid = float(msg.data["time"])
        self.ref_pubs[topic].append(mid)
        self.latest[topic] = mid
        self.pub[topic].publish(msg)
        self.check_inboxes("after publish on %s" % topic)
        # synchronous delivery: when publish() returns - also a publish() issued from inside a subscriber callback - every subscriber of
        # THIS topic has received the message (subscribers of an enclosing publication on another topic may still be waiting)
        for i, box in enumerate(self.inbox):
            if self.sub_topic[i] == topic and (not box or box[-1] != mid or len(box) != len(self.ref_pubs[topic])):
                if self.ref_pubs[topic] and self.ref_pubs[topic][-1] == mid:
                    self.fails.append(("delivered_synchronously_before_publish_returns", dict(topic=topic, subscriber=i, message=mid, inbox=list(box), published=list(self.ref_pubs[topic]))))

    def _relay(self, i, msg):
        self.inbox[i].append(float(msg.data["time"]))
        m = msgs.Mag()
        m.data["time"] = 1000.0 + float(msg.data["time"])
        self.do_publish("b", m)

    def _forward(self, i, msg):
        self.inbox[i].append(float(msg.data["time"]))
        self.do_publish("c", msg)

    def _periodic(self, topic, period):
        while True:
            self.do_publish(topic)
            yield simpy.Timeout(self.core, period)

    def check_inboxes(self, when):
        for i, box in enumerate(self.inbox):
            want = self.ref_pubs[self.sub_topic[i]]
            # during a nested (relay) publication later subscribers of the outer topic have not been served yet: compare prefixes, full equality at quiescence
            if box != want[:len(box)] or len(box) > len(want):
                self.fails.append(("inbox_is_publication_order_exactly_once", dict(when=when, subscriber=i, topic=self.sub_topic[i], inbox=list(box), published=list(want))))

    def check_quiescent(self, when):
        for i, box in enumerate(self.inbox):
            want = self.ref_pubs[self.sub_topic[i]]
            if box != want:
                self.fails.append(("every_message_delivered_exactly_once_in_order", dict(when=when, subscriber=i, topic=self.sub_topic[i], inbox=list(box), published=list(want))))

    def _after_step(self, c):
        if self.logger is None:
            return
        n = len(self.logger.data_list)
        while self.rows_seen < n:
            row = self.logger.data_list[self.rows_seen]
            self.ref_rows.append(dict(time=float(c.now), a=self.latest["a"], b=self.latest["b"], c=self.latest["c"]))
            got = dict(time=float(row["time"]), a=float(row[self.nm["a"]]["time"]), b=float(row[self.nm["b"]]["time"]), c=float(row[self.nm["c"]]["time"]))
            want = self.ref_rows[-1]
            for k in ("a", "b", "c"):
                w = want[k]
                if (w is None and not math.isnan(got[k])) or (w is not None and got[k] != w):
                    self.fails.append(("logger_row_holds_latest_message_per_topic", dict(row=self.rows_seen, topic=k, logged=got[k], latest=w, time=want["time"])))
            if got["time"] != want["time"]:
                self.fails.append(("logger_row_time_is_current_time", dict(row=self.rows_seen, logged=got["time"], now=want["time"])))
            # the parameter topic is a topic like any other: the row holds the latest parameter message (the values last set on the core)
            if c._params is not None and self.params_published:
                for n in range(len(self.params)):
                    try:
                        lv = float(row["params"]["n%d/p" % n])
                    except Exception as ex:  # noqa: BLE001
                        lv = "raises %s" % type(ex).__name__
                    if lv != self.param_set[n]:
                        self.fails.append(("logger_row_holds_latest_message_per_topic", dict(row=self.rows_seen, topic="params", name="n%d/p" % n, logged=lv, latest=self.param_set[n])))
                try:
                    ld = float(row["params"]["logger/dt"])
                    if ld != self.ref_logdt:
                        self.fails.append(("logger_row_holds_latest_message_per_topic", dict(row=self.rows_seen, topic="params", name="logger/dt", logged=ld, latest=self.ref_logdt)))
                except Exception:  # noqa: BLE001
                    pass
            # one row per logging period: the row is due exactly one (then current) period after the previous one
            if abs(want["time"] - self.ref_next_row) > 1e-9:
                self.fails.append(("logger_one_row_per_period", dict(row=self.rows_seen, time=want["time"], due=self.ref_next_row, period=self.ref_logdt)))
            self.ref_next_row = want["time"] + self.ref_logdt
            self.rows_seen += 1

    # -- events -------------------------------------------------------------------------------------------
    def event(self, ev):
        c = self.core
        if ev in ("pub_a", "pub_b"):
            self.do_publish(ev[-1])
        elif ev == "wrong_a":
            before = [list(b) for b in self.inbox]
            # the kinds of wrong object take turns (first Mag, then a foreign class that is also called Imu, ...)
            kind, mk = WRONG_KINDS[self.n_wrong % len(WRONG_KINDS)]
            self.n_wrong += 1
            wrong = mk()
            wrong.data["time"] = -7.0
            try:
                self.pub["a"].publish(wrong)
                self.fails.append(("wrong_type_rejected_with_ValueError", dict(note="no exception", wrong_object=kind)))
            except ValueError:
                pass
            except Exception as ex:
                self.fails.append(("wrong_type_rejected_with_ValueError", dict(raised=type(ex).__name__, wrong_object=kind)))
            if [list(b) for b in self.inbox] != before:
                self.fails.append(("wrong_type_not_delivered", dict(before=before, after=[list(b) for b in self.inbox], wrong_object=kind)))
        elif ev == "set_p":
            if not self.params:
                return False
            if c._params is None:
                c.init_params()
            val = self.param_set[0] + 1.5
            c.set_param("n0/p", val)
            self.param_set[0] = val
            self.params_published = True
            for n, (p, follows) in enumerate(self.params):
                if follows:
                    self.param_ref[n] = self.param_set[n]
            self.check_params("after set_param")
        elif ev == "set_logdt":
            if self.logger is None:
                return False
            if c._params is None:
                c.init_params()
            # toggles 2 <-> 1 so that the period also changes while the logger process is running
            val = 1.0 if self.ref_logdt == 2.0 else 2.0
            c.set_param("logger/dt", val)
            self.ref_logdt = val
            self.params_published = True
            if self.logger.dt.get() != val:
                self.fails.append(("logger_follows_parameter_topic", dict(dt=self.logger.dt.get(), set=val)))
        elif ev in ("run1", "run2"):
            self.until += 1.0 if ev == "run1" else 2.0
            self.params_published = True  # run() broadcasts the parameters before the first event
            c.run(until=self.until)
            # run() re-broadcasts the parameters: followers now hold the values last set
            for n, (p, follows) in enumerate(self.params):
                if follows:
                    self.param_ref[n] = self.param_set[n]
            self.check_params("after run")
            self.check_rows()
        self.check_quiescent("after " + ev)
        if not self.lock_checked and self.logger is not None:
            self.lock_checked = True
            for what, fn in (("Subscriber", lambda: uros.Subscriber(c, self.nm["a"], msgs.Imu, lambda m: None)), ("Publisher", lambda: uros.Publisher(c, "zz", msgs.Imu)),
                             ("Param", lambda: uros.Param(c, "late/p", 0.0, "f8"))):
                try:
                    fn()
                    self.fails.append(("registration_after_lock_refused", dict(what=what)))
                except Exception:
                    pass
        return True

    def check_params(self, when):
        # the core itself keeps every value that was set (also for nodes that do not follow the parameter topic), across run()
        if self.core._params is not None:
            for n, (p, follows) in enumerate(self.params):
                try:
                    cv = float(self.core.get_param("n%d/p" % n))
                except Exception as ex:  # noqa: BLE001
                    cv = "raises %s" % type(ex).__name__
                if cv != self.param_set[n]:
                    self.fails.append(("core_keeps_parameter_values_that_were_set", dict(when=when, node=n, follows=follows, core_value=cv, set_value=self.param_set[n])))
        for n, (p, follows) in enumerate(self.params):
            if p.get() != self.param_ref[n]:
                self.fails.append(("parameter_seen_by_followers_only", dict(when=when, node=n, follows=follows, value=p.get(), expected=self.param_ref[n])))

    def check_rows(self):
        if self.logger is None:
            return
        ts = [float(r["time"]) for r in self.logger.data_list]
        if any(b < a for a, b in zip(ts, ts[1:])):
            self.fails.append(("logger_time_non_decreasing", dict(times=ts)))
        # one row per logging period: consecutive rows are exactly one (current) period apart, first row at 0
        if ts and ts[0] != 0.0:
            self.fails.append(("logger_one_row_per_period", dict(times=ts, note="first row not at t=0")))
        if len(set(ts)) != len(ts):
            self.fails.append(("logger_one_row_per_period", dict(times=ts[:12], note="duplicate rows")))
        # no period skipped: the next row is not overdue at the end of the slice
        if self.ref_next_row < self.until - 1e-9:
            self.fails.append(("logger_one_row_per_period", dict(times=ts[-6:], due=self.ref_next_row, now=self.until, note="row overdue")))


LONG_DTS = [None, 1.0 / 3, 1.0 / 128, 0.1, 1.0 / 300, 1.0 / 30]  # None: the logger's default period


def explore_longlog(case):
    """long logging histories (hundreds of rows) and logging periods that are not a whole number of microseconds: every row is judged by the
    same observer as in the word exploration (row time = current time, due exactly one period after the previous row, latest message per
    topic), with periodic publishers on integer periods and a relay / forwarding subscriber set"""
    tier, di, subs = case["tier"], case["dt_index"], case["subs"]
    res = core.Result()
    rows_wanted = case.get("rows") or (2000 if tier == "thorough" else 700)
    top = dict(subs=list(subs), logger=True, nodes=[True, False], periods=(1, 2))
    b = Bus(top, None)
    try:
        c = b.core
        dt = LONG_DTS[di]
        if dt is not None:
            c.init_params()
            c.set_param("logger/dt", dt)
            b.ref_logdt = dt
        else:
            dt = b.ref_logdt
        # publishers on integer periods would publish only a few times during 700 default periods: add fast publishers on both topics
        fast = 7 * dt
        simpy.Process(c, b._periodic("a", fast))
        simpy.Process(c, b._periodic("b", 3 * fast))
        b.until = rows_wanted * dt
        c.run(until=b.until)
        b.check_rows()
        b.check_quiescent("after long run")
    except Exception as ex:
        b.fails.append(("no_exception", dict(error="%s: %s" % (type(ex).__name__, str(ex)[:200]))))
    finally:
        sched.ControlledCore.chooser = None
        sched.ControlledCore.observer = None
        _BUSES.clear()
    n = len(b.logger.data_list)
    res.count("evaluations", n)
    res.count("states", n)
    res.count("transitions", n)
    res.count("traces_validated_against_impl", n)
    res.counters["max_depth"] = n
    res.nontrivial.add(hash((di, tuple(subs))))
    res.outcomes.add(hash((n, tuple(r["a"] for r in b.ref_rows[-5:]))))
    if n < rows_wanted - 2 or n > rows_wanted + 2:
        b.fails.append(("logger_one_row_per_period", dict(rows=n, expected=rows_wanted, period=LONG_DTS[di])))
    for clause, detail in b.fails[:3]:
        res.fail(site="uros", clause=clause, cls="long_log", detail=dict(detail, period=LONG_DTS[di], subs=list(subs)), sub="longlog", case=case)
    res.samples.append(dict(long_log_rows=n, period=LONG_DTS[di]))
    return res


class _LongLog:
    chunks = 1

    def cases(self, tier, seed):
        # the last two: tens of thousands of rows (a bounded buffer, a counter that wraps, a table that is rebuilt every so many rows)
        return [dict(sub="longlog", tier=tier, dt_index=i, subs=s) for i in range(len(LONG_DTS)) for s in ((), (0, 2, 3))] + \
               [dict(sub="longlog", tier=tier, dt_index=2, subs=(), rows=(70000 if tier == "quick" else 280000)), dict(sub="longlog", tier=tier, dt_index=0, subs=(0,), rows=(33000 if tier == "quick" else 140000))]

    def run(self, case):
        return explore_longlog(case)


def run_word(top, word, chooser=None):
    b = Bus(top, chooser)
    try:
        for ev in word:
            b.event(ev)
    except Exception as ex:
        b.fails.append(("no_exception", dict(error="%s: %s" % (type(ex).__name__, str(ex)[:200]))))
    finally:
        sched.ControlledCore.chooser = None
        sched.ControlledCore.observer = None
        _BUSES.clear()
    return b


TWIN_EVENTS = ["pub_a", "pub_b", "wrong_a", "set_p", "run1"]


def explore_twin(case):
    """two buses alive in one process, their event words interleaved: each must behave exactly as it does alone (registries, parameters,
    loggers and queues belong to a core, not to the class or the module).  All pairs of words to the depth over the reduced event set,
    alternating A, B, A, B ...; every event judged by the bus's own reference model."""
    tier, ta, tb, first = case["tier"], case["top_a"], case["top_b"], case["first"]
    depth = 3 if tier == "thorough" else 2
    res = core.Result()
    tops = twin_topologies()
    words = [w for d in range(1, depth + 1) for w in itertools.product(TWIN_EVENTS, repeat=d)]
    for wa in words:
        if wa[0] != TWIN_EVENTS[first]:
            continue
        for wb in words:
            if len(res.fails) >= 6:
                return res  # enough counterexamples from this unit (state leaking between cores also makes every further word slower)
            res.count("evaluations")
            res.count("transitions", len(wa) + len(wb))
            res.count("states", len(wa) + len(wb))
            res.count("traces_validated_against_impl", len(wa) + len(wb))
            res.nontrivial.add(hash((ta, tb, wa, wb)))
            A = B = None
            try:
                A = Bus(tops[ta], None)
                B = Bus(tops[tb], None)
                for b_, w_ in ((A, wa), (B, wb)):
                    if b_.logger is not None and any(e.startswith("run") for e in w_):
                        b_.event("set_logdt")
                for k in range(max(len(wa), len(wb))):
                    if k < len(wa):
                        A.event(wa[k])
                    if k < len(wb):
                        B.event(wb[k])
            except Exception as ex:
                (A or B).fails.append(("no_exception", dict(error="%s: %s" % (type(ex).__name__, str(ex)[:200])))) if (A or B) else None
            finally:
                sched.ControlledCore.chooser = None
                sched.ControlledCore.observer = None
                _BUSES.clear()
            for nm, b_ in (("first_bus", A), ("second_bus", B)):
                if b_ is None:
                    continue
                res.outcomes.add(hash((nm, tuple(map(tuple, b_.inbox)))))
                for clause, detail in b_.fails[:2]:
                    res.fail(site="uros", clause=clause, cls="two_buses;" + nm, detail=dict(detail, topologies=[tops[ta], tops[tb]], word_a=list(wa), word_b=list(wb)), sub="twin", case=case)
    return res


def twin_topologies():
    return [dict(subs=[0, 1, 2], logger=True, nodes=[True, False], periods=(1, 2)), dict(subs=[3, 0], logger=True, nodes=[True], periods=None),
            dict(subs=[1], logger=False, nodes=[False, True], periods=(1, 1))]


class _Twin:
    chunks = 1

    def cases(self, tier, seed):
        n = len(twin_topologies())
        return [dict(sub="twin", tier=tier, top_a=a, top_b=b, first=f) for a in range(n) for b in range(n) for f in range(len(TWIN_EVENTS))]

    def run(self, case):
        return explore_twin(case)


def explore_bus(case):
    ti, tier, first = case["top"], case["tier"], case["first"]
    res = core.Result()
    top = topologies(tier)[ti]
    depth = 5 if tier == "thorough" else 4
    bound = 2 if tier == "thorough" else 1
    evs = [e for e in EVENTS if not (e == "set_logdt" and not top["logger"]) and not (e == "set_p" and not top["nodes"])]
    if first >= len(evs):
        return res
    cls = "logger" if top["logger"] else "nologger"
    nwords = 0
    for d in range(1, depth + 1):
        for tail in itertools.product(evs, repeat=d - 1):
            if len(res.fails) >= 12:
                return res  # enough counterexamples from this unit
            word = (evs[first],) + tail
            nwords += 1
            has_run = any(e.startswith("run") for e in word)
            # the logger's default period is 1/200 s: a run slice would log hundreds of rows; words with run slices switch the logger to an integer period first
            w = (("set_logdt",) + word) if (top["logger"] and has_run) else word
            if has_run and top["periods"]:
                runs = sched.explore(lambda ch: run_word(top, w, ch), bound, window=None, max_runs=400)
            else:
                runs = [([], [], run_word(top, w))]
            for choices, points, b in runs:
                res.count("evaluations")
                res.count("transitions", len(w))
                res.count("states", len(w))
                res.count("traces_validated_against_impl", len(w))
                if points:
                    res.count("schedules")
                    res.counters["max_tie_points"] = max(res.counters["max_tie_points"], len(points))
                if any(b.ref_pubs.values()):
                    res.nontrivial.add(hash((ti, w, tuple(choices))))
                res.outcomes.add(hash((tuple(map(tuple, b.inbox)), tuple(r["time"] for r in b.ref_rows))))
                for clause, detail in b.fails[:3]:
                    res.fail(site="uros", clause=clause, cls=cls, detail=dict(detail, topology=top, word=list(w), schedule=[c for c in choices]), sub="bus", case=case)
    if first == 0:
        res.samples.append(dict(topology=top, words=nwords, example_word=list(word)))
    return res


# -----------------------------------------------------------------------------------------------------------
# estimator node timing
# -----------------------------------------------------------------------------------------------------------
class Spy:
    def __init__(self, init_code=0):
        self.calls = []
        self.init_code = init_code

    def eqs(self):
        x0 = np.zeros(6)
        W0 = np.eye(6)
        spy = self

        def constants():
            return dict(x0=x0, W0=W0)

        def initialize(g_b, B_b, decl):
            spy.calls.append(("initialize", None, None))
            return np.zeros(6), spy.init_code

        def predict(t, x, W, omega, sg, sn, dt):
            spy.calls.append(("predict", float(t), float(dt)))
            return x, W

        def get_state(x):
            return np.array([1.0, 0, 0, 0]), np.zeros(3), np.zeros(3)

        def correct_accel(x, W, y, g, om, a, b, c):
            spy.calls.append(("accel", None, None))
            return x, W, 0.0, np.zeros(2), np.zeros(2), 0.0

        def correct_mag(x, W, y, decl, s, c):
            spy.calls.append(("mag", None, None))
            return x, W, 0.0, np.zeros(1), np.zeros(1), 0.0
        return dict(constants=constants, initialize=initialize, predict=predict, get_state=get_state, correct_accel=correct_accel, correct_mag=correct_mag)


DTS = [-20e-3, -1e-3, 0.0, 1e-3, 4e-3, 5e-3, 6e-3, 20e-3]


def run_est(initialize, dt_min, word, reuse_msgs=False, t0=0.01, keep_ref=True):
    """reuse_msgs: the publisher keeps ONE message object per topic and overwrites its fields for every publication (as the packaged
    Simulator does) instead of allocating a fresh message"""
    dt_min_accel, dt_min_mag = dt_min
    c = uros.Core()
    pub_imu = uros.Publisher(c, "imu", msgs.Imu)
    pub_mag = uros.Publisher(c, "mag", msgs.Mag)
    spy = Spy()
    with contextlib.redirect_stdout(io.StringIO()):
        if keep_ref:
            est = AttitudeEstimator(c, "mrp", spy.eqs(), initialize)
        else:
            # the node is constructed and not kept by the caller (the bus holds its subscriptions); a collection runs before the first message
            AttitudeEstimator(c, "mrp", spy.eqs(), initialize)
            import gc
            gc.collect(0)  # the youngest generation holds everything the constructor just made; a full collection per word is slow
        c.init_params()
        c.set_param("mrp/dt_min_accel", dt_min_accel)
        c.set_param("mrp/dt_min_mag", dt_min_mag)
        t = t0
        log = []
        keep = {"imu": msgs.Imu(), "mag": msgs.Mag()}
        for sensor, dt in word:
            t = t + dt
            n0 = len(spy.calls)
            if sensor == "imu":
                m = keep["imu"] if reuse_msgs else msgs.Imu()
                m.data["time"] = t
                m.data["gyro"] = [0.1, 0.2, 0.3]
                m.data["accel"] = [0, 0, -9.8]
                pub_imu.publish(m)
            else:
                m = keep["mag"] if reuse_msgs else msgs.Mag()
                m.data["time"] = t
                m.data["mag"] = [0.1, 0, 0]
                pub_mag.publish(m)
            log.append((sensor, t, [cl[0] for cl in spy.calls[n0:]], [cl for cl in spy.calls[n0:] if cl[0] == "predict"]))
    return log


def explore_est(case):
    tier, initialize, dt_min, first = case["tier"], case["initialize"], tuple(case["dt_min"]), case["first"]
    reuse = bool(case.get("reuse_msgs"))
    depth = case.get("depth") or (5 if tier == "thorough" else 4)
    res = core.Result()
    evs = [(s, d) for s in ("imu", "mag") for d in DTS]
    for d in range(1, depth + 1):
        for tail in itertools.product(evs, repeat=d - 1):
            if len(res.fails) >= 12:
                return res
            word = (evs[first],) + tail
            res.count("evaluations")
            res.count("transitions", len(word))
            res.count("states", len(word))
            res.count("traces_validated_against_impl", len(word))
            try:
                log = run_est(initialize, dt_min, word, reuse_msgs=reuse, t0=case.get("t0", 0.01), keep_ref=case.get("keep_ref", True))
            except Exception as ex:
                res.fail(site="AttitudeEstimator", clause="no_exception", cls="init=%s" % initialize, detail=dict(word=list(word), error="%s: %s" % (type(ex).__name__, str(ex)[:200])),
                         sub="est", case=case)
                continue
            if any(l[2] for l in log):
                res.nontrivial.add(hash((initialize, dt_min, word)))
            res.outcomes.add(hash(tuple(tuple(l[2]) for l in log)))
            inited = not initialize
            seen_imu = seen_mag = False
            last = dict(accel=None, mag=None)
            info = dict(initialize=initialize, dt_min=dt_min, word=[list(w) for w in word])
            t_prev_imu = 0.0
            if not case.get("keep_ref", True):
                # differential: the same word on a node the caller keeps
                log_kept = run_est(initialize, dt_min, word, reuse_msgs=reuse, t0=case.get("t0", 0.01), keep_ref=True)
                if [l[2] for l in log] != [l[2] for l in log_kept]:
                    res.fail(site="AttitudeEstimator", clause="node_not_kept_by_the_caller_behaves_like_a_kept_one", cls="unreferenced_node",
                             detail=dict(info, calls=[l[2] for l in log], calls_of_kept_node=[l[2] for l in log_kept]), sub="est", case=case)
            for sensor, t, calls, preds in log:
                if sensor == "imu":
                    if inited and t - t_prev_imu > 0 and "predict" not in calls:
                        res.fail(site="AttitudeEstimator", clause="predicts_on_every_imu_message_that_advances_time", cls="reused_message_object" if reuse else "fresh_messages",
                                 detail=dict(info, t=t, previous_imu=t_prev_imu), sub="est", case=case)
                    t_prev_imu = t
                    seen_imu = True
                else:
                    seen_mag = True
                for p in preds:
                    if not p[2] > 0:
                        res.fail(site="AttitudeEstimator", clause="predict_time_step_positive", cls="init=%s" % initialize, detail=dict(info, t=t, dt=p[2]), sub="est", case=case)
                for cname in calls:
                    if cname in ("predict", "accel", "mag") and not inited:
                        res.fail(site="AttitudeEstimator", clause="nothing_before_initialisation", cls="init=%s" % initialize, detail=dict(info, t=t, call=cname), sub="est", case=case)
                    if cname in ("accel", "mag"):
                        lim = dt_min[0] if cname == "accel" else dt_min[1]
                        if last[cname] is not None and t - last[cname] < lim - 1e-3 - 1e-12 * (1 + abs(t)) * 4:
                            res.fail(site="AttitudeEstimator", clause="%s_corrections_rate_limited" % cname, cls="dt_min=%g/%g" % tuple(dt_min),
                                     detail=dict(info, t=t, previous=last[cname], gap=t - last[cname]), sub="est", case=case)
                        last[cname] = t
                    if cname == "initialize":
                        if not (seen_imu and seen_mag):
                            res.fail(site="AttitudeEstimator", clause="initialise_needs_both_sensors", cls="init=%s" % initialize, detail=dict(info, t=t), sub="est", case=case)
                        inited = True  # the spy returns code 0
    if first == 0:
        res.samples.append(dict(estimator_words_depth=depth, initialize=initialize, dt_min=dt_min, example=[list(w) for w in word]))
    return res


# -----------------------------------------------------------------------------------------------------------
# estimator node: parameter values set on the core reach the equations
# -----------------------------------------------------------------------------------------------------------
EST_PARAMS = ["std_mag", "std_accel", "std_accel_omega", "std_gyro", "sn_gyro_rw", "mag_decl", "beta_mag_c", "beta_accel_c", "g"]
EST_VALUES = [0.3, 2.75, 3]
EST_DEFAULTS = dict(std_mag=2.5e-3, std_accel=35.0e-3, std_accel_omega=0, std_gyro=1e-3, sn_gyro_rw=1e-5, mag_decl=0, beta_mag_c=6.6, beta_accel_c=9.2, g=9.8)
# which parameters each equation receives, in call order after the state / measurement arguments
EST_USES = dict(initialize=["mag_decl"], predict=["std_gyro", "sn_gyro_rw"], correct_accel=["g", "std_accel", "std_accel_omega", "beta_accel_c"],
                correct_mag=["mag_decl", "std_mag", "beta_mag_c"])


def run_estparams(initialize, sets):
    """sets: list of (param, value); between the sets a round of sensor messages.  Returns list of (equation, {param: value seen}, {param: expected})"""
    c = uros.Core()
    pub_imu = uros.Publisher(c, "imu", msgs.Imu)
    pub_mag = uros.Publisher(c, "mag", msgs.Mag)
    seen = []
    ref = dict(EST_DEFAULTS)
    x0, W0 = np.zeros(6), np.eye(6)

    def rec(eq, vals):
        seen.append((eq, dict(zip(EST_USES[eq], [float(v) for v in vals])), {k: float(ref[k]) for k in EST_USES[eq]}))

    eqs = dict(constants=lambda: dict(x0=x0, W0=W0),
               initialize=lambda g_b, B_b, decl: (rec("initialize", [decl]), (np.zeros(6), 0))[1],
               predict=lambda t, x, W, om, sg, sn, dt: (rec("predict", [sg, sn]), (x, W))[1],
               get_state=lambda x: (np.array([1.0, 0, 0, 0]), np.zeros(3), np.zeros(3)),
               correct_accel=lambda x, W, y, g, om, sa, sao, bc: (rec("correct_accel", [g, sa, sao, bc]), (x, W, 0.0, np.zeros(2), np.zeros(2), 0.0))[1],
               correct_mag=lambda x, W, y, decl, sm, bc: (rec("correct_mag", [decl, sm, bc]), (x, W, 0.0, np.zeros(1), np.zeros(1), 0.0))[1])
    with contextlib.redirect_stdout(io.StringIO()):
        AttitudeEstimator(c, "mrp", eqs, initialize)
        c.init_params()
        t = 0.0

        def sensors():
            nonlocal t
            for sensor in ("mag", "imu", "mag", "imu"):
                t += 0.02
                m = msgs.Imu() if sensor == "imu" else msgs.Mag()
                m.data["time"] = t
                if sensor == "imu":
                    m.data["gyro"] = [0.1, 0.2, 0.3]
                    m.data["accel"] = [0, 0, -9.8]
                    pub_imu.publish(m)
                else:
                    m.data["mag"] = [0.1, 0, 0]
                    pub_mag.publish(m)
        sensors()
        for name, val in sets:
            c.set_param("mrp/" + name, val)
            ref[name] = val
            sensors()
    return seen


def explore_estparams(case):
    initialize, first = case["initialize"], case["first"]
    res = core.Result()
    singles = [(p, v) for p in EST_PARAMS for v in EST_VALUES]
    words = [[singles[first]]] + [[singles[first], s2] for s2 in singles]
    for w in words:
        res.count("evaluations")
        res.count("transitions", len(w))
        res.count("traces_validated_against_impl", len(w))
        try:
            seen = run_estparams(initialize, w)
        except Exception as ex:
            res.fail(site="AttitudeEstimator", clause="no_exception", cls="params", detail=dict(sets=[list(x) for x in w], error="%s: %s" % (type(ex).__name__, str(ex)[:200])), sub="estparams", case=case)
            continue
        res.nontrivial.add(hash((initialize, tuple(w))))
        res.outcomes.add(hash(tuple((e, tuple(sorted(g.items()))) for e, g, _ in seen)))
        if not {"predict", "correct_accel", "correct_mag"} <= {e for e, _, _ in seen}:
            raise core.HarnessError("estimator parameter harness did not reach every equation")
        for eq, got, want in seen:
            bad = [k for k in want if got.get(k) != want[k]]
            if bad:
                res.fail(site="AttitudeEstimator", clause="parameter_set_on_core_reaches_equations", cls=bad[0],
                         detail=dict(sets=[list(x) for x in w], equation=eq, received=got, expected=want), sub="estparams", case=case)
                break
    if first == 0:
        res.samples.append(dict(estimator_parameter_words=len(words), initialize=initialize))
    return res


def explore_twoest(case):
    """two estimator nodes on one core: both receive every sensor message with the published content (a node must not edit the message it
    is handed: the same object goes to the next subscriber).  Spies record what each node's equations are given."""
    tier, first = case["tier"], case["first"]
    res = core.Result()
    depth = 4 if tier == "thorough" else 3
    evs = [(s_, d_) for s_ in ("imu", "mag") for d_ in (5e-3, 20e-3)]
    for d in range(1, depth + 1):
        for tail in itertools.product(evs, repeat=d - 1):
            word = (evs[first],) + tail
            res.count("evaluations")
            res.count("transitions", len(word))
            res.count("states", len(word))
            res.count("traces_validated_against_impl", len(word))
            res.nontrivial.add(hash(word))
            c = uros.Core()
            pub_imu = uros.Publisher(c, "imu", msgs.Imu)
            pub_mag = uros.Publisher(c, "mag", msgs.Mag)
            seen = {"one": [], "two": []}

            def eqs_for(tag):
                x0 = np.array([0.0, 0, 0, 0.3, -0.2, 0.1])  # non-zero gyro-bias estimate
                return dict(constants=lambda: dict(x0=x0, W0=np.eye(6)), initialize=lambda g_b, B_b, decl: (x0, 0),
                            predict=lambda t, x, W, om, sg, sn, dt: (seen[tag].append(("gyro", tuple(float(v) for v in np.array(om).reshape(-1)))), (x, W))[1],
                            get_state=lambda x: (np.array([1.0, 0, 0, 0]), np.zeros(3), np.array(x[3:6], dtype=float)),
                            correct_accel=lambda x, W, y, g, om, sa, sao, bc: (seen[tag].append(("accel", tuple(float(v) for v in np.array(y).reshape(-1)))), (x, W, 0.0, np.zeros(2), np.zeros(2), 0.0))[1],
                            correct_mag=lambda x, W, y, decl, sm, bc: (seen[tag].append(("mag", tuple(float(v) for v in np.array(y).reshape(-1)))), (x, W, 0.0, np.zeros(1), np.zeros(1), 0.0))[1])
            try:
                with contextlib.redirect_stdout(io.StringIO()):
                    AttitudeEstimator(c, "one", eqs_for("one"), False)
                    AttitudeEstimator(c, "two", eqs_for("two"), False)
                    c.init_params()
                    t = 0.0
                    sent = []
                    for k, (sensor, dt) in enumerate(word):
                        t += dt
                        if sensor == "imu":
                            m = msgs.Imu()
                            m.data["time"] = t
                            gy, ac = [0.1 + k, 0.2, 0.3 - k], [0.0, 0.1 * k, -9.8]
                            m.data["gyro"] = gy
                            m.data["accel"] = ac
                            sent.append(("gyro", tuple(float(v) for v in gy)))
                            pub_imu.publish(m)
                        else:
                            m = msgs.Mag()
                            m.data["time"] = t
                            mg = [0.1, 0.01 * k, 0.0]
                            m.data["mag"] = mg
                            pub_mag.publish(m)
            except Exception as ex:
                res.fail(site="AttitudeEstimator", clause="no_exception", cls="two_estimators", detail=dict(word=[list(w) for w in word], error="%s: %s" % (type(ex).__name__, str(ex)[:200])), sub="twoest", case=case)
                continue
            g1 = [v for k_, v in seen["one"] if k_ == "gyro"]
            g2 = [v for k_, v in seen["two"] if k_ == "gyro"]
            want = [v for k_, v in sent if k_ == "gyro"]
            res.outcomes.add(hash((tuple(g1), tuple(seen["one"]))))
            if seen["one"] != seen["two"] or g1 != want[len(want) - len(g1):]:
                res.fail(site="AttitudeEstimator", clause="every_node_sees_the_published_message_content", cls="two_estimators",
                         detail=dict(word=[list(w) for w in word], first_node=seen["one"][:6], second_node=seen["two"][:6], published_gyro=want), sub="twoest", case=case)
    return res


# -----------------------------------------------------------------------------------------------------------
# estimator node data flow: every equation receives the state / covariance the previous one returned
# -----------------------------------------------------------------------------------------------------------
class FlowSpy:
    """step functions that return a freshly tagged state and lower-triangular factor and record what they were handed"""

    def __init__(self):
        self.k = 0
        self.last = None  # (x, W) returned last
        self.bad = []
        self.calls = 0

    def _fresh(self):
        self.k += 1
        # a small MRP and bias (anything a node may legitimately do between steps - shadow switching, re-normalisation, a correct
        # re-factorisation of W W^T - leaves such a state and a factor with positive diagonal unchanged up to rounding)
        x = np.array([0.1 * math.sin(0.7 * self.k), 0.1 * math.cos(1.3 * self.k), 0.05, 1e-3 * math.sin(0.1 * self.k), -2e-3, 1e-3 + 1e-9 * (self.k % 1000)], dtype=float)
        W = np.tril(np.arange(36, dtype=float).reshape(6, 6) * 1e-3 + np.eye(6)) + np.eye(6) * 1e-6 * self.k
        self.last = (x, W)
        return x, W

    def _check(self, who, x, W):
        self.calls += 1
        if self.last is None:
            return
        xa, Wa = np.array(x, dtype=float).reshape(-1), np.array(W, dtype=float)
        if xa.shape != (6,) or Wa.shape != (6, 6) or np.max(np.abs(xa - self.last[0])) > 1e-12 or np.max(np.abs(Wa - self.last[1])) > 1e-12:
            if len(self.bad) < 3:
                self.bad.append(dict(equation=who, call=self.calls, handed_state=xa[:3].tolist(), previous_result_state=self.last[0][:3].tolist(),
                                     factor_differs=bool(Wa.shape != (6, 6) or np.max(np.abs(Wa - self.last[1])) > 1e-12), upper_part_nonzero=bool(Wa.shape == (6, 6) and np.any(np.triu(Wa, 1) != 0))))

    def eqs(self):
        spy = self

        def constants():
            x, W = spy._fresh()
            spy.k -= 1
            return dict(x0=x, W0=W)

        def initialize(g_b, B_b, decl):
            x, _ = spy._fresh()
            spy.last = (x, spy.last[1] if spy.last else None)
            return x, 0

        def predict(t, x, W, omega, sg, sn, dt):
            spy._check("predict", x, W)
            return spy._fresh()

        def get_state(x):
            return np.array([1.0, 0, 0, 0]), np.zeros(3), np.zeros(3)

        def correct_accel(x, W, y, g, om, a, b, c):
            spy._check("correct_accel", x, W)
            x1, W1 = spy._fresh()
            return x1, W1, 0.0, np.zeros(2), np.zeros(2), 0.0

        def correct_mag(x, W, y, decl, s_, c):
            spy._check("correct_mag", x, W)
            x1, W1 = spy._fresh()
            return x1, W1, 0.0, np.zeros(1), np.zeros(1), 0.0
        return dict(constants=constants, initialize=initialize, predict=predict, get_state=get_state, correct_accel=correct_accel, correct_mag=correct_mag)


def explore_nodeflow(case):
    """long runs of the real estimator node on the real bus with recording step functions (a counter-triggered re-factorisation, a
    periodic reset, a cached copy of the state would break the chain at some call number), and a deep copy of a live node that is then
    fed on its own (the copy must continue from ITS state)"""
    import copy
    res = core.Result()
    n_msgs, initialize, variant = case["n"], case["initialize"], case["variant"]
    spy = FlowSpy()
    c = uros.Core()
    pub_imu = uros.Publisher(c, "imu", msgs.Imu)
    pub_mag = uros.Publisher(c, "mag", msgs.Mag)
    with contextlib.redirect_stdout(io.StringIO()):
        est = AttitudeEstimator(c, "mrp", spy.eqs(), initialize)
        c.init_params()
        if initialize:
            # the recording initialise returns only a state; the factor chain starts from the node's own W0
            spy.last = None
        t = 0.0

        def feed(pi, pm, k0, k1, tt):
            for k in range(k0, k1):
                tt += 0.005
                if k % 4 == 1:
                    m = msgs.Mag()
                    m.data["time"] = tt
                    m.data["mag"] = [0.1, 0, 0]
                    pm.publish(m)
                m = msgs.Imu()
                m.data["time"] = tt
                m.data["gyro"] = [0.1, 0.2, 0.3]
                m.data["accel"] = [0, 0, -9.8]
                pi.publish(m)
            return tt
        if variant == "long":
            t = feed(pub_imu, pub_mag, 0, n_msgs, t)
            res.count("transitions", n_msgs)
        else:
            t = feed(pub_imu, pub_mag, 0, 200, t)
            try:
                clone = copy.deepcopy(est)
            except Exception:
                clone = None
                res.count("refused")
            if clone is not None:
                # the deep copy brings its own core, publishers and step-function table; FlowSpy is shared only if the copy shares it
                spy2 = None
                try:
                    spy2 = clone.eqs["predict"].__closure__[0].cell_contents
                except Exception:
                    pass
                state_at_copy = spy.last
                t = feed(pub_imu, pub_mag, 200, 260, t)  # the original moves on
                cc = clone.core
                if spy2 is spy:
                    # functions are shared (deepcopy treats them as atoms): the copy must hand over ITS state, the one at the time of the copy
                    spy.last = state_at_copy
                    nb = len(spy.bad)
                    feed(cc._publishers["imu"], cc._publishers["mag"], 0, 1, t)
                    if len(spy.bad) > nb:
                        spy.bad[-1]["note"] = "first step of a deep copy of the node after the original had moved on"
                res.count("transitions", 261)
    res.count("evaluations")
    res.count("states", spy.k)
    res.count("traces_validated_against_impl", spy.calls)
    res.nontrivial.add(hash((variant, initialize, n_msgs)))
    res.outcomes.add(hash((spy.k, len(spy.bad))))
    if spy.calls < (n_msgs if variant == "long" else 200):
        raise core.HarnessError("C20 nodeflow: the recording step functions were called %d times only" % spy.calls)
    for b in spy.bad:
        res.fail(site="AttitudeEstimator", clause="each_step_function_receives_what_the_previous_one_returned", cls=variant, detail=dict(b, initialize=initialize, messages=n_msgs), sub="nodeflow", case=case)
    res.samples.append(dict(nodeflow=variant, messages=n_msgs, step_function_calls=spy.calls))
    return res


class _Flow:
    chunks = 1

    def cases(self, tier, seed):
        n = 70000 if tier == "quick" else 400000
        return [dict(sub="nodeflow", n=n, initialize=i, variant="long", tier=tier) for i in (False, True)] + [dict(sub="nodeflow", n=261, initialize=False, variant="deepcopy", tier=tier)]

    def run(self, case):
        return explore_nodeflow(case)


class _TwoEst:
    chunks = 1

    def cases(self, tier, seed):
        return [dict(sub="twoest", tier=tier, first=f) for f in range(4)]

    def run(self, case):
        return explore_twoest(case)


class _EstP:
    chunks = 1

    def cases(self, tier, seed):
        return [dict(sub="estparams", tier=tier, initialize=i, first=f) for i in (True, False) for f in range(len(EST_PARAMS) * len(EST_VALUES))]

    def run(self, case):
        return explore_estparams(case)


class _Bus:
    chunks = 2

    def cases(self, tier, seed):
        return [dict(sub="bus", top=t, tier=tier, first=f) for t in range(len(topologies(tier))) for f in range(len(EVENTS))]

    def run(self, case):
        return explore_bus(case)


class _Est:
    chunks = 1

    def cases(self, tier, seed):
        out = [dict(sub="est", tier=tier, initialize=i, dt_min=d, first=f) for i in (True, False) for d in ((5e-3, 5e-3), (20e-3, 20e-3), (5e-3, 20e-3), (20e-3, 5e-3)) for f in range(16)]
        # the same words with one message object per topic reused by the publisher
        out += [dict(sub="est", tier=tier, initialize=i, dt_min=(5e-3, 20e-3), first=f, reuse_msgs=True) for i in (True, False) for f in range(16)]
        # time stamps far from zero (a log replayed with its absolute stamps, a long mission), and a node the caller does not keep a reference to
        # (one level shallower than the main words: the limiter logic is the same, the stamps / the ownership differ)
        dv = 4 if tier == "thorough" else 3
        out += [dict(sub="est", tier=tier, initialize=i, dt_min=(5e-3, 20e-3), first=f, t0=t0_, depth=dv) for i in (True, False) for f in range(16) for t0_ in (4096.0, 1.0e6)]
        out += [dict(sub="est", tier=tier, initialize=False, dt_min=(5e-3, 20e-3), first=f, keep_ref=False, depth=dv) for f in range(16)]
        return out

    def run(self, case):
        return explore_est(case)


SUBCHECKS = {"twin": _Twin(), "twoest": _TwoEst(), "bus": _Bus(), "est": _Est(), "estparams": _EstP(), "longlog": _LongLog()}
REPLAY = {"bus": lambda c: explore_bus(c).fails, "est": lambda c: explore_est(c).fails, "estparams": lambda c: explore_estparams(c).fails,
          "longlog": lambda c: explore_longlog(c).fails, "twin": lambda c: explore_twin(c).fails, "twoest": lambda c: explore_twoest(c).fails}
