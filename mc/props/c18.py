"""C18 - Bezier trajectories meet their boundary conditions; derivatives are exact.

explorer : product, exact.  Bezier.eval / Bezier.deriv(m).eval for every degree n in 1..7, dimension in {1,3}, order m in 0..n, and the shipped
           solver / trajectory functions are executed by sxvm in exact rational arithmetic over integer control-point patterns, durations and
           times inside and outside [0, T].
oracle   : reference Bernstein polynomial (power-basis expansion in Fractions) and its exact derivatives; start / end points; the curve through the
           control points returned by bezier3_solve / bezier7_solve meets every requested boundary value at 0 and at T exactly;
           bezier_multirotor outputs are the exact successive derivatives of each other.
"""
from __future__ import annotations

import contextlib
import io
import itertools
from fractions import Fraction as Fr
from math import comb

import casadi as ca
import mpmath
import numpy as np

from .. import core, sxvm

LEVEL = "exploration"
RULE = ("control points from patterns {unit vectors, alternating, ramps, seeded generic} with values in {-2,0,1,3}; T in {1/2,1,2,10,1/2000}; t/T in {0,1/3,1/2,1,-1/4,5/4}; "
        "boundary vectors from {0, e_i, generic} for both ends; numeric curves {hold, creeping at 2500 / 1000 / -1e6, unit steps, alternating} x storage forms {DM, numpy C / F / transposed / strided / reversed views, SX constant}, all ordered pairs (thorough: triples) of curves in sequence; control-point dtypes {float32, int64, int32 F-order, object} x duration types; eval / deriv of two curves in two threads, <= 1 (2) preemptions; history op fork (shallow copy re-planned). non-trivial = control points not all equal; distinct by exact input tuple")
ASSUMPTIONS = ["exact rational arithmetic on the real instruction lists (float VM conformance-gated bitwise against CasADi)", "degrees above 7: 8, 9, 12 exactly and 16, 24 (thorough 32, 40) in double against the exact value; other degrees not covered"]
TS = [Fr(1, 2), Fr(1), Fr(2), Fr(10), Fr(1, 2000)]  # last: a segment shorter than a millisecond
BETAS = [Fr(0), Fr(1, 3), Fr(1, 2), Fr(1), Fr(-1, 4), Fr(5, 4)]

_B = {}


def bz():
    if not _B:
        with contextlib.redirect_stdout(io.StringIO()):
            from cyecca.models import bezier
        _B["mod"] = bezier
    return _B["mod"]


def bounds(tier):
    return dict(max_degree=7)


def poly_bernstein(P):
    """power-basis coefficients (in beta) of sum_k C(n,k)(1-b)^(n-k) b^k P_k, P list of Fractions"""
    n = len(P) - 1
    c = [Fr(0)] * (n + 1)
    for k, pk in enumerate(P):
        for j in range(n - k + 1):
            # C(n,k) * C(n-k, j) (-1)^j b^(k+j)
            c[k + j] += pk * comb(n, k) * comb(n - k, j) * (-1) ** j
    return c


def poly_deriv(c, m):
    for _ in range(m):
        c = [c[i] * i for i in range(1, len(c))] or [Fr(0)]
    return c


def poly_eval(c, b):
    r = Fr(0)
    for a in reversed(c):
        r = r * b + a
    return r


def ref_curve(P, T, beta, m):
    """m-th time derivative at t = beta*T of the Bezier curve with control points P and duration T"""
    return poly_eval(poly_deriv(poly_bernstein(P), m), beta) / T ** m


def patterns(n, seed):
    npts = n + 1
    out = [[Fr(1)] * npts]
    for i in range(npts):
        out.append([Fr(1) if k == i else Fr(0) for k in range(npts)])
    out.append([Fr((-2) ** (k % 2) if k % 2 else 3) for k in range(npts)])
    out.append([Fr(k) for k in range(npts)])
    out.append([Fr(((k * 7 + seed * 3 + 1) % 6) - 2) for k in range(npts)])
    out.append([Fr(((k * k + seed) % 5) - 2, 1 + (k % 3)) for k in range(npts)])
    return out


_F = {}


def fn_eval(n, dim, m):
    k = (n, dim, m)
    if k not in _F:
        P = ca.SX.sym("P", dim, n + 1)
        T = ca.SX.sym("T")
        t = ca.SX.sym("t")
        B = bz().Bezier(P, T)
        C = B if m == 0 else B.deriv(m)
        f = ca.Function("bez_n%d_d%d_m%d" % (n, dim, m), [P, T, t], [ca.densify(C.eval(t))])
        _F[k] = (f, sxvm.compile_fn(f))
    return _F[k]


def explore_curve(case):
    n, dim, seed = case["n"], case["dim"], case["seed"]
    res = core.Result()
    pats = patterns(n, seed)
    for m in range(0, n + 1):
        try:
            f, prog = fn_eval(n, dim, m)
        except Exception as ex:
            res.count("evaluations")
            res.fail(site="Bezier.deriv", clause="operation_raises", cls="n=%d,m=%d" % (n, m), detail=dict(error="%s: %s" % (type(ex).__name__, str(ex)[:200])), sub="curve", case=case)
            continue
        for pi, pat in enumerate(pats):
            # dimension d uses pattern (pi + d) so that rows differ
            rows = [pats[(pi + d) % len(pats)] for d in range(dim)]
            Pflat = [rows[d][k] for k in range(n + 1) for d in range(dim)]  # column-major
            for T in TS:
                for beta in BETAS:
                    res.count("evaluations")
                    if len(set(pat)) > 1:
                        res.nontrivial.add(hash((n, dim, m, pi, T, beta)))
                    outs, _ = sxvm.run(prog, [Pflat, [T], [beta * T]], sxvm.FRACTION)
                    got = outs[0]
                    want = [ref_curve(rows[d], T, beta, m) for d in range(dim)]
                    res.outcomes.add(hash(tuple(want)))
                    if any(g is sxvm.POISON for g in got) or list(got) != want:
                        res.fail(site="Bezier.eval" if m == 0 else "Bezier.deriv", clause="equals_bernstein_polynomial" if m == 0 else "equals_exact_time_derivative",
                                 cls="n=%d,m=%d" % (n, m), detail=dict(n=n, dim=dim, m=m, P=[[str(x) for x in r] for r in rows], T=str(T), t=str(beta * T),
                                                                       got=[str(x) for x in got], want=[str(x) for x in want]), sub="curve", case=case)
        # float conformance of this program on one input
        fl = [[float(x) for x in Pflat], [2.0], [0.7]]
        ok, worst, _, _ = sxvm.conform(f, prog, fl)
        res.count("traces_validated_against_impl")
        if not ok:
            raise core.HarnessError("sxvm/CasADi mismatch on %s (%.1f ulp)" % (f.name(), worst))
    res.samples.append(dict(n=n, dim=dim, patterns=len(pats)))
    return res


def mpf_to_fraction(x):
    sign, man, exp, bc = x._mpf_
    v = Fr(int(man)) * (Fr(2) ** int(exp))
    return -v if sign else v


def bvecs(k, seed):
    out = [[Fr(0)] * k]
    for i in range(k):
        out.append([Fr(1) if j == i else Fr(0) for j in range(k)])
    out.append([Fr(((j * 5 + seed) % 7) - 3, 1 + j % 2) for j in range(k)])
    out.append([Fr(2), Fr(-1), Fr(3), Fr(1, 2)][:k])
    return out


def explore_solve(case):
    which, seed, part, nparts = case["which"], case["seed"], case["part"], case["nparts"]
    res = core.Result()
    with contextlib.redirect_stdout(io.StringIO()):
        fns = bz().derive_bezier7() if which == 7 else bz().derive_bezier3()
    fs = fns["bezier%d_solve" % which]
    ft = fns["bezier%d_traj" % which]
    ps, pt = sxvm.compile_fn(fs), sxvm.compile_fn(ft)
    k = 4 if which == 7 else 2
    names = ["position", "velocity", "acceleration", "jerk"][:k]
    combos = list(itertools.product(bvecs(k, seed), bvecs(k, seed + 1), TS))[part::nparts]
    for w0, w1, T in combos:
        res.count("evaluations")
        if any(w0) or any(w1):
            res.nontrivial.add(hash((which, tuple(w0), tuple(w1), T)))
        info = dict(wp_0=[str(x) for x in w0], wp_1=[str(x) for x in w1], T=str(T))
        exact = True
        try:
            outs, _ = sxvm.run(ps, [w0, w1, [T]], sxvm.FRACTION)
            P = sxvm.densify_out(fs, 0, outs[0], Fr(0))
            bad = any(x is sxvm.POISON for x in P)
        except sxvm.NotRational:
            # the symbolic matrix inverse of the septic goes through square roots: same program in 60-digit arithmetic
            exact = False
            outs, _ = sxvm.run(ps, [[float(x) for x in w0], [float(x) for x in w1], [float(T)]], sxvm.MPF)
            bad = not all(mpmath.isfinite(x) for x in outs[0])
            P = sxvm.densify_out(fs, 0, [mpf_to_fraction(x) for x in outs[0]], Fr(0)) if not bad else list(outs[0])
        if bad:
            res.fail(site="bezier%d_solve" % which, clause="control_points_finite", cls="-", detail=dict(info, P=[str(x) for x in P]), sub="solve", case=case)
            continue
        tol = Fr(0) if exact else Fr(1, 10 ** 40) * (1 + max(abs(x) for x in list(w0) + list(w1)))
        res.outcomes.add(hash(tuple(P)))
        for end, beta, w in (("start", Fr(0), w0), ("end", Fr(1), w1)):
            for m in range(k):
                got = ref_curve(P, T, beta, m)
                if abs(got - w[m]) > tol * (1 + 1 / T ** m):
                    res.fail(site="bezier%d_solve" % which, clause="boundary_condition_met:%s_%s" % (end, names[m]), cls="-",
                             detail=dict(info, P=[str(x) for x in P], curve_value=str(got), requested=str(w[m])), sub="solve", case=case)
        # the shipped trajectory function evaluates the same curve and its derivatives
        for beta in (Fr(0), Fr(1, 3), Fr(1)):
            o2, _ = sxvm.run(pt, [[beta * T], [T], P], sxvm.FRACTION)
            r = list(o2[0])
            want = [ref_curve(P, T, beta, m) for m in range(len(r))]
            res.count("evaluations")
            if any(x is sxvm.POISON for x in r) or r != want:
                res.fail(site="bezier%d_traj" % which, clause="trajectory_rows_are_successive_derivatives", cls="-",
                         detail=dict(info, t=str(beta * T), got=[str(x) for x in r], want=[str(x) for x in want]), sub="solve", case=case)
        fl = [[float(x) for x in w0], [float(x) for x in w1], [float(T)]]
        ok, worst, outs_d, _ = sxvm.conform(fs, ps, fl)
        res.count("traces_validated_against_impl")
        if not ok:
            raise core.HarnessError("sxvm/CasADi mismatch on bezier%d_solve (%.1f ulp)" % (which, worst))
        if max(abs(a - float(b)) for a, b in zip(sxvm.densify_out(fs, 0, outs_d[0], 0.0), P)) > 1e-6 * (1 + max(abs(float(b)) for b in P)):
            res.fail(site="bezier%d_solve" % which, clause="double_matches_exact", cls="-", detail=dict(info, double=outs_d[0], exact=[str(x) for x in P]), sub="solve", case=case)
    res.samples.append(dict(solver=which, cases=len(combos)))
    return res


def run_exact_or_mp(prog, args):
    """exact rational run of the instruction list; if the code uses an irrational opcode, the same program in 60-digit arithmetic
    (results converted to rationals; the caller then compares with tolerance 1e-40)"""
    try:
        outs, _ = sxvm.run(prog, args, sxvm.FRACTION)
        return outs, Fr(0)
    except sxvm.NotRational:
        outs, _ = sxvm.run(prog, [[float(x) for x in a] for a in args], sxvm.MPF)
        return [[mpf_to_fraction(x) if mpmath.isfinite(x) else sxvm.POISON for x in o] for o in outs], Fr(1, 10 ** 40)


def _differs(got, want, tol):
    got = list(got)
    if len(got) != len(want) or any(g is sxvm.POISON for g in got):
        return True
    if tol == 0:
        return got != want
    return any(abs(g - w) > tol * (1 + abs(w)) for g, w in zip(got, want))


def explore_multirotor(case):
    seed = case["seed"]
    res = core.Result()
    with contextlib.redirect_stdout(io.StringIO()):
        f = bz().derive_multirotor()["bezier_multirotor"]
    prog = sxvm.compile_fn(f)
    p8 = patterns(7, seed)
    p4 = patterns(3, seed)
    for i in range(2 * len(p8)):
        PX, PY, PZ = p8[i % len(p8)], p8[(i + 3) % len(p8)], p8[(i + 5) % len(p8)]
        Pp = p4[i % len(p4)]
        if i >= len(p8):
            # heading polynomials that leave (-pi, pi] and run through several turns; far-away positions
            Pp = [q * 4 + Fr(1, 2) for q in Pp]
            PX = [q * 1000 for q in PX]
        for T in TS:
            for beta in BETAS:
                res.count("evaluations")
                res.nontrivial.add(hash((i, T, beta)))
                outs, tol = run_exact_or_mp(prog, [[beta * T], [T], PX, PY, PZ, Pp])
                x, y, z, psi, dpsi, ddpsi, v, a, j, s = outs
                want = dict(x=[ref_curve(PX, T, beta, 0)], y=[ref_curve(PY, T, beta, 0)], z=[ref_curve(PZ, T, beta, 0)], psi=[ref_curve(Pp, T, beta, 0)],
                            psidot=[ref_curve(Pp, T, beta, 1)], psiddot=[ref_curve(Pp, T, beta, 2)])
                for nm, m in (("v", 1), ("a", 2), ("j", 3), ("s", 4)):
                    want[nm] = [ref_curve(P, T, beta, m) for P in (PX, PY, PZ)]
                got = dict(x=x, y=y, z=z, psi=psi, psidot=dpsi, psiddot=ddpsi, v=v, a=a, j=j, s=s)
                res.outcomes.add(hash(tuple(want["v"])))
                for nm in want:
                    if _differs(got[nm], want[nm], tol):
                        res.fail(site="bezier_multirotor", clause="outputs_are_consistent_derivatives:" + nm, cls="-",
                                 detail=dict(T=str(T), t=str(beta * T), PX=[str(q) for q in PX], got=[str(q) for q in got[nm]], want=[str(q) for q in want[nm]]),
                                 sub="multirotor", case=case)
    res.samples.append(dict(fn="bezier_multirotor", patterns=len(p8)))
    return res


# ---------------- high degrees: exact identity and double-precision accuracy ----------------------------------------------------
def explore_highdeg(case):
    """degrees beyond the shipped cubic / septic: the Bernstein / derivative identities exactly (rational arithmetic on the real instruction list)
    and the accuracy of the double evaluation inside [0, T] (an algebraically equivalent but unstable evaluation scheme loses digits with
    the degree)"""
    n, dim, seed = case["n"], case["dim"], case["seed"]
    res = core.Result()
    # generic control points of size ~1 with both signs, plus one pattern with a large offset
    gens = [[Fr(((k * 37 + seed * 11 + d * 17 + 5) % 41) - 20, 13) for k in range(n + 1)] for d in range(dim)]
    offs = [[Fr(1000) + Fr(((k * 29 + d * 7 + 3) % 17) - 8, 7) for k in range(n + 1)] for d in range(dim)]
    for m in (0, 1, 2, n):
        try:
            f, prog = fn_eval(n, dim, m)
        except Exception as ex:
            res.count("evaluations")
            res.fail(site="Bezier.deriv", clause="operation_raises", cls="n=%d,m=%d" % (n, m), detail=dict(error="%s: %s" % (type(ex).__name__, str(ex)[:200])), sub="highdeg", case=case)
            continue
        for tag, rows in (("generic", gens), ("offset", offs)):
            Pflat = [rows[d][k] for k in range(n + 1) for d in range(dim)]
            scale = max(abs(float(x)) for x in Pflat)
            for T in (Fr(1), Fr(5, 2)):
                for beta in (Fr(0), Fr(1, 7), Fr(1, 2), Fr(9, 10), Fr(999, 1000), Fr(1)):
                    res.count("evaluations")
                    res.nontrivial.add(hash((n, dim, m, tag, T, beta)))
                    want = [ref_curve(rows[d], T, beta, m) for d in range(dim)]
                    res.outcomes.add(hash(tuple(want)))
                    info = dict(n=n, dim=dim, m=m, points=tag, T=str(T), t=str(beta * T))
                    if n <= 12:
                        outs, _ = sxvm.run(prog, [Pflat, [T], [beta * T]], sxvm.FRACTION)
                        if _differs(outs[0], want, Fr(0)):
                            res.fail(site="Bezier.eval" if m == 0 else "Bezier.deriv", clause="equals_bernstein_polynomial" if m == 0 else "equals_exact_time_derivative",
                                     cls="n=%d,m=%d" % (n, m), detail=dict(info, got=[str(x) for x in outs[0]][:4], want=[str(x) for x in want][:4]), sub="highdeg", case=case)
                            continue
                    got = np.array(f.call([ca.DM(np.array([float(x) for x in Pflat]).reshape(dim, n + 1, order="F")), ca.DM(float(T)), ca.DM(float(beta * T))])[0], dtype=float).reshape(-1)
                    # derivative of order m amplifies the control-point round-off by at most (2 n)^m / T^m
                    tol = 1e-11 * scale * (2.0 * n / float(T)) ** m * (n + 1)
                    err = max(abs(g - float(w)) for g, w in zip(got, want)) if got.shape == (dim,) else float("inf")
                    if not err <= tol:
                        res.fail(site="Bezier.eval" if m == 0 else "Bezier.deriv", clause="double_evaluation_accurate", cls="n=%d,m=%d" % (n, m),
                                 detail=dict(info, err=err, tol=tol, got=got, want=[float(w) for w in want]), sub="highdeg", case=case)
    res.samples.append(dict(high_degree=n, dim=dim))
    return res


class _Hd:
    chunks = 1

    def cases(self, tier, seed):
        ns = (8, 9, 12, 16, 24) + ((32, 40) if tier == "thorough" else ())
        return [dict(sub="highdeg", n=n, dim=d, seed=seed, tier=tier) for n in ns for d in (1, 2)]

    def run(self, case):
        return explore_highdeg(case)


# ---------------- object history: a Bezier object follows its current control points and duration ---------------------------------
HOPS = ["eval", "d1", "d2", "d0", "setP", "poke", "setT", "fork"]


def run_history(n, dim, word, seed):
    """execute the word on one real Bezier object built from numeric data; returns list of (op, got, want) for the read operations"""
    pats = patterns(n, seed)
    rows = [pats[(2 + d) % len(pats)] for d in range(dim)]
    rows2 = [pats[(len(pats) - 1 - d) % len(pats)] for d in range(dim)]
    T = Fr(2)
    P = ca.DM([[float(x) for x in r] for r in rows])
    B = bz().Bezier(P, float(T))
    cur = [list(r) for r in rows]
    beta = Fr(1, 3)
    out = []
    for op in word:
        if op in ("eval", "d0", "d1", "d2"):
            m = {"eval": 0, "d0": 0, "d1": 1, "d2": 2}[op]
            if m > n:
                continue
            C = B if op == "eval" else B.deriv(m)
            got = np.array(ca.evalf(ca.densify(ca.SX(C.eval(float(beta * T))))), dtype=float).reshape(-1)
            want = [float(ref_curve(cur[d], T, beta, m)) for d in range(dim)]
            out.append((op, got, want))
        elif op == "setP":
            B.P = ca.DM([[float(x) for x in r] for r in rows2])
            P = B.P
            cur = [list(r) for r in rows2]
        elif op == "poke":
            # the caller refills its own control-point buffer in place (the object holds a reference to it)
            P[0, n] = float(cur[0][n] + 5)
            cur[0][n] = cur[0][n] + 5
        elif op == "setT":
            T = T * 3 / 2
            B.T = float(T)
        elif op == "fork":
            # a shallow copy of the curve is given other control points and differentiated (re-planning from a copy): the original keeps its own
            import copy
            B2 = copy.copy(B)
            B2.P = ca.DM([[float(x) + 3.0 for x in r] for r in rows2])
            for m_ in range(1, min(n, 2) + 1):
                B2.deriv(m_).eval(0.5)
    return out


def explore_history(case):
    n, dim, seed, tier = case["n"], case["dim"], case["seed"], case["tier"]
    depth = 5 if tier == "thorough" else 4
    res = core.Result()
    seen = set()
    for d in range(1, depth + 1):
        for word in itertools.product(HOPS, repeat=d):
            if word[-1] not in ("eval", "d0", "d1", "d2"):
                continue  # only words ending in a read add an observation
            res.count("evaluations")
            res.count("transitions", len(word))
            res.count("traces_validated_against_impl")
            try:
                with contextlib.redirect_stdout(io.StringIO()):
                    obs = run_history(n, dim, word, seed)
            except Exception as ex:
                res.fail(site="Bezier", clause="operation_raises", cls="history", detail=dict(word=list(word), error="%s: %s" % (type(ex).__name__, str(ex)[:200])), sub="history", case=case)
                continue
            if any(o in word for o in ("setP", "poke", "setT", "fork")):
                res.nontrivial.add(hash((n, dim, word)))
            res.outcomes.add(hash(tuple(tuple(w) for _, _, w in obs)))
            for op, got, want in obs[-1:]:
                seen.add(tuple(want))
                if got.shape != (len(want),) or not np.all(np.isfinite(got)) or max(abs(g - w) for g, w in zip(got, want)) > 1e-11 * (1 + max(abs(w) for w in want)):
                    res.fail(site="Bezier.eval" if op == "eval" else "Bezier.deriv", clause="object_follows_current_control_points_and_duration", cls="after_" + "_".join(sorted(set(word[:-1]) & {"setP", "poke", "setT", "fork"})) or "-",
                             detail=dict(n=n, dim=dim, word=list(word), got=got, want=want), sub="history", case=case)
    res.count("states", len(seen))
    res.samples.append(dict(history_n=n, dim=dim, depth=depth))
    return res


# ---------------- numeric curves built from Python data: storage forms, nearly equal control points, sequences of alike curves ---------
def creeping_curves(n):
    """control-point rows (floats) whose neighbours agree to six or more digits: a vehicle creeping at mm/s far from the origin, a hold,
    and pairs of curves that agree with one another to six digits"""
    k = np.arange(n + 1, dtype=float)
    return [("hold_2500", np.full(n + 1, 2500.0)), ("creep_up_2500", 2500.0 + 5e-4 * k), ("creep_down_2500", 2500.003 - 4e-4 * k), ("creep_1000", 1000.0 + 1e-3 * k * k),
            ("creep_small", 1e-3 * (1.0 + 1e-7 * k)), ("creep_neg_1e6", -1.0e6 + 0.25 * k), ("unit_steps", 1.0 * k), ("alternating", np.array([(-2.0) ** (i % 2) * (1 + i) for i in range(n + 1)]))]


def storage_forms(A):
    """the same (dim x n+1) control-point array in the storage forms a Python caller has at hand"""
    big = np.zeros((A.shape[0] * 2, A.shape[1] * 2))
    big[::2, ::2] = A
    wp = np.ascontiguousarray(A.T)  # way-points by row, as read from a mission file
    return [("DM", lambda: ca.DM(A)), ("numpy_C", lambda: np.ascontiguousarray(A)), ("nested_lists_DM", lambda: ca.DM(A.tolist())), ("numpy_F", lambda: np.asfortranarray(A)), ("numpy_transposed_view", lambda: wp.T),
            ("numpy_strided_view", lambda: big[::2, ::2]), ("SX_constant", lambda: ca.SX(ca.DM(A))), ("numpy_reversed_view", lambda: A[:, ::-1][:, ::-1])]


def explore_numeric(case):
    n, tier = case["n"], case["tier"]
    res = core.Result()
    curves = creeping_curves(n)
    T = 2.0
    betas = [Fr(1, 3), Fr(0), Fr(1)]

    def judge(P_rows, B, what, cls, detail):
        ok = True
        for m in range(0, min(n, 2) + 1):
            C = B if m == 0 else B.deriv(m)
            for beta in betas:
                res.count("evaluations")
                got = np.array(ca.evalf(ca.densify(ca.SX(C.eval(float(beta) * T)))), dtype=float).reshape(-1)
                want = [float(ref_curve([Fr(float(x)) for x in row], Fr(T), beta, m)) for row in P_rows]
                # scale of the m-th derivative's own control points (differences of the data), plus the rounding of the data themselves
                sc = []
                for row in P_rows:
                    d = np.array(row, dtype=float)
                    for j in range(m):
                        d = (n - j) * np.diff(d) / T
                    sc.append(float(np.max(np.abs(d))) if d.size else 0.0)
                tol = [1e-9 * sc_ + 4e-13 * float(np.max(np.abs(row))) * (2.0 * n / T) ** m for sc_, row in zip(sc, P_rows)]
                if got.shape != (len(want),) or not np.all(np.isfinite(got)) or any(abs(g - w) > t_ for g, w, t_ in zip(got, want, tol)):
                    res.fail(site="Bezier.eval" if m == 0 else "Bezier.deriv", clause=what, cls=cls, detail=dict(detail, n=n, derivative=m, beta=str(beta), got=got, want=want), sub="numeric", case=case)
                    ok = False
                    break
            if not ok:
                break
        return ok
    # (a) storage forms x curves (two rows: one creeping, one ordinary, so that a scrambled layout is visible)
    for ci, (cname, row) in enumerate(curves):
        other = curves[(ci + 3) % len(curves)][1]
        A = np.array([row, other, row[::-1]])
        for fname, mk in storage_forms(A):
            res.nontrivial.add(hash(("form", n, cname, fname)))
            try:
                with contextlib.redirect_stdout(io.StringIO()):
                    B = bz().Bezier(mk(), T)
                    judge([list(r) for r in A], B, "curve_of_numeric_control_points", fname, dict(curve=cname, storage=fname))
            except Exception as ex:
                res.count("evaluations")
                res.fail(site="Bezier", clause="operation_raises", cls="numeric;" + fname, detail=dict(curve=cname, storage=fname, error="%s: %s" % (type(ex).__name__, str(ex)[:200])), sub="numeric", case=case)
    # (a') the numeric TYPE of the data and of the duration: what is accepted must be used by its value
    for cname, row in curves[:4] + curves[6:]:
        A = np.array([row, row[::-1]])
        for ttag, conv in (("float32", lambda M: M.astype(np.float32)), ("int64", lambda M: np.rint(M).astype(np.int64)), ("int32_F", lambda M: np.asfortranarray(np.rint(M).astype(np.int32))),
                           ("object_floats", lambda M: M.astype(object))):
            for Ttag, Tv in (("float", 2.0), ("int", 2), ("numpy.float64", np.float64(2.0)), ("numpy.int64", np.int64(2))):
                # (a float32 duration makes numpy carry t / T in single precision: the caller's choice of precision, not judged)
                res.nontrivial.add(hash(("types", n, cname, ttag, Ttag)))
                try:
                    Pt = conv(A)
                    eff = np.array(Pt, dtype=float)
                    with contextlib.redirect_stdout(io.StringIO()):
                        B = bz().Bezier(Pt, Tv)
                        # evaluation must be possible at all for the form to count as accepted
                        ca.evalf(ca.densify(ca.SX(B.eval(0.5))))
                except Exception:  # noqa: BLE001 - refusal
                    res.count("evaluations")
                    res.count("refused")
                    continue
                try:
                    with contextlib.redirect_stdout(io.StringIO()):
                        judge([list(r) for r in eff], B, "curve_of_numeric_control_points", "dtype=%s;T=%s" % (ttag, Ttag), dict(curve=cname, dtype=ttag, T_type=Ttag))
                except Exception as ex:
                    res.count("evaluations")
                    res.fail(site="Bezier", clause="operation_raises", cls="numeric;dtype=%s;T=%s" % (ttag, Ttag), detail=dict(curve=cname, error="%s: %s" % (type(ex).__name__, str(ex)[:200])), sub="numeric", case=case)
    # (b) sequences: every ordered pair (thorough: triple) of curves evaluated one after the other in one process; the last one is judged
    depth = 3 if tier == "thorough" else 2
    for word in itertools.product(range(len(curves)), repeat=depth):
        if len(set(word)) == 1:
            continue
        res.nontrivial.add(hash(("seq", n, word)))
        res.count("transitions", len(word))
        try:
            with contextlib.redirect_stdout(io.StringIO()):
                for i, ci in enumerate(word):
                    A = np.array([curves[ci][1]])
                    B = bz().Bezier(ca.DM(A), T)
                    if i < len(word) - 1:
                        for m in range(1, min(n, 2) + 1):
                            ca.evalf(ca.densify(ca.SX(B.deriv(m).eval(0.5))))
                    else:
                        judge([list(A[0])], B, "curve_independent_of_earlier_curves", "after_alike_curve", dict(sequence=[curves[c][0] for c in word]))
        except Exception as ex:
            res.count("evaluations")
            res.fail(site="Bezier", clause="operation_raises", cls="numeric;sequence", detail=dict(sequence=[curves[c][0] for c in word], error="%s: %s" % (type(ex).__name__, str(ex)[:200])), sub="numeric", case=case)
    # (c) two curves of the same shape evaluated / differentiated in two threads, every interleaving of bezier.py's statements with at most one
    # preemption (thorough: two)
    from .. import threads
    A1, A2 = np.array([curves[6][1], curves[7][1], curves[3][1]]), np.array([curves[7][1][::-1], curves[6][1] * 2.0, curves[1][1]])

    def mkcall(A_, m_):
        def call():
            B_ = bz().Bezier(ca.DM(A_), T)
            C_ = B_ if m_ == 0 else B_.deriv(m_)
            return np.array(ca.evalf(ca.densify(ca.SX(C_.eval(0.3 * T)))), dtype=float).tobytes()
        return call
    quiet = contextlib.redirect_stdout(io.StringIO())
    quiet.__enter__()
    try:
        for ma, mb in ((0, 0), (1, 1), (0, min(n, 2))):
            fa, fb = mkcall(A1, min(ma, n)), mkcall(A2, min(mb, n))
            alone = [fa(), fb()]
            for choices, results, npts, capped in threads.explore([fa, fb], ("cyecca/models/bezier.py",), 1 if tier == "quick" else 2, max_runs=(1500 if tier == "quick" else 6000)):
                if capped:
                    res.counters["thread_schedules_capped"] += 1
                    break
                res.count("evaluations")
                res.count("schedules")
                res.nontrivial.add(hash(("threads", n, ma, mb, tuple(choices))))
                res.counters["max_scheduling_points"] = max(res.counters["max_scheduling_points"], npts)
                bad = [k for k, r_ in enumerate(results) if r_ is None or r_[0] != "ok" or r_[1] != alone[k]]
                if bad:
                    res.fail(site="Bezier.eval" if (ma, mb) == (0, 0) else "Bezier.deriv", clause="curve_independent_of_a_concurrent_evaluation", cls="threads", detail=dict(n=n, derivatives=[ma, mb], thread=bad[0], schedule=choices), sub="numeric", case=case)
                    break
    finally:
        quiet.__exit__(None, None, None)
    res.samples.append(dict(numeric_n=n, curves=[c for c, _ in curves], forms=[f for f, _ in storage_forms(np.zeros((1, n + 1)))], sequence_depth=depth))
    return res


class _Nu:
    chunks = 1

    def cases(self, tier, seed):
        return [dict(sub="numeric", n=n, tier=tier) for n in ((1, 3, 7) if tier == "quick" else (1, 2, 3, 5, 7))]

    def run(self, case):
        return explore_numeric(case)


class _Hi:
    chunks = 1

    def cases(self, tier, seed):
        return [dict(sub="history", n=n, dim=d, seed=seed, tier=tier) for n, d in ((1, 1), (3, 1), (3, 3), (7, 1), (2, 2))]

    def run(self, case):
        return explore_history(case)


class _Cu:
    chunks = 1

    def cases(self, tier, seed):
        return [dict(sub="curve", n=n, dim=d, seed=seed) for n in range(1, 8) for d in (1, 3)]

    def run(self, case):
        return explore_curve(case)


class _So:
    chunks = 1

    def cases(self, tier, seed):
        return [dict(sub="solve", which=w, seed=seed, part=p, nparts=n) for w, n in ((3, 2), (7, 8)) for p in range(n)]

    def run(self, case):
        return explore_solve(case)


class _Mu:
    chunks = 1

    def cases(self, tier, seed):
        return [dict(sub="multirotor", seed=seed)]

    def run(self, case):
        return explore_multirotor(case)


SUBCHECKS = {"curve": _Cu(), "solve": _So(), "multirotor": _Mu(), "history": _Hi(), "highdeg": _Hd(), "numeric": _Nu()}
REPLAY = {"curve": lambda c: explore_curve(c).fails, "solve": lambda c: explore_solve(c).fails, "multirotor": lambda c: explore_multirotor(c).fails,
          "history": lambda c: explore_history(c).fails, "highdeg": lambda c: explore_highdeg(c).fails, "numeric": lambda c: explore_numeric(c).fails}

# keyword / dict calls bind the documented names (see mc/kw.py)
from .. import kw as _kw  # noqa: E402

_KW = _kw.KwSub("bezier")
SUBCHECKS["keywords"] = _KW
REPLAY["keywords"] = _KW.replay
