"""C12 - the attitude estimator converges to the truth in closed-loop simulation.

explorer : history + sched.  Each lattice point (true attitude, bias, initialise flag, declination/inclination, rate setting)
           yields one long deterministic history of the packaged Simulator + AttitudeEstimator + Logger on the real uros bus
           (noise off, randn stubbed); every logged state is monitored.  The start-up ordering of simultaneous simpy events is
           explored with <= 1 (thorough: <= 2) deviations from FIFO.  Sensor models are checked separately against reference
           sensors over an attitude x declination x inclination lattice.
oracle   : no exception / NaN; for t >= 10 s attitude error <= 0.03 rad (0.09 at 100 Hz IMU), every bias component within 0.0125 (0.04) rad/s of truth and
           >= 70 % of an initial gap > 0.02 closed; corrections are accepted (status code 0) on >= 90 % of logged rows after 10 s.
"""
from __future__ import annotations

import contextlib
import io
import itertools
import math

import numpy as np

from .. import alpha, core, ref, sched

LEVEL = "model_checking"
RULE = ("closed loop: attitude in {centre, 8 corners of |r_i|<=0.3} (thorough + |r| up to 0.9) x bias {(0.07,0.02,-0.07),(-0.05,0.05,0.05),0} x initialize {T,F} x "
        "(decl,incl) {(0,0),(0,0.3),(0.2,1.0)} x rates {default,(1/400,1/100,1/25,1/100), corrections rate-limited to 50/25 Hz} + rate relations {mag 3/400 s, IMU 6.5 ms, IMU 6 ms (alternating intervals), sim 0.25 ms with IMU 6 ms, sim 1 ms}; quick = deterministic pairwise-covering sub-lattice, thorough = full product; "
        "parameter values as numpy.float64 / float32 / 0-d array / Fraction, numpy error state set to raise; node data flow over 70000 (thorough 400000) messages and for a deep copy of a live node; schedules: all tie-break orders with <= 1 deviation within the first 10 ms (thorough <= 2 within 50 ms) on one configuration. A state = one logged row; "
        "a transition = one logger period of the real system. non-trivial = run with non-zero attitude or bias; sensors: 7 axes x 16 angles x 3 decl x 4 incl")
ASSUMPTIONS = ["thresholds are >= 3x the worst value observed over the thorough lattice on the repaired tree (default rates 0.0098 rad / 0.0041 rad/s; 100 Hz IMU 0.0294 / 0.0127)", "np.random.randn stubbed to zeros; noise disabled",
               "initial conditions between lattice points and horizons beyond 20/30 s not covered"]
# >= 3x the worst value observed over the whole thorough lattice on the repaired tree:
# default rates 0.0098 rad / 0.0041 rad/s, slow rates (100 Hz IMU, RK4 step error dominates) 0.0294 rad / 0.0127 rad/s,
# rate-limited corrections (accel every 4th IMU message, mag every 2nd) 0.0104 rad / 0.0059 rad/s
TOL = {"default": (0.03, 0.0125), "slow": (0.09, 0.04), "limited": (0.035, 0.018), "offgrid": (0.08, 0.03),  # offgrid: worst observed 0.027 rad / 0.005 rad/s
       # rate RELATIONS (worst observed on the unchanged tree 0.055 rad / 0.0093 rad/s, started at zero)
       "imu_nonmultiple": (0.08, 0.03), "imu_mixed": (0.08, 0.03), "fine_sim_mixed": (0.08, 0.03), "fine_sim": (0.08, 0.03)}
ATT_TOL, BIAS_TOL = TOL["default"]

_L = {}


def launch():
    if not _L:
        with contextlib.redirect_stdout(io.StringIO()):
            from cyecca.estimate.attitude import launch as L
            from cyecca.estimate.attitude import algorithms
        _L["launch"] = L
        _L["eqs"] = L.eqs
        np.random.randn = lambda *a: np.zeros(a)
    return _L["launch"]


def bounds(tier):
    return dict(tf=30 if tier == "thorough" else 20, deviations=2 if tier == "thorough" else 1)


RATES = {"default": {}, "slow": {"sim/dt_sim": 1.0 / 400, "sim/dt_imu": 1.0 / 100, "sim/dt_mag": 1.0 / 25, "logger/dt": 1.0 / 100},
         # corrections rate-limited below the sensor rates (prediction on every IMU message, corrections on every 4th / 2nd)
         "limited": {"mrp/dt_min_accel": 1.0 / 50, "mrp/dt_min_mag": 1.0 / 25},
         # magnetometer samples stamped BETWEEN IMU samples (period 3/400 s against 1/200 s)
         "offgrid": {"sim/dt_mag": 3.0 / 400},
         # relations between the rate settings rather than their values: an IMU period that is no whole number of simulation steps (the
         # samples come every 7.5 ms), one that makes the sample intervals alternate (5 / 7.5 ms), a fine simulation step with intervals
         # that alternate within a few per cent (5 / 5.25 ms), and a simulation step equal to the publishing slack (4 / 5 ms, magnetometer
         # between IMU samples)
         "imu_nonmultiple": {"sim/dt_imu": 6.5e-3}, "imu_mixed": {"sim/dt_imu": 6e-3}, "fine_sim_mixed": {"sim/dt_sim": 0.25e-3, "sim/dt_imu": 6e-3},
         "fine_sim": {"sim/dt_sim": 1e-3}}


def run_loop(cfg, chooser=None):
    L = launch()
    p = {"tf": cfg["tf"], "initialize": cfg["initialize"], "estimators": ["mrp"], "x0": np.array(cfg["x0"], dtype=float),
         "params": {"sim/mag_incl": cfg["incl"], "sim/mag_decl": cfg["decl"], "mrp/mag_decl": cfg["decl"], "sim/enable_noise": False}}
    if cfg.get("x0_form") == "default":
        del p["x0"]  # the launcher's own default initial state
    elif cfg.get("x0_form") == "int_list":
        p["x0"] = [int(v) for v in cfg["x0"]]  # integer-valued data, as the launcher's default is written
    elif cfg.get("x0_form") == "int_array":
        p["x0"] = np.array([int(v) for v in cfg["x0"]])
    p["params"].update(RATES[cfg["rates"]])
    vt = cfg.get("value_types")
    if vt:
        # the same parameter VALUES given as other numeric types (what a configuration file reader or a numpy computation hands over)
        from fractions import Fraction
        conv = {"numpy.float64": np.float64, "numpy.float32_exact": lambda v: np.float32(v) if float(np.float32(v)) == float(v) else np.float64(v),
                "zero_d_array": lambda v: np.array(v), "fraction_exact": lambda v: Fraction(v) if not isinstance(v, bool) else v}[vt]
        p["params"] = {k: (np.bool_(v) if isinstance(v, bool) else conv(v)) for k, v in p["params"].items()}
    old = L.uros.Core
    sched.ControlledCore.chooser = chooser
    L.uros.Core = sched.ControlledCore
    try:
        with contextlib.redirect_stdout(io.StringIO()):
            if cfg.get("errstate"):
                # the caller's process has numpy's floating-point error handling set to raise
                with np.errstate(all="raise"):
                    return L.launch_sim(p), None
            return L.launch_sim(p), None
    except Exception as ex:  # any exception during the closed loop is a violation, reported by the caller
        return None, "%s: %s" % (type(ex).__name__, str(ex)[:300])
    finally:
        L.uros.Core = old
        sched.ControlledCore.chooser = None


def judge(res, cfg, d, err, case, sched_choices=None):
    tag = "init=%s,rates=%s" % (cfg["initialize"], cfg["rates"])
    info = dict(cfg=cfg, schedule=sched_choices)
    if err is not None:
        res.fail(site="launch_sim", clause="no_exception", cls=tag, detail=dict(info, error=err), sub=case["sub"], case=case)
        return
    t = d["time"]
    res.count("states", len(t))
    res.count("transitions", max(len(t) - 1, 0))
    res.count("traces_validated_against_impl", len(t))
    qs, qe = d["sim_attitude"]["q"], d["mrp_attitude"]["q"]
    bs, be = d["sim_attitude"]["b"], d["mrp_attitude"]["b"]
    have = ~np.isnan(qe[:, 0])
    # after the first estimate appears nothing may become NaN again
    first = int(np.argmax(have)) if have.any() else len(t)
    if not have.any() or first > len(t) // 4:
        res.fail(site="launch_sim", clause="estimator_produces_output", cls=tag, detail=dict(info, first_row=first, rows=len(t)), sub=case["sub"], case=case)
        return
    late_nan = np.isnan(qe[first:]).any() or np.isnan(be[first:]).any() or np.isnan(qs[first:]).any()
    if late_nan:
        res.fail(site="launch_sim", clause="no_nan_in_history", cls=tag, detail=info, sub=case["sub"], case=case)
        return
    # the readings published inside the running loop have the configured magnitudes and rotate with the true attitude: logger rows whose
    # sensor message carries the same time stamp as the logged true attitude are compared with the reference sensor model
    ta, tm, ti = d["sim_attitude"]["time"], d["mag"]["time"], d["imu"]["time"]
    Bn = ref.Rz(cfg["decl"]) @ ref.Ry(-cfg["incl"]) @ np.array([0.1, 0, 0])
    nm_ = ni_ = 0
    worst_m = worst_a = 0.0
    for k in range(first, len(t)):
        if not np.isfinite(ta[k]):
            continue
        Rk = None
        if np.isfinite(tm[k]) and abs(tm[k] - ta[k]) < 1e-9:
            Rk = ref.R_from_quat(qs[k])
            worst_m = max(worst_m, float(np.max(np.abs(np.asarray(d["mag"]["mag"][k]).reshape(-1) - Rk.T @ Bn))) / 0.1)
            nm_ += 1
        if np.isfinite(ti[k]) and abs(ti[k] - ta[k]) < 1e-9:
            Rk = ref.R_from_quat(qs[k]) if Rk is None else Rk
            worst_a = max(worst_a, float(np.max(np.abs(np.asarray(d["imu"]["accel"][k]).reshape(-1) - Rk.T @ np.array([0, 0, -9.8])))) / 9.8)
            ni_ += 1
    # the simulator publishes the true attitude and the IMU sample in one step with one time stamp: a logger row holds the latest of both,
    # so their stamps agree in every row; an IMU stamp that is not the simulation time of the sample belongs to another attitude
    off = [(float(ti[k]), float(ta[k])) for k in range(first, len(t)) if np.isfinite(ti[k]) and np.isfinite(ta[k]) and abs(ti[k] - ta[k]) >= 1e-9]
    if off:
        res.fail(site="launch_sim", clause="imu_sample_stamped_with_its_simulation_time", cls=tag, detail=dict(info, rows_with_differing_stamps=len(off), example_imu_time=off[len(off) // 2][0],
                 example_attitude_time=off[len(off) // 2][1], worst_difference=max(abs(a - b) for a, b in off)), sub=case["sub"], case=case)
        return
    if nm_ < 10 or ni_ < 10:
        raise core.HarnessError("C12: fewer than 10 logger rows with time-aligned sensor and attitude messages (%d mag, %d imu)" % (nm_, ni_))
    res.count("aligned_sensor_rows", nm_ + ni_)
    if worst_m > 1e-6:
        res.fail(site="launch_sim", clause="magnetometer_in_loop_is_configured_field_rotated_by_true_attitude", cls=tag, detail=dict(info, worst_relative_error=worst_m, rows=nm_), sub=case["sub"], case=case)
    if worst_a > 1e-6:
        res.fail(site="launch_sim", clause="accelerometer_in_loop_is_gravity_rotated_by_true_attitude", cls=tag, detail=dict(info, worst_relative_error=worst_a, rows=ni_), sub=case["sub"], case=case)
    m = t >= 10.0
    ATT_TOL, BIAS_TOL = TOL[cfg["rates"]]
    big = max(abs(v) for v in cfg["x0"][:3]) > 0.3 and not cfg["initialize"]
    if big:
        # outside the box and started at zero: the transient is longer; only a loose bound is judged
        ATT_TOL, BIAS_TOL = 0.4, 0.35  # worst observed 0.12 rad / 0.10 rad/s (rate-limited corrections, 0.9 MRP, started at zero)
    att = np.array([ref.rot_dist(ref.R_from_quat(a), ref.R_from_quat(b)) for a, b in zip(qs[m], qe[m])])
    berr = np.abs(bs[m] - be[m])
    res.outcomes.add(hash((round(float(att.max()), 6), tuple(np.round(berr.max(axis=0), 6)))))
    if att.max() > ATT_TOL:
        res.fail(site="launch_sim", clause="attitude_error_after_transient", cls=tag, detail=dict(info, max_err=float(att.max()), tol=ATT_TOL,
                 at_time=float(t[m][int(att.argmax())])), sub=case["sub"], case=case)
    b0 = np.abs(np.array(cfg["x0"][3:6]))  # estimator starts at zero bias
    for i in range(3):
        if berr[:, i].max() > BIAS_TOL or (b0[i] > 0.02 and not big and berr[-1, i] > 0.3 * b0[i]):
            res.fail(site="launch_sim", clause="gyro_bias_component_converges", cls=tag + ",axis=%d" % i,
                     detail=dict(info, axis=i, max_err=float(berr[:, i].max()), final_err=float(berr[-1, i]), initial_gap=float(b0[i])), sub=case["sub"], case=case)
    st = d["mrp_status"]
    for nm in ("accel_ret", "mag_ret"):
        codes = st[nm][m]
        codes = codes[~np.isnan(codes)]
        if len(codes) == 0 or float(np.mean(codes == 0)) < 0.9:
            res.fail(site="launch_sim", clause="corrections_accepted", cls=tag + "," + nm,
                     detail=dict(info, which=nm, accepted_fraction=float(np.mean(codes == 0)) if len(codes) else 0.0), sub=case["sub"], case=case)


def lattice(tier):
    atts = [[0.0, 0.0, 0.0]] + [[a, b, c] for a in (-0.3, 0.3) for b in (-0.3, 0.3) for c in (-0.3, 0.3)] + [[0.0, 0.0, 0.8]]  # last: heading 154 deg
    if tier == "thorough":
        atts += [[0.9, 0, 0], [0, -0.9, 0], [0.5, 0.5, -0.5], [0, 0, 0.9]]
    biases = [[0.07, 0.02, -0.07], [-0.05, 0.05, 0.05], [0.0, 0.0, 0.0]]
    inits = [True, False]
    mags = [(0.0, 0.0), (0.0, 0.3), (0.2, 1.0)]
    rates = ["default", "slow", "limited"]
    full = list(itertools.product(range(len(atts)), range(len(biases)), range(2), range(3), range(3)))
    if tier != "thorough":
        # deterministic pairwise covering: greedy over the full product
        need = set()
        dims = [len(atts), len(biases), 2, 3, 3]
        for i in range(5):
            for j in range(i + 1, 5):
                for a in range(dims[i]):
                    for b in range(dims[j]):
                        need.add((i, a, j, b))
        chosen = []
        while need:
            best, bc = None, -1
            for c in full:
                cov = sum(1 for i in range(5) for j in range(i + 1, 5) if (i, c[i], j, c[j]) in need)
                if cov > bc:
                    best, bc = c, cov
            chosen.append(best)
            for i in range(5):
                for j in range(i + 1, 5):
                    need.discard((i, best[i], j, best[j]))
        full = chosen
    tf = 30 if tier == "thorough" else 20
    out = [dict(x0=atts[a] + biases[b], initialize=inits[i], decl=mags[mg][0], incl=mags[mg][1], rates=rates[r], tf=tf) for a, b, i, mg, r in full]
    for x0, init in (([0.3, -0.3, 0.3, 0.07, 0.02, -0.07], True), ([-0.3, 0.3, 0.3, -0.05, 0.05, 0.05], False), ([0.0, 0.0, 0.8, 0.0, 0.0, 0.0], True), ([0.3, 0.3, -0.3, 0.0, 0.0, 0.0], False)):
        out.append(dict(x0=x0, initialize=init, decl=0.2, incl=1.0, rates="offgrid", tf=tf))
    for rates_ in ("imu_nonmultiple", "imu_mixed", "fine_sim_mixed", "fine_sim"):
        for x0, init in (([0.3, -0.3, 0.3, 0.07, 0.02, -0.07], True), ([-0.3, 0.3, 0.3, -0.05, 0.05, 0.05], False)):
            out.append(dict(x0=x0, initialize=init, decl=0.2, incl=1.0, rates=rates_, tf=tf))
    # parameter values of other numeric types, and numpy's error handling set to raise in the calling process
    for vt in ("numpy.float64", "numpy.float32_exact", "zero_d_array", "fraction_exact"):
        out.append(dict(x0=[0.3, -0.3, 0.3, 0.07, 0.02, -0.07], initialize=True, decl=0.25, incl=1.0, rates="slow", tf=tf, value_types=vt))
    for init in (True, False):
        out.append(dict(x0=[0.3, -0.3, 0.3, 0.07, 0.02, -0.07], initialize=init, decl=0.2, incl=1.0, rates="default", tf=tf, errstate=True))
    # the initial state left to the launcher's default, and given as integer-valued data
    for form, x0, init in (("default", [0.0] * 6, True), ("int_list", [0.0] * 6, False), ("int_array", [0.0] * 6, True)):
        out.append(dict(x0=x0, initialize=init, decl=0.2, incl=1.0, rates="default", tf=tf, x0_form=form))
    return out


def explore_loop(case):
    res = core.Result()
    cfg = case["cfg"]
    res.count("evaluations")
    if any(cfg["x0"]):
        res.nontrivial.add(hash(str(cfg)))
    d, err = run_loop(cfg)
    judge(res, cfg, d, err, case)
    if case.get("sample"):
        res.samples.append(dict(cfg=cfg, rows=0 if d is None else int(len(d["time"]))))
    return res


def explore_sched(case):
    """all tie-break schedules with <= bound deviations inside the start-up window, on one configuration"""
    res = core.Result()
    cfg, bound, window = case["cfg"], case["bound"], case["window"]
    n = 0
    npts = 0
    for choices, points, (d, err) in sched.explore(lambda ch: run_loop(cfg, ch), bound, window=window):
        n += 1
        npts = max(npts, sum(1 for p in points if p[1] <= window))
        res.count("evaluations")
        res.count("schedules")
        res.nontrivial.add(hash(tuple(choices[:64])))
        judge(res, cfg, d, err, case, sched_choices=[c for c in choices if True][:npts])
    res.add_set("tie_points_in_window", npts)
    res.samples.append(dict(sched_cfg=cfg, schedules=n, tie_points_in_window=npts, bound=bound))
    return res


def explore_sensors(case):
    tier, seed, part, nparts = case["tier"], case["seed"], case["part"], case["nparts"]
    res = core.Result()
    launch()
    E = _L["eqs"]["sim"]
    rvs = alpha.rotvecs(seed, angles=alpha.ANGLES_FULL)[part::nparts]
    for v in rvs:
        R = ref.rot(v)
        for tagr, r in [(t, p) for t, p, _ in alpha.rot_reps("Mrp", v)]:
            x = np.concatenate([r, [0.01, -0.02, 0.03]])
            for g in (9.8, 1.62):
                res.count("evaluations")
                res.nontrivial.add(hash((r.tobytes(), g)))
                y = np.array(E["measure_accel"](x, g, 0.0, np.zeros(3)), dtype=float).reshape(-1)
                want = R.T @ np.array([0, 0, -g])
                if not np.all(np.isfinite(y)) or np.max(np.abs(y - want)) > 1e-9 * g or abs(np.linalg.norm(y) - g) > 1e-9 * g:
                    res.fail(site="sim.measure_accel", clause="accelerometer_is_rotated_gravity_with_configured_magnitude", cls=tagr,
                             detail=dict(r=r, g=g, y=y, want=want, norm=float(np.linalg.norm(y))), sub="sensors", case=case)
            for decl in (-0.5, 0.0, 0.2):
                for incl in (0.0, 0.3, 1.0, -1.1):
                    for B in (0.1, 1.0):
                        res.count("evaluations")
                        y = np.array(E["measure_mag"](x, B, decl, incl, 0.0, np.zeros(3)), dtype=float).reshape(-1)
                        want = R.T @ (ref.Rz(decl) @ ref.Ry(-incl) @ np.array([B, 0, 0]))
                        res.outcomes.add(hash(np.round(want, 8).tobytes()))
                        if not np.all(np.isfinite(y)) or np.max(np.abs(y - want)) > 1e-9 * B or abs(np.linalg.norm(y) - B) > 1e-9 * B:
                            res.fail(site="sim.measure_mag", clause="magnetometer_is_rotated_field_with_configured_magnitude", cls=tagr,
                                     detail=dict(r=r, decl=decl, incl=incl, B=B, y=y, want=want), sub="sensors", case=case)
            om = np.array([0.3, -2.0, 1.0])
            y = np.array(E["measure_gyro"](x, om, 0.0, np.zeros(3)), dtype=float).reshape(-1)
            res.count("evaluations")
            if np.max(np.abs(y - (om + x[3:]))) > 1e-12:
                res.fail(site="sim.measure_gyro", clause="gyro_is_rate_plus_bias", cls=tagr, detail=dict(x=x, y=y), sub="sensors", case=case)
    res.samples.append(dict(sensor_rotations=len(rvs)))
    return res


def explore_node_outputs(case):
    """the estimator node raises on ANY NaN output of a step function (uros.check_nan), rejected corrections included: every output of
    correct_mag / correct_accel / predict must be finite over the C11 input lattice (incl. fields at and next to the vertical)"""
    from . import c11
    tier, seed, part, nparts = case["tier"], case["seed"], case["part"], case["nparts"]
    res = core.Result()
    axs = alpha.axes(seed)
    states = list(c11.mrp_ball(seed, tier))
    # body z axis at and next to the (horizontal) magnetic north direction: the cell where the yaw measurement degenerates
    for dlt in (0.0, 0.002, -0.004, 0.02, 0.3):
        for yaw in (0.0, 1.0):
            states.append(ref.mrp_of(ref.logm_rot(ref.rot(np.array([0, math.pi / 2 + dlt, 0])) @ ref.Rz(yaw))))
    for r in states[part::nparts]:
        R = ref.R_from_mrp(r)
        x = np.concatenate([r, [0.05, -0.02, 0.07]])
        for wname, W in c11.WS.items():
            ys = [c11.sens_mag(R, 0.0, 0.3, 0.1), R.T @ np.array([0, 0, 0.1]), R.T @ np.array([1e-4, 0, 0.1]), R.T @ np.array([0, 2e-4, -0.1]), np.zeros(3)]
            for ang in (1e-3, 2e-3, 4e-3, 0.02, 0.3):
                ys.append(R.T @ (ref.rot(axs[3] * ang) @ np.array([0, 0, 0.1])))
            for y in ys:
                res.count("evaluations")
                res.nontrivial.add(hash((x.tobytes(), wname, y.tobytes())))
                o = c11.eqs()["correct_mag"](x, c11.Wdm(W), y, 0.0, c11.STD_MAG, c11.BETA_MAG)
                vals = np.concatenate([np.array(v, dtype=float).reshape(-1) for v in o])
                res.outcomes.add(hash(np.round(vals[:6], 8).tobytes()))
                if not np.all(np.isfinite(vals)) and float(np.linalg.norm(y)) > 0:
                    res.fail(site="mrp.correct_mag", clause="every_output_finite_for_the_node", cls="W=" + wname,
                             detail=dict(x=x, y=y, nonfinite=int(np.sum(~np.isfinite(vals)))), sub="node", case=case)
            for y in [c11.sens_accel(R), c11.sens_accel(R, 5.0), c11.sens_accel(R @ ref.rot(axs[3] * 3.0)), -c11.sens_accel(R)]:
                res.count("evaluations")
                o = c11.eqs()["correct_accel"](x, c11.Wdm(W), y, c11.G0, np.zeros(3), c11.STD_ACC, c11.STD_ACC_OM, c11.BETA_ACC)
                vals = np.concatenate([np.array(v, dtype=float).reshape(-1) for v in o])
                if not np.all(np.isfinite(vals)):
                    res.fail(site="mrp.correct_accel", clause="every_output_finite_for_the_node", cls="W=" + wname,
                             detail=dict(x=x, y=y, nonfinite=int(np.sum(~np.isfinite(vals)))), sub="node", case=case)
    res.samples.append(dict(node_output_states=len(c11.mrp_ball(seed, tier)[part::nparts])))
    return res


def explore_predict_every_imu(case):
    """mechanism of C12: the node predicts on every IMU message that advances time (all (sensor, dt) words, real node with spies)"""
    from . import c20
    tier, first = case["tier"], case["first"]
    res = core.Result()
    import itertools as it
    evs = [(s, d) for s in ("imu", "mag") for d in c20.DTS]
    depth = 4 if tier == "thorough" else 3
    for d in range(1, depth + 1):
        for tail in it.product(evs, repeat=d - 1):
            word = (evs[first],) + tail
            res.count("evaluations")
            res.count("states", len(word))
            res.count("transitions", len(word))
            res.nontrivial.add(hash(word))
            log = c20.run_est(False, (5e-3, 5e-3), word)
            t_last = 0.0
            for sensor, t, calls, preds in log:
                if sensor != "imu":
                    continue
                dt = t - t_last
                t_last = t
                res.outcomes.add(hash((round(dt, 6), tuple(calls))))
                if dt > 0 and "predict" not in calls:
                    res.fail(site="AttitudeEstimator", clause="predicts_on_every_imu_message_that_advances_time", cls="dt=%g" % round(dt, 6),
                             detail=dict(word=[list(w) for w in word], t=t, dt=dt), sub="everyimu", case=case)
    return res


def explore_history_independence(case):
    """launch_sim must depend only on the parameters it is given: the same run before and after a run with other settings"""
    res = core.Result()
    B = dict(x0=[0.1, 0.2, 0.3, 0.07, 0.02, -0.07], initialize=True, decl=0.0, incl=0.0, rates="default", tf=1.0)
    A = dict(x0=[0.0, 0.0, 0.0, 0.0, 0.0, 0.0], initialize=False, decl=0.3, incl=1.0, rates="slow", tf=0.5)
    L = launch()

    def build(cfg):
        # only the keys that differ from the defaults are passed, as a user would
        p = {"tf": cfg["tf"], "initialize": cfg["initialize"], "estimators": ["mrp"], "x0": np.array(cfg["x0"], dtype=float), "params": {"sim/enable_noise": False}}
        if cfg["incl"]:
            p["params"]["sim/mag_incl"] = cfg["incl"]
        if cfg["decl"]:
            p["params"].update({"sim/mag_decl": cfg["decl"], "mrp/mag_decl": cfg["decl"]})
        p["params"].update(RATES[cfg["rates"]])
        return p

    def minimal(cfg):
        with contextlib.redirect_stdout(io.StringIO()):
            return L.launch_sim(build(cfg))

    def flat(p):
        return repr(sorted((k, (sorted(v.items()) if isinstance(v, dict) else (np.asarray(v).tolist() if isinstance(v, np.ndarray) else v))) for k, v in p.items()))
    try:
        d1 = minimal(B)
        minimal(A)
        d2 = minimal(B)
        # the caller keeps its configuration object and passes it again (e.g. an initialize True / False sweep)
        pB = build(B)
        before = flat(pB)
        with contextlib.redirect_stdout(io.StringIO()):
            d3 = L.launch_sim(pB)
            after = flat(pB)
            d4 = L.launch_sim(pB)
    except Exception as ex:
        res.count("evaluations")
        res.fail(site="launch_sim", clause="no_exception", cls="history", detail=dict(error="%s: %s" % (type(ex).__name__, str(ex)[:300])), sub="history", case=case)
        return res
    res.count("evaluations", 3)
    res.nontrivial.add(1)
    res.nontrivial.add(2)
    res.count("states", len(d1["time"]))
    res.count("transitions", len(d1["time"]))
    same = len(d1) == len(d2) and all(np.array_equal(np.nan_to_num(np.asarray(d1[k][f]), nan=-777.0), np.nan_to_num(np.asarray(d2[k][f]), nan=-777.0))
                                     for k in ("sim_attitude", "mrp_attitude", "imu", "mag") for f in d1[k].dtype.names)
    if not same:
        res.fail(site="launch_sim", clause="run_depends_only_on_its_own_parameters", cls="history",
                 detail=dict(first_rows=int(len(d1)), again_rows=int(len(d2)), mag0=np.asarray(d1["mag"]["mag"][1]).tolist(), mag0_again=np.asarray(d2["mag"]["mag"][1]).tolist()),
                 sub="history", case=case)
    def same_runs(a, b):
        return len(a) == len(b) and all(np.array_equal(np.nan_to_num(np.asarray(a[k][f]), nan=-777.0), np.nan_to_num(np.asarray(b[k][f]), nan=-777.0))
                                        for k in ("sim_attitude", "mrp_attitude", "imu", "mag") for f in a[k].dtype.names)
    res.count("evaluations", 2)
    if before != after:
        res.fail(site="launch_sim", clause="arguments_not_mutated", cls="history", detail=dict(before=before[:400], after=after[:400]), sub="history", case=case)
    if not same_runs(d3, d1) or not same_runs(d4, d1):
        res.fail(site="launch_sim", clause="run_depends_only_on_its_own_parameters", cls="same_configuration_object_again",
                 detail=dict(first_equals_reference=bool(same_runs(d3, d1)), second_equals_reference=bool(same_runs(d4, d1)),
                             mag1=np.asarray(d1["mag"]["mag"][1]).tolist(), mag1_second_call=np.asarray(d4["mag"]["mag"][1]).tolist()), sub="history", case=case)
    res.samples.append(dict(history_independence=True))
    return res


class _Node:
    chunks = 1

    def cases(self, tier, seed):
        return [dict(sub="node", tier=tier, seed=seed, part=p, nparts=4) for p in range(4)]

    def run(self, case):
        return explore_node_outputs(case)


class _Every:
    chunks = 1

    def cases(self, tier, seed):
        return [dict(sub="everyimu", tier=tier, first=f) for f in range(16)]

    def run(self, case):
        return explore_predict_every_imu(case)


class _Hist:
    chunks = 1

    def cases(self, tier, seed):
        return [dict(sub="history", tier=tier)]

    def run(self, case):
        return explore_history_independence(case)


class _Loop:
    chunks = 1

    def cases(self, tier, seed):
        lat = lattice(tier)
        return [dict(sub="loop", cfg=c, sample=(i < 2)) for i, c in enumerate(lat)]

    def run(self, case):
        return explore_loop(case)


class _Sched:
    chunks = 1

    def cases(self, tier, seed):
        cfg = dict(x0=[0.1, 0.2, 0.3, 0.07, 0.02, -0.07], initialize=True, decl=0.0, incl=0.3, rates="default", tf=12)
        out = [dict(sub="sched", cfg=cfg, bound=1, window=0.0101 if tier != "thorough" else 0.0501)]
        cfg2 = dict(cfg, initialize=False, rates="slow")
        out.append(dict(sub="sched", cfg=cfg2, bound=1, window=0.0101 if tier != "thorough" else 0.0501))
        if tier == "thorough":
            out.append(dict(sub="sched", cfg=cfg, bound=2, window=0.0101))
        return out

    def run(self, case):
        return explore_sched(case)


class _Sens:
    chunks = 1

    def cases(self, tier, seed):
        return [dict(sub="sensors", tier=tier, seed=seed, part=p, nparts=4) for p in range(4)]

    def run(self, case):
        return explore_sensors(case)


SUBCHECKS = {"sensors": _Sens(), "node": _Node(), "everyimu": _Every(), "history": _Hist(), "loop": _Loop(), "sched": _Sched()}
# the node keeps x and W across callbacks: every step function receives what the previous one returned, over tens of thousands of
# callbacks and for a deep copy of a live node (the machinery lives next to the other node drivers in c20.py)
from . import c20 as _c20  # noqa: E402

SUBCHECKS["nodeflow"] = _c20._Flow()
REPLAY = {"sensors": lambda c: explore_sensors(c).fails, "loop": lambda c: explore_loop(c).fails, "sched": lambda c: explore_sched(c).fails,
          "node": lambda c: explore_node_outputs(c).fails, "everyimu": lambda c: explore_predict_every_imu(c).fails,
          "history": lambda c: explore_history_independence(c).fails}
REPLAY["nodeflow"] = lambda c: _c20.explore_nodeflow(c).fails
