"""C04 - Ad / ad / bracket agree with matrix conjugation and commutators.

explorer : product over (X, y), (x, y), (x, y, z) alphabets + BFS over group words for the Ad homomorphism.
oracle   : wedge(Ad_X y) = alpha(X) wedge(y) alpha(X)^-1 ; ad_x y = [x,y] ; wedge([x,y]) = commutator ;
           antisymmetry ; Jacobi ; Ad_exp(x) = expm(ad_x) ; Ad_XY = Ad_X Ad_Y ; Ad_X^-1 Ad_X = I ; shapes square.
vee is obtained by solving against the basis wedge(e_i) taken from the library's own algebra to_Matrix.
"""
from __future__ import annotations

import itertools
from collections import deque

import numpy as np

from .. import alpha, core, gutil, lib, numapi, ref
from ..gutil import close, key_of, maxabs, rep_tag

LEVEL = "model_checking"
RULE = ("per configuration: reduced group alphabet X (all representatives) x algebra alphabet y for conjugation; "
        "algebra pairs/triples for ad, bracket, antisymmetry, Jacobi; Ad_exp = expm(ad); BFS over words {X*g, g*X, X^-1} "
        "comparing Ad(state) with the product of the generators' Ad matrices. Operations that raise NotImplementedError "
        "(Ad and bracket on direct products) are out of scope by the property. non-trivial = X not identity and y non-zero")
ASSUMPTIONS = ["numpy inverse / scipy expm as reference", "values between alphabet members not covered"]


def bounds(tier):
    return dict(depth=3 if tier == "thorough" else 2)


def explore_config(case):
    name, tier, seed = case["config"], case["tier"], case["seed"]
    res = core.Result()
    G = lib.resolve(name)
    B = lib.built(name, G)
    L, AL = lib.layout(G), lib.alg_layout(G)
    is_dp = "*" in name
    ops = ("Ad", "ad", "bracket", "wedge", "to_Matrix", "exp", "product", "inverse", "identity")
    for op in ops:
        B.get(op)
        res.count("evaluations")
        st = B.status[op]
        if st.startswith("error"):
            res.fail(site="%s.%s" % (name, op), clause="operation_raises", cls=st.split(":")[1],
                     detail=dict(status=st), sub="config", case=case)
        elif st == "not_implemented":
            res.count("not_offered")
    ok_ = lambda o: B.status[o] == "ok"
    if not (ok_("wedge") and ok_("to_Matrix")):
        return res
    na, n = B.na, B.mshape[0]
    Ia = np.eye(na)
    basis = [B.call("wedge", Ia[:, i]) for i in range(na)]
    # the wedge map must be linear and injective for vee to make sense
    A = np.stack([b.reshape(-1) for b in basis], axis=1)
    if np.linalg.matrix_rank(A) < na:
        res.fail(site=name + ".wedge", clause="wedge_injective", cls="-", detail=dict(rank=int(np.linalg.matrix_rank(A))),
                 sub="config", case=case)
        return res

    def vee(M):
        return ref.solve_vee(basis, M)

    elems = alpha.elements(L, seed, small=True)
    elems = [e for e in elems if gutil.elem_excluded(L, e["p"]) is None]
    elems = alpha.reduced(elems, (60 if tier == "thorough" else 36) if not is_dp else 16)
    xs = alpha.elements(AL, seed, small=True)
    xs = alpha.reduced(xs, (40 if tier == "thorough" else 24) if not is_dp else 12)
    if not is_dp:
        from .. import harvest as _hv
        for op_ in ("Ad", "to_Matrix", "inverse", "product"):
            elems = elems + [dict(tag="harvest(%s)" % op_, p=p_, refs=None) for p_ in _hv.lie_members(B, op_, seed, tier) if gutil.elem_excluded(L, p_) is None]
        for op_ in ("ad", "exp", "bracket"):
            xs = xs + [dict(tag="harvest(%s)" % op_, p=p_, refs=None) for p_ in _hv.lie_members(B, op_, seed, tier)]

    # ---------------- direct numeric use of the API, object reuse, argument mutation (see numapi) -------
    numapi.check_group(res, B, [e["p"] for e in alpha.reduced(elems, 16 if not is_dp else 8)], [x["p"] for x in alpha.reduced(xs, 16 if not is_dp else 8)],
                       case, "config", ("Ad", "ad", "bracket"))
    numapi.check_forms(res, B, [e["p"] for e in alpha.reduced(elems, 16 if not is_dp else 8)], [x["p"] for x in alpha.reduced(xs, 16 if not is_dp else 8)],
                       case, "config", ("Ad", "ad", "bracket"))
    numapi.check_composed(res, B, [e["p"] for e in alpha.reduced(elems, 12 if not is_dp else 8)], [x["p"] for x in alpha.reduced(xs, 12 if not is_dp else 8)],
                          case, "config", firsts=["exp", "inverse", "square", "neg", "log"], seconds=["Ad", "ad"])
    numapi.check_aliasing(res, B, [e["p"] for e in alpha.reduced(elems, 12 if not is_dp else 8)], [x["p"] for x in alpha.reduced(xs, 12 if not is_dp else 8)], case, "config", ("Ad", "ad"))
    numapi.check_symbol_names(res, B, [e["p"] for e in alpha.reduced(elems, 6)], [x["p"] for x in alpha.reduced(xs, 6)], case, "config", ("Ad", "ad", "bracket"))
    numapi.check_history(res, B, [e["p"] for e in alpha.reduced(elems, 8)], [x["p"] for x in alpha.reduced(xs, 8)], case, "config", ["Ad", "ad"], ["to_Matrix", "inverse", "wedge", "exp"])
    numapi.check_threads(res, B, numapi.generic_pair([e["p"] for e in elems]), numapi.generic_pair([x["p"] for x in xs]), case, "config", ("Ad", "ad"))
    if is_dp:
        gutil.check_product_by_position(res, B, [e["p"] for e in alpha.reduced(elems, 8)], [x["p"] for x in alpha.reduced(xs, 8)], case, "config", ("Ad", "ad"))
    numapi.check_spellings(res, B, [e["p"] for e in alpha.reduced(elems, 6)], [x["p"] for x in alpha.reduced(xs, 8)], case, "config")
    # ---------------- shapes ---------------------------------------------------------------------
    if ok_("Ad"):
        A0 = B.call("Ad", elems[0]["p"])
        if A0.shape != (na, na):
            res.fail(site=name + ".Ad", clause="Ad_square_on_algebra_parameters", cls="-", detail=dict(shape=A0.shape, n_param=na),
                     sub="config", case=case)
    if ok_("ad"):
        a0 = B.call("ad", xs[0]["p"])
        if a0.shape != (na, na):
            res.fail(site=name + ".ad", clause="ad_square_on_algebra_parameters", cls="-", detail=dict(shape=a0.shape, n_param=na),
                     sub="config", case=case)

    # ---------------- conjugation ---------------------------------------------------------------
    AdX = {}
    if ok_("Ad") and B.call("Ad", elems[0]["p"]).shape == (na, na):
        for i, e in enumerate(elems):
            MX = B.call("to_Matrix", e["p"])
            MXi = np.linalg.inv(MX)
            Ad = B.call("Ad", e["p"])
            AdX[i] = Ad
            for y in xs:
                res.count("evaluations")
                Wy = B.call("wedge", y["p"])
                want = MX @ Wy @ MXi
                got = B.call("wedge", Ad @ y["p"])
                if maxabs(MX - np.eye(n)) > 1e-6 and maxabs(y["p"]) > 0:
                    res.nontrivial.add(hash(e["p"].tobytes() + y["p"].tobytes()))
                res.outcomes.add(hash(np.round(want, 8).tobytes()))
                ok, er = close(got, want, scale=1 + maxabs(MX) * maxabs(Wy) * maxabs(MXi))
                if not ok:
                    res.fail(site=name + ".Ad", clause="Ad_is_matrix_conjugation", cls=rep_tag(e),
                             detail=dict(X=e["p"], tagX=e["tag"], y=y["p"], err=er, got=vee(got)[0], want=vee(want)[0]),
                             sub="config", case=case)
            # Ad_{X^-1} Ad_X = I
            if ok_("inverse") and gutil.inverse_excluded(L, e["p"]) is None:
                Adi = B.call("Ad", B.vec("inverse", e["p"]))
                ok, er = close(Adi @ Ad, Ia, scale=1 + maxabs(Ad) * maxabs(Adi))
                res.count("evaluations")
                if not ok:
                    res.fail(site=name + ".Ad", clause="Ad_inverse", cls=rep_tag(e), detail=dict(X=e["p"], err=er),
                             sub="config", case=case)
        # Ad_{XY} = Ad_X Ad_Y on pairs
        small = list(range(0, len(elems), max(1, len(elems) // 12)))
        for i in AdX:
            for j in small:
                if gutil.product_excluded(L, elems[i]["p"], elems[j]["p"]):
                    res.count("excluded_by_reference")
                    continue
                res.count("evaluations")
                q = B.vec("product", elems[i]["p"], elems[j]["p"])
                ok, er = close(B.call("Ad", q), AdX[i] @ AdX[j], scale=1 + maxabs(AdX[i]) * maxabs(AdX[j]))
                if not ok:
                    res.fail(site=name + ".Ad", clause="Ad_homomorphism", cls="X:%s;Y:%s" % (rep_tag(elems[i]), rep_tag(elems[j])),
                             detail=dict(X=elems[i]["p"], Y=elems[j]["p"], err=er), sub="config", case=case)

    # ---------------- ad / bracket ----------------------------------------------------------------
    ad_ok = ok_("ad") and B.call("ad", xs[0]["p"]).shape == (na, na)
    br_ok = ok_("bracket")
    for x in xs:
        Wx = B.call("wedge", x["p"])
        adx = B.call("ad", x["p"]) if ad_ok else None
        for y in xs:
            res.count("evaluations")
            Wy = B.call("wedge", y["p"])
            comm = Wx @ Wy - Wy @ Wx
            c_ref, resid = vee(comm)
            sc = 1 + maxabs(Wx) * maxabs(Wy)
            if maxabs(comm) > 1e-9:
                res.nontrivial.add(hash(b"br" + x["p"].tobytes() + y["p"].tobytes()))
            if br_ok:
                bxy = B.vec("bracket", x["p"], y["p"])
                ok, er = close(B.call("wedge", bxy), comm, scale=sc)
                if not ok:
                    res.fail(site=name + ".bracket", clause="bracket_is_commutator", cls="-",
                             detail=dict(x=x["p"], y=y["p"], got=bxy, want=c_ref, err=er), sub="config", case=case)
                byx = B.vec("bracket", y["p"], x["p"])
                if maxabs(bxy + byx) > 1e-9 * sc:
                    res.fail(site=name + ".bracket", clause="bracket_antisymmetric", cls="-",
                             detail=dict(x=x["p"], y=y["p"], xy=bxy, yx=byx), sub="config", case=case)
            if ad_ok:
                got = adx @ y["p"]
                want = B.vec("bracket", x["p"], y["p"]) if br_ok else c_ref
                if resid > 1e-9 * sc and not br_ok:
                    continue
                if maxabs(got - want) > 1e-9 * sc:
                    res.fail(site=name + ".ad", clause="ad_is_bracket", cls="-",
                             detail=dict(x=x["p"], y=y["p"], got=got, want=want), sub="config", case=case)
    # Jacobi on triples of a small set
    if br_ok:
        tri = alpha.reduced([x for x in xs if maxabs(x["p"]) > 0], 6)
        for x, y, z in itertools.product(tri, repeat=3):
            res.count("evaluations")
            b = lambda u, v: B.vec("bracket", u, v)
            J = b(x["p"], b(y["p"], z["p"])) + b(y["p"], b(z["p"], x["p"])) + b(z["p"], b(x["p"], y["p"]))
            sc = 1 + maxabs(x["p"]) * maxabs(y["p"]) * maxabs(z["p"])
            if maxabs(J) > 1e-9 * sc:
                res.fail(site=name + ".bracket", clause="jacobi_identity", cls="-",
                         detail=dict(x=x["p"], y=y["p"], z=z["p"], J=J), sub="config", case=case)
    # Ad_exp(x) = expm(ad_x)
    if ad_ok and ok_("Ad") and ok_("exp") and AdX:
        for x in xs:
            skip = False
            for k, (s, v) in enumerate(zip(AL, gutil.slots_of(AL, x["p"]))):
                if s[0] == "rotvec" and L[k][1] == "Euler" and gutil.euler_in_band(ref.rot(v)):
                    skip = True
            if skip:
                res.count("excluded_by_reference")
                continue
            res.count("evaluations")
            want = ref.expm(B.call("ad", x["p"]))
            got = B.call("Ad", B.vec("exp", x["p"]))
            ok, er = close(got, want)
            if not ok:
                res.fail(site=name + ".Ad", clause="Ad_exp_is_expm_ad", cls="-", detail=dict(x=x["p"], err=er),
                         sub="config", case=case)

    # ---------------- words: Ad along operation words ---------------------------------------------
    if AdX and ok_("product") and ok_("inverse") and ok_("identity"):
        depth = 3 if tier == "thorough" else 2
        cand = [i for i in AdX if 1e-3 < maxabs(B.call("to_Matrix", elems[i]["p"]) - np.eye(n)) and maxabs(AdX[i]) < 10]
        gi = alpha.reduced(cand, 4)
        gens = [(elems[i]["p"], AdX[i]) for i in gi]
        e_id = B.vec("identity")
        seen = {key_of(e_id)}
        fr = deque([(e_id, Ia.copy(), 0, ())])
        res.count("states")
        moves = [("R", i) for i in range(len(gens))] + [("L", i) for i in range(len(gens))] + [("I", -1)]
        while fr:
            p, Aref, d, word = fr.popleft()
            res.counters["max_depth"] = max(res.counters["max_depth"], d)
            if d >= depth:
                continue
            for op, k in moves:
                if op == "I":
                    if gutil.inverse_excluded(L, p):
                        continue
                    q = B.vec("inverse", p)
                    Aq = np.linalg.inv(Aref)
                else:
                    a, b = (p, gens[k][0]) if op == "R" else (gens[k][0], p)
                    if gutil.product_excluded(L, a, b):
                        res.count("excluded_by_reference")
                        continue
                    q = B.vec("product", a, b)
                    Aq = Aref @ gens[k][1] if op == "R" else gens[k][1] @ Aref
                if gutil.elem_excluded(L, q):
                    continue
                res.count("transitions")
                res.count("evaluations")
                res.count("traces_validated_against_impl")
                ok, er = close(B.call("Ad", q), Aq, scale=(1 + maxabs(Aq)) * (1 + maxabs(Aref)) * (d + 2))
                if not ok:
                    res.fail(site=name + ".Ad", clause="Ad_along_word", cls="op:" + op,
                             detail=dict(word=list(word) + [(op, k)], generators=[g[0] for g in gens], err=er), sub="config", case=case)
                    continue
                kk = key_of(q)
                if kk not in seen:
                    seen.add(kk)
                    res.count("states")
                    fr.append((q, Aq, d + 1, word + ((op, k),)))
    elif ok_("ad"):
        # direct products: only ad is offered; count the algebra exploration as states of the (trivial) machine
        res.count("states", len(xs))
        res.count("transitions", len(xs) * len(xs))
    res.samples.append(dict(config=name, group_elements=len(elems), algebra_elements=len(xs),
                            status={o: B.status[o] for o in ("Ad", "ad", "bracket")}))
    return res


class _Sub:
    chunks = 1

    def cases(self, tier, seed):
        names = list(gutil.BASE) + gutil.product_configs(tier)
        return [dict(config=n, tier=tier, seed=seed) for n in names]

    def run(self, case):
        return explore_config(case)


SUBCHECKS = {"config": _Sub()}
REPLAY = {"config": lambda case: explore_config(case).fails}

# results must not depend on which library calls were made earlier in the process (see mc/order.py)
from .. import order as _order  # noqa: E402

_ORDER = _order.OrderSub("C04", "lie", lambda k: k.split('/')[-1] in ('Ad','ad'))
SUBCHECKS["order"] = _ORDER
REPLAY["order"] = _ORDER.replay


# Euler groups of other conventions than the exported 3-2-1 body-fixed one (see mc/eulervar.py)
class _EulerVar:
    chunks = 1

    def cases(self, tier, seed):
        return [dict(sub="eulerconv", tier=tier, seed=seed)]

    def run(self, case):
        from .. import eulervar
        res = core.Result()
        eulervar.explore(res, case, "eulerconv", {"Ad", "to_Matrix", "act"}, core)
        res.outcomes.add(int(res.counters.get("evaluations", 0)))
        return res


SUBCHECKS["eulerconv"] = _EulerVar()
REPLAY["eulerconv"] = lambda c: _EulerVar().run(c).fails
