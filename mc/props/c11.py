"""C11 - each attitude-estimator step keeps the state valid and the covariance consistent.

explorer : product (initialize / predict / corrections over input lattices, branch cells counted through sxvm path
           signatures) + history (BFS over words of {predict, correct_accel, correct_mag} menu items on the fed-back (x, W)).
oracle   : initialize: error_code != 0 or the generating attitude (reference sensors, independent of the repository's simulator)
           is returned to 1e-9 with zero bias, never NaN;  predict: |r1| <= 1, R(r1) = R(r) expm([w-b]dt) to 5th order local
           error, order observed by halving dt in 60-digit evaluation of the same program, W1 finite lower triangular;
           corrections: non-zero code => (x, W) bit-identical; zero code => finite, W+ lower triangular, P+ <= P.
"""
from __future__ import annotations

import contextlib
import io
import itertools
import math
from collections import deque

import casadi as ca
import mpmath
import numpy as np

from .. import alpha, core, ref, sxvm
from ..gutil import key_of, maxabs

LEVEL = "model_checking"
RULE = ("initialize: 7 axes x 16 angles x decl {-0.5,0,0.3} x incl {0,0.3,1.1,-1.1} x |B| {0.1,1} + degenerate inputs; predict: MRPs over the unit ball "
        "(incl. |r|=1) x bias {0,+-0.1} x 3 covariance factors x rates up to 30 rad/s x dt {1,5,10,20} ms; corrections: consistent / rotated / wrong-magnitude "
        "measurements; history: BFS over all words of 12 menu items to the depth from 3 initial (x, W). non-trivial = rotation or rate non-zero; distinct by raw bytes")
ASSUMPTIONS = ["reference sensors: accel = R^T(0,0,-g), mag = R^T Rz(decl) Ry(-incl) e1 |B|", "numpy eigenvalues for P - P+",
               "words longer than the depth not covered"]

_EQ = {}


def eqs():
    if not _EQ:
        with contextlib.redirect_stdout(io.StringIO()):
            from cyecca.estimate.attitude import algorithms
            _EQ.update(algorithms.eqs()["mrp"])
    return _EQ


def bounds(tier):
    return dict(history_depth=5 if tier == "thorough" else 4)


def arr(x):
    return np.array(x, dtype=float)


def lower_to_dense(W):
    return arr(ca.DM(W))


G0 = 9.8


def sens_accel(R, g=G0):
    return R.T @ np.array([0, 0, -g])


def sens_mag(R, decl, incl, B=1.0):
    return R.T @ (ref.Rz(decl) @ ref.Ry(-incl) @ np.array([B, 0, 0]))


W0 = np.diag([1, 1, 1, 5e-2, 5e-2, 5e-2]).astype(float)
W_SMALL = np.diag([0.02, 0.03, 0.05, 1e-3, 2e-3, 1e-3]).astype(float)
W_DENSE = np.tril(np.array([[0.05, 0, 0, 0, 0, 0], [0.01, 0.04, 0, 0, 0, 0], [-0.01, 0.005, 0.06, 0, 0, 0],
                            [1e-3, 0, -1e-3, 5e-3, 0, 0], [0, 1e-3, 0, 1e-3, 4e-3, 0], [5e-4, 0, 1e-3, 0, -1e-3, 6e-3]]))
# a filter that has converged: attitude std 1e-5 rad, gyro-bias std 1e-4 rad/s and below
W_CONFIDENT = np.tril(np.array([[1e-5, 0, 0, 0, 0, 0], [2e-6, 1e-5, 0, 0, 0, 0], [0, -1e-6, 2e-5, 0, 0, 0],
                                [1e-6, 0, 0, 1e-4, 0, 0], [0, 1e-6, 0, 0, 1e-4, 0], [0, 0, 2e-6, 1e-5, 0, 5e-5]]))
WS = {"W0": W0, "small": W_SMALL, "dense": W_DENSE, "confident": W_CONFIDENT}


def Wdm(W):
    """DM with lower sparsity as the functions expect"""
    return ca.DM(ca.Sparsity.lower(6), ca.DM([W[r, c] for c in range(6) for r in range(c, 6)]))


def call(name, *args):
    f = eqs()[name]
    return f(*args)


def explore_init(case):
    tier, seed, part, nparts = case["tier"], case["seed"], case["part"], case["nparts"]
    res = core.Result()
    f = eqs()["initialize"]
    prog = sxvm.compile_fn(f)
    rvs = alpha.rotvecs(seed, angles=alpha.ANGLES_FULL)[part::nparts]
    sigs = set()
    for v in rvs:
        R = ref.rot(v)
        for decl in (-0.5, 0.0, 0.3):
            for incl in (0.0, 0.3, 1.1, -1.1):
                for B in (0.1, 1.0):
                    res.count("evaluations")
                    g_b = sens_accel(R)
                    B_b = sens_mag(R, decl, incl, B)
                    x0, code = f(g_b, B_b, decl)
                    x0, code = arr(x0).reshape(-1), float(code)
                    if np.linalg.norm(v) > 1e-6:
                        res.nontrivial.add(hash((v.tobytes(), decl, incl, B)))
                    flat = [list(g_b), list(B_b), [decl]]
                    sigs.add(sxvm.run(prog, flat, sxvm.FLOAT)[1])
                    cls = "theta=%s" % ("pi" if abs(np.linalg.norm(v) - math.pi) < 1e-9 else ("0" if np.linalg.norm(v) == 0 else "generic"))
                    if not np.all(np.isfinite(x0)) or not math.isfinite(code):
                        res.fail(site="mrp.initialize", clause="never_nan", cls=cls, detail=dict(v=v, decl=decl, incl=incl, B=B, x0=x0, code=code),
                                 sub="init", case=case)
                        continue
                    if code != 0:
                        res.count("init_rejected")
                        continue
                    d = ref.rot_dist(ref.R_from_mrp(x0[:3]), R)
                    res.outcomes.add(hash(np.round(x0, 8).tobytes()))
                    if d > 1e-9 or maxabs(x0[3:]) != 0 or np.linalg.norm(x0[:3]) > 1 + 1e-12:
                        res.fail(site="mrp.initialize", clause="returns_generating_attitude_or_error_code", cls=cls,
                                 detail=dict(v=v, decl=decl, incl=incl, B=B, x0=x0, rotation_error=d), sub="init", case=case)
    # gravity and magnetic field exactly (anti)parallel along every direction of the lattice: the attitude is not observable, so the
    # call must be refused (round-off pushes |cos| of the separation angle to either side of 1 depending on the direction)
    for v in rvs:
        R = ref.rot(v)
        g_b = sens_accel(R)
        for sc in (0.37, -0.37, 1.0 / 98.0):
            res.count("evaluations")
            x0, code = f(g_b, sc * g_b, 0.0)
            x0, code = arr(x0).reshape(-1), float(code)
            if not math.isfinite(code) or not np.all(np.isfinite(x0)) or code == 0:
                res.fail(site="mrp.initialize", clause="degenerate_input_refused" if (math.isfinite(code) and np.all(np.isfinite(x0))) else "never_nan",
                         cls="degenerate:B_parallel_g", detail=dict(v=v, g_b=g_b, scale=sc, x0=x0, code=code), sub="init", case=case)
    if part == 0:
        # degenerate inputs: must give a non-zero code or a finite state, never NaN
        R = ref.rot(np.array([0.3, -0.2, 0.5]))
        deg = []
        for gm in (0.0, 8.7, 8.8 - 1e-9, 8.8 + 1e-9, 10.8 - 1e-9, 10.8 + 1e-9, 20.0):
            deg.append((sens_accel(R, gm) if gm else np.zeros(3), sens_mag(R, 0.0, 0.3), 0.0, "g=%g" % gm))
        deg.append((sens_accel(R), np.zeros(3), 0.0, "B=0"))
        deg.append((sens_accel(R), sens_accel(R) * 0.1, 0.0, "B_parallel_g"))
        for ang in (math.radians(10) - 1e-9, math.radians(10) + 1e-9, math.radians(9), 1e-9):
            # magnetic field at angle `ang` from the vertical
            Bn = np.array([math.sin(ang), 0, math.cos(ang)])
            deg.append((sens_accel(R), R.T @ Bn, 0.0, "angle=%.9g" % ang))
        for g_b, B_b, decl, tag in deg:
            res.count("evaluations")
            x0, code = f(g_b, B_b, decl)
            x0, code = arr(x0).reshape(-1), float(code)
            sigs.add(sxvm.run(prog, [list(g_b), list(B_b), [decl]], sxvm.FLOAT)[1])
            if not math.isfinite(code) or (not np.all(np.isfinite(x0))):
                res.fail(site="mrp.initialize", clause="never_nan", cls="degenerate:" + tag.split("=")[0], detail=dict(g_b=g_b, B_b=B_b, x0=x0, code=code, tag=tag),
                         sub="init", case=case)
            elif code == 0 and tag.startswith(("g=0", "g=8.7", "g=20", "B=0", "B_parallel", "angle=0.157", "angle=1e-09")):
                # inputs that cannot determine the attitude must be refused
                res.fail(site="mrp.initialize", clause="degenerate_input_refused", cls="degenerate:" + tag.split("=")[0],
                         detail=dict(g_b=g_b, B_b=B_b, x0=x0, code=code, tag=tag), sub="init", case=case)
    res.add_set("init_cells", len(sigs))
    res.samples.append(dict(fn="initialize", rotations=len(rvs)))
    return res


def mrp_ball(seed, tier):
    out = []
    axs = alpha.axes(seed)
    mags = [0.0, 1e-9, 0.05, 0.3, 0.6, 0.9, 1.0 - 1e-12, 1.0]
    for m in mags:
        for ax in (axs if tier == "thorough" else [axs[0], axs[2], axs[3], axs[6]]):
            out.append(ax * m)
            if m == 0:
                break
    return out


def explore_predict(case):
    tier, seed, part, nparts = case["tier"], case["seed"], case["part"], case["nparts"]
    res = core.Result()
    f = eqs()["predict"]
    prog = sxvm.compile_fn(f)
    rs = mrp_ball(seed, tier)[part::nparts]
    axs = alpha.axes(seed)
    omegas = [np.zeros(3), np.array([0.3, -0.2, 0.5]), axs[6] * 3.0, axs[2] * 10.0, axs[5] * 30.0]
    biases = [np.zeros(3), np.array([0.1, -0.1, 0.1])]
    dts = [1e-3, 5e-3, 1e-2, 2e-2]
    sigs = set()
    for r in rs:
        R = ref.R_from_mrp(r)
        for b in biases:
            x = np.concatenate([r, b])
            for wname, W in WS.items():
                for om in omegas:
                    for dt in dts:
                        res.count("evaluations")
                        x1, W1 = f(0.0, x, Wdm(W), om, 1e-3, 1e-5, dt)
                        x1 = arr(x1).reshape(-1)
                        W1d = arr(ca.DM(W1))
                        if maxabs(om) > 0 or maxabs(r) > 0:
                            res.nontrivial.add(hash((x.tobytes(), wname, om.tobytes(), dt)))
                        th = float(np.linalg.norm(om - b)) * dt
                        cls = "|r|=1" if abs(np.linalg.norm(r) - 1) < 1e-9 else ("|r|<1")
                        if not (np.all(np.isfinite(x1)) and np.all(np.isfinite(W1d))):
                            res.fail(site="mrp.predict", clause="finite", cls=cls, detail=dict(x=x, W=wname, omega=om, dt=dt, x1=x1), sub="predict", case=case)
                            continue
                        if np.linalg.norm(x1[:3]) > 1 + 1e-12:
                            res.fail(site="mrp.predict", clause="mrp_norm_le_1", cls=cls, detail=dict(x=x, omega=om, dt=dt, x1=x1, norm=float(np.linalg.norm(x1[:3]))),
                                     sub="predict", case=case)
                        if maxabs(np.triu(W1d, 1)) != 0:
                            res.fail(site="mrp.predict", clause="W1_lower_triangular", cls=cls, detail=dict(x=x, W=wname, omega=om, dt=dt), sub="predict", case=case)
                        Rref = R @ ref.rot((om - b) * dt)
                        err = ref.rot_dist(ref.R_from_mrp(x1[:3]), Rref)
                        res.outcomes.add(hash(np.round(Rref, 8).tobytes()))
                        if err > 0.01 * th ** 5 + 1e-12:
                            res.fail(site="mrp.predict", clause="fifth_order_local_error", cls=cls,
                                     detail=dict(x=x, omega=om, dt=dt, theta=th, err=err, bound=0.01 * th ** 5 + 1e-12), sub="predict", case=case)
                        if maxabs(x1[3:] - b) > 1e-15:
                            res.fail(site="mrp.predict", clause="bias_constant_without_noise", cls=cls, detail=dict(x=x, x1=x1), sub="predict", case=case)
                        if wname == "W0" and dt == dts[0]:
                            flat = [[0.0], list(x), [W[rr, c] for c in range(6) for rr in range(c, 6)], list(om), [1e-3], [1e-5], [dt]]
                            okc, worst, outs, sig = sxvm.conform(f, prog, flat)
                            res.count("traces_validated_against_impl")
                            sigs.add(sig)
                            if not okc:
                                raise core.HarnessError("sxvm/CasADi mismatch on predict (%.1f ulp)" % worst)
    # observed order by halving dt, same program in 60 digits
    if part == 0:
        mp = mpmath.mp
        for r in (np.array([0.3, -0.2, 0.1]), np.array([0.0, 0.6, 0.0])):
            for om in (np.array([1.0, -2.0, 1.5]), axs[5] * 10.0):
                errs = []
                for dt in (0.04, 0.02):
                    x = np.concatenate([r, np.zeros(3)])
                    flat = [[0.0], list(x), [W_SMALL[rr, c] for c in range(6) for rr in range(c, 6)], list(om), [1e-3], [1e-5], [dt]]
                    outs, _ = sxvm.run(prog, flat, sxvm.MPF)
                    r1 = [float(v) for v in outs[0][:3]]
                    # error against the exact rotation (double reference is enough at these error sizes > 1e-9)
                    errs.append(max(ref.rot_dist(ref.R_from_mrp(np.array(r1)), ref.R_from_mrp(r) @ ref.rot(om * dt)), 1e-300))
                res.count("evaluations")
                order = math.log(errs[0] / errs[1]) / math.log(2)
                if errs[0] > 1e-11 and not (3.5 <= order <= 5.8):
                    res.fail(site="mrp.predict", clause="observed_order_4", cls="|r|<1", detail=dict(r=r, omega=om, errs=errs, order=order), sub="predict", case=case)
    res.add_set("predict_cells", len(sigs))
    res.samples.append(dict(fn="predict", mrps=len(rs), omegas=len(omegas), dts=dts))
    return res


STD_MAG, BETA_MAG, STD_ACC, STD_ACC_OM, BETA_ACC = 2.5e-3, 6.6, 35e-3, 0.0, 9.2


def do_accel(x, W, y, omega=np.zeros(3)):
    o = eqs()["correct_accel"](x, Wdm(W), y, G0, omega, STD_ACC, STD_ACC_OM, BETA_ACC)
    return arr(o[0]).reshape(-1), arr(ca.DM(o[1])), float(o[5]), o


def do_mag(x, W, y, decl=0.0):
    o = eqs()["correct_mag"](x, Wdm(W), y, decl, STD_MAG, BETA_MAG)
    return arr(o[0]).reshape(-1), arr(ca.DM(o[1])), float(o[5]), o


def judge_correction(res, site, x, W, x1, W1, code, info, case, sub):
    cls = "rejected" if code != 0 else "accepted"
    if code != 0:
        same = x1.tobytes() == np.asarray(x, dtype=float).tobytes() and np.tril(W1).tobytes() == np.tril(W).tobytes()
        if not same:
            d = dict(info)
            d.update(code=code, x=x, x1=x1, dW=maxabs(W1 - W))
            res.fail(site=site, clause="rejected_correction_returns_state_bit_identical", cls=cls, detail=d, sub=sub, case=case)
        return
    if not (np.all(np.isfinite(x1)) and np.all(np.isfinite(W1))):
        d = dict(info)
        d.update(x=x, x1=x1)
        res.fail(site=site, clause="accepted_correction_finite", cls=cls, detail=d, sub=sub, case=case)
        return
    if maxabs(np.triu(W1, 1)) > 0:
        res.fail(site=site, clause="Wplus_lower_triangular", cls=cls, detail=dict(info), sub=sub, case=case)
    P, Pp = W @ W.T, W1 @ W1.T
    lam = float(np.min(np.linalg.eigvalsh((P - Pp + (P - Pp).T) / 2)))
    if lam < -1e-10 * float(np.linalg.norm(P, 2)):
        d = dict(info)
        d.update(min_eig_P_minus_Pplus=lam, x=x)
        res.fail(site=site, clause="covariance_never_increases", cls=cls, detail=d, sub=sub, case=case)


def explore_correct(case):
    tier, seed, part, nparts = case["tier"], case["seed"], case["part"], case["nparts"]
    res = core.Result()
    rs = mrp_ball(seed, tier)[part::nparts]
    axs = alpha.axes(seed)
    pa = sxvm.compile_fn(eqs()["correct_accel"])
    pm = sxvm.compile_fn(eqs()["correct_mag"])
    sa, sm = set(), set()
    for r in rs:
        R = ref.R_from_mrp(r)
        for b in (np.zeros(3), np.array([0.05, -0.02, 0.07])):
            x = np.concatenate([r, b])
            for wname, W in WS.items():
                # accelerometer: consistent, rotated, wrong magnitude, zero
                ys = [("consistent", sens_accel(R))]
                for ang in (1e-3, 0.1, 1.0, math.pi / 2, 3.0):
                    ys.append(("rotated%g" % ang, sens_accel(R @ ref.rot(axs[3] * ang))))
                for gm in (0.0, 5.0, 8.7, 8.9, 10.7, 10.9, 47.0):
                    ys.append(("magnitude%g" % gm, sens_accel(R, gm) if gm else np.zeros(3)))
                # correct magnitude but exactly perpendicular / opposite to the predicted gravity direction (innovation angle pi/2, pi)
                gb = sens_accel(R)
                for k, e in enumerate((np.array([1.0, 0, 0]), np.array([0.3, -0.5, 0.8]))):
                    u = np.cross(gb, e)
                    if np.linalg.norm(u) > 1e-6:
                        ys.append(("perpendicular%d" % k, G0 * u / np.linalg.norm(u)))
                        if wname == "small":
                            # the whole circle of directions at exactly 90 degrees from the predicted gravity (the sine of the innovation
                            # angle is 1 up to rounding, on either side)
                            u0 = u / np.linalg.norm(u)
                            u1 = np.cross(gb / np.linalg.norm(gb), u0)
                            for j in range(1, 24):
                                ang = 2 * math.pi * j / 24
                                ys.append(("perpendicular_circle", G0 * (math.cos(ang) * u0 + math.sin(ang) * u1)))
                ys.append(("opposite", -gb))
                for tag, y in ys:
                    res.count("evaluations")
                    res.nontrivial.add(hash((x.tobytes(), wname, tag, "a")))
                    x1, W1, code, o = do_accel(x, W, y)
                    res.outcomes.add(hash((code, np.round(x1, 8).tobytes())))
                    if not math.isfinite(code):
                        res.fail(site="mrp.correct_accel", clause="error_code_finite", cls=tag.rstrip("0123456789.e-"), detail=dict(x=x, W=wname, y=y), sub="correct", case=case)
                        continue
                    gate_should_reject = abs(np.linalg.norm(y) - G0) > 1.0 + 1e-9
                    gate_should_accept = abs(np.linalg.norm(y) - G0) < 1.0 - 1e-9
                    if (gate_should_reject and code == 0) or (gate_should_accept and code != 0):
                        res.fail(site="mrp.correct_accel", clause="magnitude_gate", cls=tag.rstrip("0123456789.e-"),
                                 detail=dict(x=x, W=wname, y=y, code=code, norm=float(np.linalg.norm(y))), sub="correct", case=case)
                    judge_correction(res, "mrp.correct_accel", x, W, x1, W1, code, dict(W=wname, y=y, tag=tag), case, "correct")
                    if code == 0 and not all(np.all(np.isfinite(arr(v))) for v in o):
                        res.fail(site="mrp.correct_accel", clause="accepted_correction_finite", cls="secondary_outputs", detail=dict(x=x, W=wname, y=y, nonfinite=[i for i, v in enumerate(o) if not np.all(np.isfinite(arr(v)))]),
                                 sub="correct", case=case)
                    if wname == "small":
                        flat = [list(x), [W[rr, c] for c in range(6) for rr in range(c, 6)], list(y), [G0], [0.0] * 3, [STD_ACC], [STD_ACC_OM], [BETA_ACC]]
                        sa.add(sxvm.run(pa, flat, sxvm.FLOAT)[1])
                # magnetometer
                ym = [("consistent", sens_mag(R, 0.0, 0.3, 0.1))]
                for ang in (1e-3, 0.1, 1.0, 3.0):
                    ym.append(("yawed%g" % ang, sens_mag(R @ ref.rot(np.array([0, 0, ang])).T, 0.0, 0.3, 0.1)))
                ym.append(("vertical", R.T @ np.array([0, 0, 0.1])))
                ym.append(("near_vertical", R.T @ np.array([1e-4, 0, 0.1])))
                ym.append(("zero", np.zeros(3)))
                for tag, y in ym:
                    res.count("evaluations")
                    res.nontrivial.add(hash((x.tobytes(), wname, tag, "m")))
                    x1, W1, code, o = do_mag(x, W, y)
                    res.outcomes.add(hash((code, np.round(x1, 8).tobytes())))
                    if not math.isfinite(code):
                        # the error code itself must be a number: NaN compares false with 0 and silently selects the unchanged state
                        res.fail(site="mrp.correct_mag", clause="error_code_finite", cls=tag.rstrip("0123456789.e-"), detail=dict(x=x, W=wname, y=y), sub="correct", case=case)
                        continue
                    judge_correction(res, "mrp.correct_mag", x, W, x1, W1, code, dict(W=wname, y=y, tag=tag), case, "correct")
                    if code == 0 and not all(np.all(np.isfinite(arr(v))) for v in o):
                        res.fail(site="mrp.correct_mag", clause="accepted_correction_finite", cls="secondary_outputs", detail=dict(x=x, W=wname, y=y, nonfinite=[i for i, v in enumerate(o) if not np.all(np.isfinite(arr(v)))]),
                                 sub="correct", case=case)
                    if wname == "small":
                        flat = [list(x), [W[rr, c] for c in range(6) for rr in range(c, 6)], list(y), [0.0], [STD_MAG], [BETA_MAG]]
                        sm.add(sxvm.run(pm, flat, sxvm.FLOAT)[1])
    # magnetometer rejection "field too close to the body vertical" depends on the ESTIMATE: attitudes whose body z axis lies on /
    # next to the predicted (horizontal, declination-rotated) field direction, from exactly aligned to 10 degrees off, both senses
    if part == 0:
        ncode1 = 0
        for decl in (0.0, 0.3, -1.0):
            nvec = np.array([math.cos(decl), math.sin(decl), 0.0])
            for off_deg in (0.0, 0.05, 0.2, 0.5, 1.0, 3.0, 10.0):
                for k, axd in enumerate((np.array([0, 0, 1.0]), np.array([-math.sin(decl), math.cos(decl), 0.0]), axs[5])):
                    ax = np.cross(nvec, axd) if k == 2 else axd
                    ax = ax / np.linalg.norm(ax)
                    zb = ref.rot(ax * math.radians(off_deg)) @ nvec
                    xb = np.cross(np.array([0.3, -0.5, 0.8]), zb)
                    xb /= np.linalg.norm(xb)
                    for sgn in (1.0, -1.0):
                        C = np.column_stack([xb, sgn * np.cross(zb, xb), sgn * zb])
                        r = ref.mrp_of(ref.logm_rot(C))
                        x = np.concatenate([r, [0.01, -0.02, 0.005]])
                        for wname, W in WS.items():
                            for tag, y in (("consistent", sens_mag(C, decl, 0.0, 0.5)), ("offset", sens_mag(C, decl, 0.0, 0.5) + np.array([0.01, -0.02, 0.005]))):
                                res.count("evaluations")
                                res.nontrivial.add(hash((x.tobytes(), wname, tag, decl, "mz")))
                                x1, W1, code, o = do_mag(x, W, y, decl)
                                res.outcomes.add(hash((code, np.round(x1, 8).tobytes())))
                                if not math.isfinite(code):
                                    res.fail(site="mrp.correct_mag", clause="error_code_finite", cls="field_along_body_z", detail=dict(x=x, W=wname, y=y, decl=decl), sub="correct", case=case)
                                    continue
                                ncode1 += code == 1
                                judge_correction(res, "mrp.correct_mag", x, W, x1, W1, code, dict(W=wname, y=y, tag="field_along_body_z;" + tag, decl=decl, off_deg=off_deg), case, "correct")
        res.count("mag_rejections_too_close_to_vertical", int(ncode1))
        if ncode1 == 0:
            raise core.HarnessError("C11: the 'too close to vertical' magnetometer rejection was never reached")
    # measurements, states and covariances next to every outcome change of the compiled corrections along rays: innovation angle 0..pi,
    # measurement magnitude through the gate, heading error through a whole turn, field elevation up to the body vertical, body rate,
    # estimate magnitude up to the shadow switch, covariance scale over five decades
    if part == 0:
        from .. import harvest
        r0 = np.array([0.21, -0.13, 0.3])
        R0 = ref.R_from_mrp(r0)
        x0 = np.concatenate([r0, [0.01, -0.02, 0.005]])
        gb = sens_accel(R0)
        perp = np.cross(gb, np.array([0.3, -0.5, 0.8]))
        perp /= np.linalg.norm(perp)
        tri = lambda W: [W[rr, c] for c in range(6) for rr in range(c, 6)]
        for wname, W in WS.items():
            rays_a = [("innovation_angle", lambda t: (x0, W, ref.rot(perp * t) @ gb, np.zeros(3)), [k * math.pi / 16 for k in range(0, 17)]),
                      ("measurement_magnitude", lambda t: (x0, W, ref.rot(perp * 0.3) @ gb * (t / G0), np.zeros(3)), [0.0, 1e-6, 1e-3, 0.1, 1.0, 5.0, 8.0, 8.5, 9.0, 9.5, 10.0, 10.5, 11.0, 12.0, 20.0, 50.0]),
                      ("body_rate", lambda t: (x0, W, ref.rot(perp * 0.1) @ gb, np.array([0.6, -0.64, 0.48]) * t), [0.0, 1e-6, 1e-3, 0.1, 1.0, 3.0, 10.0, 30.0]),
                      ("estimate_magnitude", lambda t: (np.concatenate([r0 / np.linalg.norm(r0) * t, x0[3:]]), W, sens_accel(ref.R_from_mrp(r0 / np.linalg.norm(r0) * t) @ ref.rot(perp * 0.05)), np.zeros(3)),
                       [0.0, 1e-6, 1e-3, 0.1, 0.3, 0.5, 0.7, 0.9, 0.99, 1.0]),
                      ("covariance_scale", lambda t: (x0, W * t, ref.rot(perp * 0.2) @ gb, np.zeros(3)), [1e-4, 1e-3, 1e-2, 0.1, 1.0, 10.0])]
            for tag, mk, ts in rays_a:
                def flat_of(t, mk=mk):
                    x_, W_, y_, om_ = mk(t)
                    return [list(x_), tri(W_), list(y_), [G0], list(om_), [STD_ACC], [STD_ACC_OM], [BETA_ACC]]
                mem = harvest.ray_members(pa, flat_of, ts, per_cell=(8 if tier == "quick" else 24), cap=50)
                res.count("harvested_members", len(mem))
                for t in list(mem) + [(a + b) / 2 for a, b in zip(ts, ts[1:])]:
                    x_, W_, y_, om_ = mk(t)
                    res.count("evaluations")
                    res.nontrivial.add(hash(("ray_a", wname, tag, t)))
                    x1, W1, code, o = do_accel(x_, W_, y_, om_)
                    if not math.isfinite(code):
                        res.fail(site="mrp.correct_accel", clause="error_code_finite", cls="ray=" + tag, detail=dict(x=x_, W=wname, y=y_, t=t), sub="correct", case=case)
                        continue
                    judge_correction(res, "mrp.correct_accel", x_, W_, x1, W1, code, dict(W=wname, y=y_, tag="ray=%s t=%r" % (tag, t)), case, "correct")
                    if code == 0 and not all(np.all(np.isfinite(arr(v))) for v in o):
                        res.fail(site="mrp.correct_accel", clause="accepted_correction_finite", cls="secondary_outputs;ray=" + tag, detail=dict(x=x_, W=wname, y=y_, t=t), sub="correct", case=case)
            rays_m = [("heading_error", lambda t: (x0, W, sens_mag(R0 @ ref.rot(np.array([0, 0, t])).T, 0.0, 0.3, 0.1)), [k * math.pi / 16 for k in range(-16, 17)]),
                      ("field_elevation", lambda t: (x0, W, R0.T @ np.array([0.1 * math.cos(t), 0.0, 0.1 * math.sin(t)])), [k * math.pi / 32 for k in range(0, 17)]),
                      ("field_magnitude", lambda t: (x0, W, sens_mag(R0 @ ref.rot(np.array([0, 0, 0.05])).T, 0.0, 0.3, t)), [1e-9, 1e-6, 1e-3, 0.01, 0.1, 1.0, 10.0, 1e3]),
                      ("covariance_scale", lambda t: (x0, W * t, sens_mag(R0 @ ref.rot(np.array([0, 0, 0.3])).T, 0.0, 0.3, 0.1)), [1e-4, 1e-3, 1e-2, 0.1, 1.0, 10.0])]
            for tag, mk, ts in rays_m:
                def flat_of(t, mk=mk):
                    x_, W_, y_ = mk(t)
                    return [list(x_), tri(W_), list(y_), [0.0], [STD_MAG], [BETA_MAG]]
                mem = harvest.ray_members(pm, flat_of, ts, per_cell=(8 if tier == "quick" else 24), cap=50)
                res.count("harvested_members", len(mem))
                for t in list(mem) + [(a + b) / 2 for a, b in zip(ts, ts[1:])]:
                    x_, W_, y_ = mk(t)
                    res.count("evaluations")
                    res.nontrivial.add(hash(("ray_m", wname, tag, t)))
                    x1, W1, code, o = do_mag(x_, W_, y_)
                    if not math.isfinite(code):
                        res.fail(site="mrp.correct_mag", clause="error_code_finite", cls="ray=" + tag, detail=dict(x=x_, W=wname, y=y_, t=t), sub="correct", case=case)
                        continue
                    judge_correction(res, "mrp.correct_mag", x_, W_, x1, W1, code, dict(W=wname, y=y_, tag="ray=%s t=%r" % (tag, t)), case, "correct")
                    if code == 0 and not all(np.all(np.isfinite(arr(v))) for v in o):
                        res.fail(site="mrp.correct_mag", clause="accepted_correction_finite", cls="secondary_outputs;ray=" + tag, detail=dict(x=x_, W=wname, y=y_, t=t), sub="correct", case=case)
    res.add_set("correct_accel_cells", len(sa))
    res.add_set("correct_mag_cells", len(sm))
    res.samples.append(dict(fn="corrections", states=len(rs)))
    return res


def menu(x, W):
    """menu items evaluated relative to the current estimate (so that innovations are zero / small / gross)"""
    R = ref.R_from_mrp(x[:3])
    axs = alpha.axes(0)
    items = []
    for om in (np.zeros(3), np.array([0.3, -0.2, 0.5]), np.array([0, 0, 30.0])):
        for dt in (0.005, 0.02):
            items.append(("predict", om, dt))
    items.append(("accel", sens_accel(R), None))
    items.append(("accel", sens_accel(R @ ref.rot(axs[3] * 0.1)), None))
    items.append(("accel", sens_accel(R, 5.0), None))
    items.append(("mag", sens_mag(R, 0.0, 0.3, 0.1), None))
    items.append(("mag", sens_mag(R @ ref.rot(np.array([0, 0, 0.1])).T, 0.0, 0.3, 0.1), None))
    items.append(("mag", R.T @ np.array([0, 0, 0.1]), None))
    return items


def explore_history(case):
    tier, seed, i0, first = case["tier"], case["seed"], case["init"], case["first"]
    depth = 5 if tier == "thorough" else 4
    res = core.Result()
    inits = [(np.zeros(6), W0), (np.concatenate([ref.mrp_of(np.array([0.4, -0.7, 1.1])), [0.02, 0, -0.03]]), W_SMALL),
             (np.concatenate([ref.mrp_of(alpha.generic_axis(seed) * 3.1), [0, 0.05, 0]]), W_DENSE)]
    x0, Wi = inits[i0]
    seen = {key_of(np.concatenate([x0, Wi.reshape(-1)]))}
    fr = deque([(x0, Wi, 0, ())])
    res.count("states")
    while fr:
        x, W, d, word = fr.popleft()
        res.counters["max_depth"] = max(res.counters["max_depth"], d)
        if d >= depth:
            continue
        items = menu(x, W)
        idxs = [first] if d == 0 else range(len(items))
        for k in idxs:
            kind, a, b = items[k]
            res.count("transitions")
            res.count("evaluations")
            res.nontrivial.add(hash((x.tobytes(), W.tobytes(), k)))
            w1 = word + (k,)
            info = dict(init=i0, word=list(w1))
            if kind == "predict":
                x1, W1 = eqs()["predict"](0.0, x, Wdm(W), a, 1e-3, 1e-5, b)
                x1, W1 = arr(x1).reshape(-1), arr(ca.DM(W1))
                good = np.all(np.isfinite(x1)) and np.all(np.isfinite(W1))
                if not good or np.linalg.norm(x1[:3]) > 1 + 1e-12 or maxabs(np.triu(W1, 1)) > 0:
                    res.fail(site="mrp.predict", clause="state_valid_along_history", cls="depth%d" % (d + 1), detail=dict(info, x=x, x1=x1), sub="history", case=case)
                    continue
                th = float(np.linalg.norm(a - x[3:])) * b
                err = ref.rot_dist(ref.R_from_mrp(x1[:3]), ref.R_from_mrp(x[:3]) @ ref.rot((a - x[3:]) * b))
                res.count("traces_validated_against_impl")
                if err > 0.01 * th ** 5 + 1e-12:
                    res.fail(site="mrp.predict", clause="fifth_order_local_error", cls="history", detail=dict(info, x=x, err=err), sub="history", case=case)
            else:
                x1, W1, code, o = (do_accel if kind == "accel" else do_mag)(x, W, a)
                if not math.isfinite(code):
                    res.fail(site="mrp.correct_" + kind, clause="error_code_finite", cls="history", detail=dict(info, x=x), sub="history", case=case)
                    continue
                judge_correction(res, "mrp.correct_" + kind, x, W, x1, W1, code, info, case, "history")
                res.count("traces_validated_against_impl")
                if not (np.all(np.isfinite(x1)) and np.all(np.isfinite(W1))):
                    continue
                if np.linalg.norm(x1[:3]) > 1 + 1e-9 * 0 + 1e-12 and code == 0:
                    # an accepted correction composes exp(K r) * x: the product may leave the ball; the property only
                    # demands |r| <= 1 from prediction, so this is recorded, not judged
                    res.count("correction_left_unit_ball")
            k2 = key_of(np.concatenate([x1, W1.reshape(-1)]))
            if k2 not in seen:
                seen.add(k2)
                res.count("states")
                res.outcomes.add(hash(k2))
                fr.append((x1, np.tril(W1), d + 1, w1))
    if first == 0:
        res.samples.append(dict(history_init=i0, depth=depth, menu=12))
    return res


class _S:
    def __init__(self, fn, nparts):
        self.fn, self.nparts, self.chunks = fn, nparts, 1

    def cases(self, tier, seed):
        return [dict(tier=tier, seed=seed, part=p, nparts=self.nparts) for p in range(self.nparts)]

    def run(self, case):
        return self.fn(case)


class _H:
    chunks = 1

    def cases(self, tier, seed):
        return [dict(tier=tier, seed=seed, init=i, first=k) for i in range(3) for k in range(12)]

    def run(self, case):
        return explore_history(case)


SUBCHECKS = {"init": _S(explore_init, 8), "predict": _S(explore_predict, 8), "correct": _S(explore_correct, 8), "history": _H()}
REPLAY = {"init": lambda c: explore_init(c).fails, "predict": lambda c: explore_predict(c).fails,
          "correct": lambda c: explore_correct(c).fails, "history": lambda c: explore_history(c).fails}


# ---------------- the documented build option of the equation set ---------------------------------------------------------------------
def explore_options(case):
    """`algorithms.eqs(results_dir=...)` (the form the repository's own derive test uses; it additionally writes the graph of F) must
    return the same step functions as `algorithms.eqs()`: every function evaluated on the probe inputs and on lattice states"""
    import shutil
    import tempfile
    from .. import order
    res = core.Result()
    tmp = tempfile.mkdtemp(prefix="c11o_")
    try:
        with contextlib.redirect_stdout(io.StringIO()):
            from cyecca.estimate.attitude import algorithms
            try:
                alt = algorithms.eqs(results_dir=tmp)["mrp"]
            except Exception as ex:
                res.count("evaluations")
                res.fail(site="mrp.eqs", clause="operation_raises", cls="results_dir", detail=dict(error="%s: %s" % (type(ex).__name__, str(ex)[:200])), sub="options", case=case)
                return res
        base = eqs()
        for name in sorted(base):
            f0, f1 = base[name], alt.get(name)
            if not isinstance(f0, ca.Function):
                continue
            arglists = [order._fn_inputs(f0, 0), order._fn_inputs(f0, 1)]
            if name in ("predict", "correct_accel", "correct_mag"):
                x = np.concatenate([ref.mrp_of(np.array([0.4, -0.7, 1.1])), [0.02, 0, -0.03]])
                for W in (W_SMALL, W_DENSE):
                    if name == "predict":
                        arglists.append([0.0, x, Wdm(W), np.array([0.3, -0.2, 0.5]), 1e-3, 1e-5, 0.01])
                    elif name == "correct_accel":
                        arglists.append([x, Wdm(W), sens_accel(ref.R_from_mrp(x[:3]) @ ref.rot(np.array([0.1, 0, 0]))), G0, np.zeros(3), STD_ACC, STD_ACC_OM, BETA_ACC])
                    else:
                        arglists.append([x, Wdm(W), sens_mag(ref.R_from_mrp(x[:3]), 0.0, 0.3, 0.1), 0.0, STD_MAG, BETA_MAG])
            for k, args in enumerate(arglists):
                res.count("evaluations")
                res.nontrivial.add(hash((name, k)))
                if f1 is None:
                    res.fail(site="mrp." + name, clause="option_variant_offers_same_functions", cls="results_dir", detail=dict(missing=name), sub="options", case=case)
                    break
                a = [np.array(ca.DM(ca.densify(o)), dtype=float) for o in f0.call([ca.DM(v) if not isinstance(v, ca.DM) else v for v in args])]
                b = [np.array(ca.DM(ca.densify(o)), dtype=float) for o in f1.call([ca.DM(v) if not isinstance(v, ca.DM) else v for v in args])]
                res.outcomes.add(hash(tuple(np.round(np.nan_to_num(x_), 9).tobytes() for x_ in a)))
                same = len(a) == len(b) and all(x_.shape == y_.shape and np.array_equal(np.isnan(x_), np.isnan(y_)) and np.allclose(np.nan_to_num(x_), np.nan_to_num(y_), rtol=1e-12, atol=1e-14)
                                               for x_, y_ in zip(a, b))
                if not same:
                    res.fail(site="mrp." + name, clause="option_variant_returns_same_function", cls="results_dir", detail=dict(function=name, input_index=k, default=a[:2], with_option=b[:2]), sub="options", case=case)
                    break
    finally:
        shutil.rmtree(tmp, ignore_errors=True)
    res.count("states", 1)
    res.count("transitions", 1)
    res.samples.append(dict(option="results_dir"))
    return res


class _Opt:
    chunks = 1

    def cases(self, tier, seed):
        return [dict(sub="options", tier=tier, seed=seed)]

    def run(self, case):
        return explore_options(case)


SUBCHECKS["options"] = _Opt()
REPLAY["options"] = lambda c: explore_options(c).fails
