"""C15 - controller laws respect their saturations and vanish exactly at zero error.

explorer : history (BFS over fed-back controller memories, to fix-point where the reachable set is finite) + product + words.
           rate PID memory (i0,e0,de0); height integrator z_i; velocity-mode set-points (psi_sp, pw_sp); stick maps; attitude laws on
           pairs of attitudes produced by API words (both quaternion signs, q_r = +-q).
oracle   : invariants of the recursion in every reached state (|i1| <= i_max, i1 = clamp(i0 + e dt), 0 < alpha < 1, |z_i| <= limit, PD term
           <= 0.3 m g, psi_sp in [-pi,pi], |pw_sp - pw| <= 2, reset => pw_sp = pw, unit q_sp with yaw psi_sp); affine stick maps with
           bounded outputs; attitude laws = gains x reference logm of the attitude error, zero iff same rotation, R(q) expm([e]) = R(q_r).
"""
from __future__ import annotations

import contextlib
import io
import itertools
import math
from collections import deque

import casadi as ca
import numpy as np

from .. import alpha, core, lib, ref
from ..gutil import key_of, maxabs

LEVEL = "model_checking"
RULE = ("rate PID: menu e in {-10,0,10} per axis (7 vectors) x dt {1e-3,1e-2,0.1} for every (i_max, f_cut) in {0,0.25,2.5} x {1,10,1e3}, BFS on the integrator state to fix-point; "
        "height integrator: e_z menu x dt; velocity mode: 12 stick vectors x dt {0.01,0.5,5,10} x 2 vehicle positions x reset {0,1}, all words to the depth; stick maps on {-1,-1/2,0,1/2,1}^4 + {1/3,-1/7,0.3337,-0.2504,0.99951,1e-4,-4.9e-4}^4 + members harvested along each stick axis; previous set-point NaN / inf with reset; gains incl. two equal entries; "
        "attitude laws on 40x40 attitude pairs (both signs, products, q_r = +-q). non-trivial = non-zero error / stick; distinct by raw bytes")
ASSUMPTIONS = ["module constants (gains, limits) are read from the modules themselves", "reference logm in numpy; relative rotations within 0.01 rad of pi excluded"]

_M = {}


def mods():
    if not _M:
        with contextlib.redirect_stdout(io.StringIO()):
            from cyecca.models import rdd2, rdd2_loglinear
        _M.update(rdd2=rdd2, ll=rdd2_loglinear)
        _M["rate"] = rdd2.derive_attitude_rate_control()["attitude_rate_control"]
        _M["pc"] = rdd2.derive_position_control()["position_control"]
        _M["vel"] = rdd2.derive_input_velocity()["input_velocity"]
        _M["acro"] = rdd2.derive_input_acro()["input_acro"]
        _M["level"] = rdd2.derive_input_auto_level()["input_auto_level"]
        _M["att"] = rdd2.derive_attitude_control()["attitude_control"]
        _M["so3att"] = rdd2_loglinear.derive_so3_attitude_control()["so3_attitude_control"]
        _M["se23err"] = rdd2_loglinear.derive_se23_error()["se23_error"]
        _M["se23att"] = rdd2_loglinear.derive_outerloop_control()["se23_attitude_control"]
    return _M


def bounds(tier):
    return dict(velocity_depth=3 if tier == "thorough" else 2)


def arr(x):
    return np.array(x, dtype=float).reshape(-1)


def explore_rate(case):
    i_max_v, f_cut, tier = case["i_max"], case["f_cut"], case["tier"]
    res = core.Result()
    f = mods()["rate"]
    kp, ki, kd = np.array([0.3, 0.3, 0.1]), np.array([0.05, 0.05, 0.02]), np.array([0.01, 0.01, 0.0])
    i_max = np.array([i_max_v, i_max_v, i_max_v * 2])
    es = [np.zeros(3), np.array([10.0, -10.0, 0]), np.array([-10.0, 10.0, 10.0]), np.array([0, 0, -10.0]), np.array([10.0, 10.0, 10.0]),
          np.array([1e-3, -1e9, 1e9]), np.array([-0.37, 0.11, 2.5])]
    dts = [1e-3, 1e-2, 0.1]
    start = (np.zeros(3), np.zeros(3), np.zeros(3))
    seen = {key_of(start[0])}
    fr = deque([(start, 0, ())])
    res.count("states")
    cap = 1500 if tier != "thorough" else 40000
    while fr:
        (i0, e0, de0), d, word = fr.popleft()
        res.counters["max_depth"] = max(res.counters["max_depth"], d)
        for ei, e in enumerate(es):
            for dt in dts:
                res.count("transitions")
                res.count("evaluations")
                res.count("traces_validated_against_impl")
                omega = np.array([0.2, -0.1, 0.05])
                out = f(kp, ki, kd, f_cut, i_max, omega, omega + e, i0, e0, de0, dt)
                M, i1, e1, de1, al = arr(out[0]), arr(out[1]), arr(out[2]), arr(out[3]), float(out[4])
                if maxabs(e) > 0:
                    res.nontrivial.add(hash((i0.tobytes(), ei, dt, i_max_v, f_cut)))
                w1 = word + ((ei, dt),)
                info = dict(i_max=i_max, f_cut=f_cut, i0=i0, e=e, dt=dt, word=[list(x) for x in w1][-6:])
                e_eff = (omega + e) - omega
                want = np.minimum(np.maximum(i0 + e_eff * dt, -i_max), i_max)
                if not np.all(np.isfinite(i1)) or np.any(np.abs(i1) > i_max):
                    res.fail(site="attitude_rate_control", clause="integrator_within_i_max", cls="i_max=%g" % i_max_v, detail=dict(info, i1=i1), sub="rate", case=case)
                    continue
                if maxabs(i1 - want) > 1e-12 * (1 + maxabs(want)):
                    res.fail(site="attitude_rate_control", clause="integrator_is_clamped_sum", cls="i_max=%g" % i_max_v, detail=dict(info, i1=i1, want=want), sub="rate", case=case)
                    continue
                if not (0.0 < al < 1.0):
                    res.fail(site="attitude_rate_control", clause="filter_coefficient_strictly_between_0_and_1", cls="f_cut=%g" % f_cut, detail=dict(info, alpha=al), sub="rate", case=case)
                if maxabs(e1 - e_eff) > 1e-12 * (1 + maxabs(e_eff)):
                    res.fail(site="attitude_rate_control", clause="error_is_reference_minus_measured", cls="-", detail=dict(info, e1=e1), sub="rate", case=case)
                k = key_of(i1)
                if k not in seen and len(seen) < cap and np.all(np.isfinite(de1)):
                    seen.add(k)
                    res.count("states")
                    res.outcomes.add(hash(k))
                    fr.append(((i1, e1, de1), d + 1, w1))
    if len(seen) >= cap:
        res.count("capped_rate_states")
    res.samples.append(dict(rate_i_max=i_max_v, f_cut=f_cut, integrator_states=len(seen), fixpoint=len(seen) < cap))
    return res


def explore_zint(case):
    res = core.Result()
    M = mods()
    f, r = M["pc"], M["rdd2"]
    lim = float(r.z_integral_max)
    pmax = 0.3 * r.m * r.g
    q0 = np.array([1.0, 0, 0, 0])
    # height integrator recursion
    ezs = [0.0, 1.0, -1.0, 40.0, -1e6]
    dts = [0.01, 0.5]
    seen = {0.0}
    fr = deque([(0.0, 0)])
    res.count("states")
    while fr:
        z, d = fr.popleft()
        res.counters["max_depth"] = max(res.counters["max_depth"], d)
        if d >= 4:
            continue
        for ez in ezs:
            for dt in dts:
                res.count("transitions")
                res.count("evaluations")
                res.count("traces_validated_against_impl")
                out = f(0.0, np.zeros(3), np.zeros(3), np.zeros(3), q0, np.array([0, 0, ez]), np.zeros(3), z, dt)
                z2 = float(out[2])
                want = min(max(z - ez * dt, -lim), lim)
                if ez != 0:
                    res.nontrivial.add(hash((z, ez, dt)))
                if not math.isfinite(z2) or abs(z2) > lim or abs(z2 - want) > 1e-12 * (1 + abs(want)):
                    res.fail(site="position_control", clause="height_integrator_within_limit", cls="-", detail=dict(z_i=z, e_z=ez, dt=dt, z_i_2=z2, limit=lim), sub="zint", case=case)
                    continue
                if z2 not in seen:
                    seen.add(z2)
                    res.count("states")
                    fr.append((z2, d + 1))
    # PD term bound: with trim = 0 and z_i = 0 the returned thrust is the norm of the feedback term
    for e_p in (np.zeros(3), np.array([0.1, 0, 0]), np.array([1.0, -2.0, 3.0]), np.array([-40.0, 25.0, 7.0]), np.array([1e6, 0, -1e6]), np.array([0, 0, 0.3 * r.m * r.g / r.kp_pos * (1 + 1e-9)]),
                np.array([0, 0, 0.3 * r.m * r.g / r.kp_pos * (1 - 1e-9)])):
        for e_v in (np.zeros(3), np.array([0.5, -0.2, 0.1]), np.array([-30.0, 0, 10.0])):
            for at in (np.zeros(3), np.array([0, 0, -3.0]), np.array([100.0, 0, 0])):
                res.count("evaluations")
                out = f(0.0, np.zeros(3), np.zeros(3), at, q0, e_p, e_v, 0.0, 0.01)
                nT = float(out[0])
                raw = float(np.linalg.norm(-r.kp_pos * e_p - r.kp_vel * e_v + r.m * at))
                res.nontrivial.add(hash((e_p.tobytes(), e_v.tobytes(), at.tobytes())))
                res.outcomes.add(hash(round(min(raw, pmax), 9)))
                if not math.isfinite(nT) or nT > pmax * (1 + 1e-12) or abs(nT - min(raw, pmax)) > 1e-9 * (1 + pmax):
                    res.fail(site="position_control", clause="feedback_term_at_most_30_percent_of_weight", cls="-",
                             detail=dict(e_p=e_p, e_v=e_v, at_w=at, nT=nT, limit=pmax, unsaturated=raw), sub="zint", case=case)
    res.samples.append(dict(z_states=len(seen), limit=lim))
    return res


STICKS = [(0.0, 0.0, 0.0), (1.0, 0.0, 0.0), (0.0, -1.0, 1.0), (-1.0, 1.0, -1.0), (1.0 / 3, -1.0 / 7, 1.0 / 9)]
# stick deflections that are on no decimal grid (a stick is a continuous quantity), next to the ends and next to centre
FINE_STICKS = [1.0 / 3, -1.0 / 7, 0.3337, -0.2504, 0.99951, 1e-4, -0.00049]


def explore_velocity(case):
    tier, first = case["tier"], case["first"]
    res = core.Result()
    f = mods()["vel"]
    depth = 3 if tier == "thorough" else 2
    pws = [np.zeros(3), np.array([-40.0, 25.0, 7.0])]
    if tier == "thorough":
        items = list(itertools.product(range(4), (-1.0, 1.0), (0.01, 5.0), range(2), (0.0, 1.0)))
        items0 = list(itertools.product(range(4), (-1.0, 0.0, 1.0), (0.01, 0.5, 5.0, 10.0), range(2), (0.0, 1.0, 2.0, -1.0)))
    else:
        # the reset flag is a number: any non-zero value asks for a reset (2.0 and -1.0 besides 1.0 at the first step of every word)
        items = list(itertools.product(range(4), (-1.0, 0.0, 1.0), (0.01, 0.5, 5.0, 10.0), range(2), (0.0, 1.0)))
        items0 = list(itertools.product(range(4), (-1.0, 0.0, 1.0), (0.01, 0.5, 5.0, 10.0), range(2), (0.0, 1.0, 2.0, -1.0)))
    # the off-grid stick member with an off-grid yaw stick, at every step
    items += list(itertools.product((4,), (0.3337, -2.0 / 3), (0.01, 0.5), range(2), (0.0, 1.0)))
    items0 += list(itertools.product((4,), (0.3337, -2.0 / 3), (0.01, 0.5), range(2), (0.0, 1.0)))
    if first == 0:
        # a previous set-point that was never set (NaN) or has run away (inf): a reset puts the set-point on the vehicle all the same,
        # and nothing else in the outputs depends on the previous set-point
        for bad in (np.array([np.nan] * 3), np.array([np.inf, 0.0, 0.0]), np.array([0.0, -np.inf, np.nan]), np.array([1e300, -1e300, 1e300])):
            for reset in (1.0, 2.0, -1.0):
                for si in (0, 2, 4):
                    for pw in pws:
                        res.count("evaluations")
                        res.nontrivial.add(hash(("bad_prev", bad.tobytes(), reset, si, pw.tobytes())))
                        sticks = np.array(list(STICKS[si]) + [0.5])
                        out = f(0.01, 0.3, bad, pw, sticks, reset)
                        pw1 = arr(out[2])
                        if not np.array_equal(pw1, pw) or not all(np.all(np.isfinite(arr(o))) for o in out):
                            res.fail(site="input_velocity", clause="reset_puts_setpoint_on_vehicle", cls="previous_setpoint_not_finite",
                                     detail=dict(pw_sp=bad, pw=pw, reset=reset, sticks=sticks, pw_sp1=pw1, outputs_finite=[bool(np.all(np.isfinite(arr(o)))) for o in out]), sub="velocity", case=case)
    start = (0.3, np.array([0.5, 0.0, 1.0]))
    seen = {key_of(np.concatenate([[start[0]], start[1]]))}
    fr = deque([(start, 0, ())])
    res.count("states")
    while fr:
        (psi, pwsp), d, word = fr.popleft()
        res.counters["max_depth"] = max(res.counters["max_depth"], d)
        if d >= depth:
            continue
        its = [items0[first]] if d == 0 else items
        for it in its:
            si, yaw, dt, pi_, reset = it
            a, e, t = STICKS[si]
            sticks = np.array([a, e, t, yaw])
            pw = pws[pi_]
            res.count("transitions")
            res.count("evaluations")
            res.count("traces_validated_against_impl")
            out = f(dt, psi, pwsp, pw, sticks, reset)
            psi1, psiv, pw1, vw, aw, q = float(out[0]), float(out[1]), arr(out[2]), arr(out[3]), arr(out[4]), arr(out[5])
            w1 = word + (it,)
            info = dict(psi_sp=psi, pw_sp=pwsp, pw=pw, sticks=sticks, dt=dt, reset=reset, word=[list(x) for x in w1])
            if maxabs(sticks) > 0:
                res.nontrivial.add(hash((psi, pwsp.tobytes(), it)))
            if not (math.isfinite(psi1) and np.all(np.isfinite(pw1)) and np.all(np.isfinite(q))):
                res.fail(site="input_velocity", clause="finite", cls="-", detail=info, sub="velocity", case=case)
                continue
            if not (-math.pi - 1e-12 <= psi1 <= math.pi + 1e-12):
                res.fail(site="input_velocity", clause="yaw_setpoint_in_minus_pi_pi", cls="-", detail=dict(info, psi_sp1=psi1), sub="velocity", case=case)
            # same yaw modulo 2 pi as the un-wrapped sum
            raw = psi + 60 * math.pi / 180 * yaw * dt
            if abs(math.remainder(psi1 - raw, 2 * math.pi)) > 1e-9:
                res.fail(site="input_velocity", clause="yaw_setpoint_is_wrapped_integral_of_stick", cls="-", detail=dict(info, psi_sp1=psi1, unwrapped=raw), sub="velocity", case=case)
            # the secondary outputs: yaw-rate feed-forward is the (bounded, linear) stick map, acceleration feed-forward is zero
            if abs(psiv - 60 * math.pi / 180 * yaw) > 1e-12:
                res.fail(site="input_velocity", clause="yaw_rate_command_is_linear_bounded_stick_map", cls="-", detail=dict(info, psi_vel_sp=psiv, want=60 * math.pi / 180 * yaw), sub="velocity", case=case)
            if not np.all(np.isfinite(aw)) or maxabs(aw) != 0:
                res.fail(site="input_velocity", clause="acceleration_feed_forward_is_zero", cls="-", detail=dict(info, aw_sp=aw), sub="velocity", case=case)
            dist = float(np.linalg.norm(pw1 - pw))
            if dist > 2.0 + 1e-9 * (1 + maxabs(pw)):
                res.fail(site="input_velocity", clause="position_setpoint_within_2m_of_vehicle", cls="reset=%d" % int(reset), detail=dict(info, pw_sp1=pw1, distance=dist), sub="velocity", case=case)
            if reset != 0 and maxabs(pw1 - pw) != 0:
                res.fail(site="input_velocity", clause="reset_puts_setpoint_on_vehicle", cls="reset=1", detail=dict(info, pw_sp1=pw1), sub="velocity", case=case)
            if abs(np.linalg.norm(q) - 1) > 1e-9 or ref.rot_dist(ref.R_from_quat(q), ref.Rz(psi1)) > 1e-9:
                res.fail(site="input_velocity", clause="unit_quaternion_with_yaw_setpoint", cls="-", detail=dict(info, q_sp=q, psi_sp1=psi1), sub="velocity", case=case)
            # commanded world velocity: body stick velocity rotated by the yaw set-point, |.| bounded
            vb = np.array([2 * e, -2 * a, t])
            want_v = ref.Rz(psi1) @ vb
            if maxabs(vw - want_v) > 1e-9:
                res.fail(site="input_velocity", clause="velocity_command_is_rotated_stick_velocity", cls="-", detail=dict(info, vw_sp=vw, want=want_v), sub="velocity", case=case)
            k = key_of(np.concatenate([[psi1], pw1]))
            if k not in seen:
                seen.add(k)
                res.count("states")
                res.outcomes.add(hash(k))
                fr.append(((psi1, pw1), d + 1, w1))
    return res


def explore_sticks(case):
    res = core.Result()
    M = mods()
    r = M["rdd2"]
    d2r = math.pi / 180
    vals = [-1.0, -0.5, 0.0, 0.5, 1.0]
    trim, delta = 21.952, 7.5
    table = {}
    for s in itertools.product(vals, repeat=4):
        res.count("evaluations")
        if any(s):
            res.nontrivial.add(hash(s))
        out = M["acro"](trim, delta, np.array(s))
        w, th = arr(out[0]), float(out[1])
        table[s] = np.concatenate([w, [th]])
        want = np.array([r.rollpitch_rate_max * d2r * s[0], r.rollpitch_rate_max * d2r * s[1], r.yaw_rate_max * d2r * s[3], trim + s[2] * delta])
        res.outcomes.add(hash(np.round(want, 9).tobytes()))
        lim = np.array([r.rollpitch_rate_max * d2r, r.rollpitch_rate_max * d2r, r.yaw_rate_max * d2r])
        if maxabs(table[s] - want) > 1e-12 * (1 + maxabs(want)) or np.any(np.abs(w) > lim * (1 + 1e-12)):
            res.fail(site="input_acro", clause="linear_bounded_stick_map", cls="-", detail=dict(sticks=s, omega=w, thrust=th, want=want), sub="sticks", case=case)
    # affinity: second differences along every axis vanish
    for s in itertools.product(vals[1:-1], repeat=4):
        for ax in range(4):
            lo, hi = list(s), list(s)
            lo[ax] -= 0.5
            hi[ax] += 0.5
            dd = table[tuple(hi)] - 2 * table[s] + table[tuple(lo)]
            res.count("evaluations")
            if maxabs(dd) > 1e-12:
                res.fail(site="input_acro", clause="affine_in_sticks", cls="-", detail=dict(sticks=s, axis=ax, second_difference=dd), sub="sticks", case=case)
    # off-grid deflections (complete product) and deflections next to every outcome change of the compiled maps along each stick axis
    from .. import harvest, sxvm
    lim3 = np.array([r.rollpitch_rate_max * d2r, r.rollpitch_rate_max * d2r, r.yaw_rate_max * d2r])
    extra = [tuple(x) for x in itertools.product(FINE_STICKS, repeat=4)]
    prog_acro = sxvm.compile_fn(M["acro"])
    prog_level = sxvm.compile_fn(M["level"])
    q0 = ref.quat_of(np.array([0.1, -0.2, 0.7]))
    grid = [k / 10.0 for k in range(-10, 11)]
    harvested = []
    for base in ((0.3, -0.2, 0.1, 0.6), (0.0, 0.0, 0.0, 0.0)):
        for ax in range(4):
            def stick_at(t, base=base, ax=ax):
                b = list(base)
                b[ax] = t
                return b
            for prog, mk in ((prog_acro, lambda t: [[trim], [delta], stick_at(t)]), (prog_level, lambda t: [[trim], [delta], stick_at(t), list(q0)])):
                try:
                    for t in harvest.ray_members(prog, mk, grid, per_cell=12, cap=60):
                        harvested.append(tuple(stick_at(t)))
                except sxvm.NotRational:
                    pass
    res.count("harvested_members", len(harvested))
    for s in extra + harvested:
        res.count("evaluations")
        res.nontrivial.add(hash(("fine", s)))
        out = M["acro"](trim, delta, np.array(s))
        w, th = arr(out[0]), float(out[1])
        want = np.array([r.rollpitch_rate_max * d2r * s[0], r.rollpitch_rate_max * d2r * s[1], r.yaw_rate_max * d2r * s[3], trim + s[2] * delta])
        if maxabs(np.concatenate([w, [th]]) - want) > 1e-12 * (1 + maxabs(want)) or np.any(np.abs(w) > lim3 * (1 + 1e-12)):
            res.fail(site="input_acro", clause="linear_bounded_stick_map", cls="off_grid", detail=dict(sticks=s, omega=w, thrust=th, want=want), sub="sticks", case=case)
        out = M["level"](trim, delta, np.array(s), q0)
        qr, th = arr(out[0]), float(out[1])
        e = ref.euler321_of_R(ref.R_from_quat(qr)) if np.all(np.isfinite(qr)) else np.array([np.nan] * 3)
        lim = r.rollpitch_max * d2r
        if not np.all(np.isfinite(qr)) or abs(th - (trim + s[2] * delta)) > 1e-12 * (1 + abs(trim)) or abs(e[1] - lim * s[1]) > 1e-9 or abs(e[2] - lim * s[0]) > 1e-9:
            res.fail(site="input_auto_level", clause="linear_bounded_stick_map", cls="off_grid", detail=dict(sticks=s, q_r=qr, thrust=th, euler=e), sub="sticks", case=case)
    # auto level: thrust affine, commanded angles bounded by the configured maximum
    for s in itertools.product(vals, repeat=4):
        res.count("evaluations")
        out = M["level"](trim, delta, np.array(s), q0)
        qr, th = arr(out[0]), float(out[1])
        e = ref.euler321_of_R(ref.R_from_quat(qr)) if np.all(np.isfinite(qr)) else np.array([np.nan] * 3)
        lim = r.rollpitch_max * d2r
        if not np.all(np.isfinite(qr)) or abs(th - (trim + s[2] * delta)) > 1e-12 * (1 + abs(trim)) or abs(e[1]) > lim * (1 + 1e-9) or abs(e[2]) > lim * (1 + 1e-9) \
                or abs(e[1] - lim * s[1]) > 1e-9 or abs(e[2] - lim * s[0]) > 1e-9:
            res.fail(site="input_auto_level", clause="linear_bounded_stick_map", cls="-", detail=dict(sticks=s, q_r=qr, thrust=th, euler=e), sub="sticks", case=case)
    res.samples.append(dict(stick_lattice=len(vals) ** 4))
    return res


_H = 0.5
# literal half-turn attitude errors: the scalar part of q^-1 * q_r is exactly 0.0
HALF_TURN_PAIRS = [(np.array(a, dtype=float), np.array(b, dtype=float)) for a, b in (
    ((1, 0, 0, 0), (0, 1, 0, 0)), ((1, 0, 0, 0), (0, 0, -1, 0)), ((1, 0, 0, 0), (0, 0, 0, 1)), ((-1, 0, 0, 0), (0, 0.6, 0, 0.8)),
    ((_H, _H, _H, _H), (_H, -_H, -_H, _H)), ((0, 1, 0, 0), (1, 0, 0, 0)), ((0, 0, 1, 0), (0, 0, 0, -1)), ((_H, _H, _H, _H), (-_H, _H, -_H, _H)))]


def attitude_set(seed, tier):
    """attitudes the way users get them: designed representatives (both signs) and products of two"""
    B = lib.built("SO3Quat")
    base = []
    for v in alpha.rotvecs(seed, small=True):
        for tag, p, R in alpha.rot_reps("Quat", v):
            base.append(p)
    base = alpha.reduced(base, 24 if tier != "thorough" else 40)
    prods = []
    for i in range(0, len(base), 3):
        for j in range(1, len(base), 5):
            prods.append(B.vec("product", base[i], base[j]))
    return base + alpha.reduced(prods, 16 if tier != "thorough" else 40)


def explore_attitude(case):
    tier, seed, part, nparts = case["tier"], case["seed"], case["part"], case["nparts"]
    res = core.Result()
    M = mods()
    B9 = lib.built("SE23Quat")
    B3 = lib.built("SO3Quat")
    qs = attitude_set(seed, tier)
    # gain patterns: isotropic, all different, and two equal (roll = pitch is how the vehicle is tuned; also pitch = yaw, roll = yaw)
    gains = [np.array([2.0, 2.0, 2.0]), np.array([2.0, 3.0, 0.5]), np.array([2.0, 2.0, 1.0]), np.array([0.5, 3.0, 3.0]), np.array([6.5, 1.0, 6.5])]
    pairs = [(a, b) for a in qs for b in qs] + [(a, a) for a in qs] + [(a, -a) for a in qs]
    pairs = pairs[part::nparts] + HALF_TURN_PAIRS
    for q, qr in pairs:
        R, Rr = ref.R_from_quat(q), ref.R_from_quat(qr)
        Re = R.T @ Rr
        th = ref.rot_angle(Re)
        if th > math.pi - 0.01:
            # at (and next to) a half-turn error the rotation vector is not unique (+-pi about the axis): only the clauses that
            # do not depend on the choice are judged - finite, angle at most pi, and the commanded rotation reaches the reference
            for kp in gains:
                res.count("evaluations")
                res.count("half_turn_errors")
                res.nontrivial.add(hash((q.tobytes(), qr.tobytes(), kp.tobytes())))
                w = arr(M["att"](kp, q, qr))
                cls = "half_turn_error" + (";exact" if abs(float(np.dot(q, qr))) == 0.0 else "")
                if not np.all(np.isfinite(w)) or np.linalg.norm(w / kp) > math.pi * (1 + 1e-9) or ref.rot_dist(R @ ref.rot(w / kp), Rr) > 1e-7:
                    res.fail(site="attitude_control", clause="commanded_rotation_reaches_reference", cls=cls, detail=dict(q=q, q_r=qr, kp=kp, omega=w), sub="attitude", case=case)
                zeta = arr(M["se23err"](np.zeros(3), np.zeros(3), q, np.zeros(3), np.zeros(3), qr))
                if not np.all(np.isfinite(zeta)) or np.linalg.norm(zeta[6:]) > math.pi * (1 + 1e-9) or ref.rot_dist(R @ ref.rot(zeta[6:]), Rr) > 1e-7:
                    res.fail(site="se23_error", clause="X_exp_zeta_reaches_reference", cls=cls, detail=dict(q=q, q_r=qr, zeta=zeta), sub="attitude", case=case)
            continue
        e_ref = ref.logm_rot(Re)
        same = th < 1e-12
        cls = ("q-" if q[0] < 0 else "q+") + ("/qr-" if qr[0] < 0 else "/qr+") + (";same_rotation" if same else "")
        amp = 1.0 / max(math.pi - th, 1e-2) if th > 1 else 1.0
        for kp in gains:
            res.count("evaluations")
            if not same:
                res.nontrivial.add(hash((q.tobytes(), qr.tobytes(), kp.tobytes())))
            res.outcomes.add(hash(np.round(e_ref, 8).tobytes()))
            info = dict(q=q, q_r=qr, kp=kp)
            w = arr(M["att"](kp, q, qr))
            if not np.all(np.isfinite(w)) or maxabs(w - kp * e_ref) > 1e-9 * (1 + amp) * maxabs(kp):
                res.fail(site="attitude_control", clause="command_is_gain_times_rotation_vector_of_error", cls=cls, detail=dict(info, omega=w, want=kp * e_ref), sub="attitude", case=case)
            elif same and maxabs(w) > 1e-12:
                res.fail(site="attitude_control", clause="zero_when_same_rotation", cls=cls, detail=dict(info, omega=w), sub="attitude", case=case)
            elif not same and ref.rot_dist(R @ ref.rot(w / kp), Rr) > 1e-9 * (1 + amp):
                res.fail(site="attitude_control", clause="commanded_rotation_reaches_reference", cls=cls, detail=dict(info, omega=w), sub="attitude", case=case)
            w2 = arr(M["so3att"](kp, q, qr))
            want2 = B3.call("left_jacobian", e_ref) @ (kp * e_ref)
            if not np.all(np.isfinite(w2)) or maxabs(w2 - want2) > 1e-9 * (1 + amp) * maxabs(kp) * 4:
                res.fail(site="so3_attitude_control", clause="command_is_left_jacobian_times_gain_times_error", cls=cls, detail=dict(info, omega=w2, want=want2), sub="attitude", case=case)
            elif same and maxabs(w2) > 1e-12:
                res.fail(site="so3_attitude_control", clause="zero_when_same_rotation", cls=cls, detail=dict(info, omega=w2), sub="attitude", case=case)
        # SE_2(3) error and attitude law
        for p, v, pr, vr in ((np.zeros(3), np.zeros(3), np.zeros(3), np.zeros(3)), (np.array([1.0, -2.0, 3.0]), np.array([0.5, 0.2, -1.0]), np.array([0.3, 0.1, 2.0]), np.array([0.0, -0.4, 0.2]))):
            res.count("evaluations")
            zeta = arr(M["se23err"](p, v, q, pr, vr, qr))
            X = np.concatenate([p, v, q])
            Xr = np.concatenate([pr, vr, qr])
            MX, MXr = B9.call("to_Matrix", X), B9.call("to_Matrix", Xr)
            # normalise the rotation blocks (inputs are unit only up to rounding)
            got = MX @ ref.expm(B9.call("wedge", zeta)) if np.all(np.isfinite(zeta)) else None
            info = dict(X=X, X_r=Xr, zeta=zeta)
            if got is None or maxabs(got - MXr) > 1e-9 * (1 + amp) * (1 + maxabs(MXr)) * 10:
                res.fail(site="se23_error", clause="X_exp_zeta_reaches_reference", cls=cls, detail=dict(info, err=None if got is None else maxabs(got - MXr)), sub="attitude", case=case)
                continue
            kp = gains[1]
            w3 = arr(M["se23att"](kp, zeta))
            ll = M["ll"]
            K = np.diag([ll.kp_pos] * 3 + [ll.kp_vel] * 3 + list(kp))
            want3 = (B9.call("left_jacobian", zeta) @ K @ zeta)[6:]
            if not np.all(np.isfinite(w3)) or maxabs(w3 - want3) > 1e-9 * (1 + maxabs(want3)):
                res.fail(site="se23_attitude_control", clause="last_rows_of_left_jacobian_K_zeta", cls=cls, detail=dict(info, omega=w3, want=want3), sub="attitude", case=case)
    res.count("states", len(qs))
    res.count("transitions", len(pairs[part::nparts]))
    res.samples.append(dict(attitudes=len(qs), pairs=len(pairs[part::nparts])))
    return res


class _Rate:
    chunks = 1

    def cases(self, tier, seed):
        return [dict(sub="rate", tier=tier, i_max=i, f_cut=fc) for i in (0.0, 0.25, 2.5) for fc in (1.0, 10.0, 1e3)]

    def run(self, case):
        return explore_rate(case)


class _Z:
    chunks = 1

    def cases(self, tier, seed):
        return [dict(sub="zint", tier=tier)]

    def run(self, case):
        return explore_zint(case)


class _V:
    chunks = 2

    def cases(self, tier, seed):
        return [dict(sub="velocity", tier=tier, first=i) for i in range(4 * 3 * 4 * 2 * 4 + 16)]

    def run(self, case):
        return explore_velocity(case)


class _St:
    chunks = 1

    def cases(self, tier, seed):
        return [dict(sub="sticks", tier=tier)]

    def run(self, case):
        return explore_sticks(case)


class _A:
    chunks = 1

    def cases(self, tier, seed):
        return [dict(sub="attitude", tier=tier, seed=seed, part=p, nparts=12) for p in range(12)]

    def run(self, case):
        return explore_attitude(case)


def explore_tables(case):
    """the derived tables as objects: (1) every output that is fed back as the next step's state is stored densely (a structurally empty
    output is never written by the generated C, so the caller's state variable would keep stale data); (2) a table obtained from a
    derive_* call keeps its functions when the same derive_* function is called again with other module constants (each call returns its
    own table)"""
    from .. import order
    res = core.Result()
    M = mods()
    rdd2, ll = M["rdd2"], M["ll"]
    fed_back = {"attitude_rate_control": ["i1", "e1", "de1"], "position_control": ["z_i_2"], "input_velocity": ["psi_sp1", "pw_sp1"], "se23_position_control": ["z_i_2"],
                "strapdown_ins_propagate": ["x1"]}
    derives = [(rdd2, n) for n in sorted(dir(rdd2)) if n.startswith("derive_")] + [(ll, n) for n in sorted(dir(ll)) if n.startswith("derive_")]
    for mod, dn in derives:
        res.count("evaluations")
        res.nontrivial.add(hash((mod.__name__, dn)))
        res.nontrivial.add(hash((mod.__name__, dn, 1)))
        with contextlib.redirect_stdout(io.StringIO()):
            try:
                t1 = getattr(mod, dn)()
            except Exception:
                continue
            if not isinstance(t1, dict):
                continue
            before = {}
            for k, f in t1.items():
                if isinstance(f, ca.Function):
                    before[k] = [np.array(ca.densify(o), dtype=float) for o in f.call([ca.DM(a) for a in order._fn_inputs(f, 0)])]
                    for oname in fed_back.get(f.name(), []):
                        names = [f.name_out(i) for i in range(f.n_out())]
                        if oname in names:
                            i = names.index(oname)
                            if f.nnz_out(i) != f.size1_out(i) * f.size2_out(i):
                                res.fail(site=f.name(), clause="fed_back_state_output_is_stored_densely", cls=oname, detail=dict(output=oname, nnz=int(f.nnz_out(i)), numel=int(f.size1_out(i) * f.size2_out(i))),
                                         sub="tables", case=case)
            saved = {}
            try:
                for cn, cv in (("rollpitch_rate_max", 200), ("yaw_rate_max", 150), ("rollpitch_max", 55), ("m", 0.9), ("kp_pos", 3.0), ("z_integral_max", 4.0)):
                    if hasattr(mod, cn):
                        saved[cn] = getattr(mod, cn)
                        setattr(mod, cn, cv)
                t2 = getattr(mod, dn)()
            finally:
                for cn, cv in saved.items():
                    setattr(mod, cn, cv)
            res.count("evaluations")
            for k, f in t1.items():
                if isinstance(f, ca.Function) and k in before:
                    after = [np.array(ca.densify(o), dtype=float) for o in f.call([ca.DM(a) for a in order._fn_inputs(f, 0)])]
                    same = len(after) == len(before[k]) and all(a.shape == b.shape and np.array_equal(np.nan_to_num(a), np.nan_to_num(b)) for a, b in zip(after, before[k]))
                    if not same:
                        res.fail(site=mod.__name__.split(".")[-1] + "." + dn, clause="derived_table_keeps_its_functions_when_derived_again", cls=k,
                                 detail=dict(function=k, same_table_object=bool(t1 is t2)), sub="tables", case=case)
                        break
    _M.clear()
    res.count("states", len(derives))
    res.count("transitions", len(derives))
    res.outcomes.add(len(derives))
    res.samples.append(dict(derive_functions=len(derives)))
    return res


class _Tab:
    chunks = 1

    def cases(self, tier, seed):
        return [dict(sub="tables", tier=tier, seed=seed)]

    def run(self, case):
        return explore_tables(case)


# module constants a user may set before deriving (lighter vehicle, other planet, enabled height integrator, other limits)
OVERRIDES = [dict(rdd2=dict(m=0.8, g=3.7, z_integral_max=5.0, kp_pos=2.5), ll=dict(m=0.8, g=3.7, z_integral_max=5.0)),
             dict(rdd2=dict(m=12, g=9.8, z_integral_max=2, rollpitch_max=35, yaw_rate_max=120), ll=dict(m=12, z_integral_max=2))]  # integer-valued

_zint_ov = core.overridden(mods, _M, explore_zint)
_sticks_ov = core.overridden(mods, _M, explore_sticks)


class _Ov:
    chunks = 1

    def cases(self, tier, seed):
        return [dict(sub="overrides", which=w, tier=tier, seed=seed, override=o) for o in OVERRIDES for w in ("zint", "sticks")]

    def run(self, case):
        r = (_zint_ov if case["which"] == "zint" else _sticks_ov)(dict(case, sub="overrides"))
        for f in r.fails:
            f["sub"] = "overrides"
            f["case"] = case
        return r


SUBCHECKS = {"rate": _Rate(), "zint": _Z(), "velocity": _V(), "sticks": _St(), "attitude": _A(), "overrides": _Ov(), "tables": _Tab()}
REPLAY = {"rate": lambda c: explore_rate(c).fails, "zint": lambda c: explore_zint(c).fails, "velocity": lambda c: explore_velocity(c).fails,
          "sticks": lambda c: explore_sticks(c).fails, "attitude": lambda c: explore_attitude(c).fails, "overrides": lambda c: _Ov().run(c).fails, "tables": lambda c: explore_tables(c).fails}

# results must not depend on which library calls were made earlier in the process (see mc/order.py)
from .. import order as _order  # noqa: E402

_ORDER = _order.OrderSub("C15", "control", None)
SUBCHECKS["order"] = _ORDER
REPLAY["order"] = _ORDER.replay

# keyword / dict calls bind the documented names (see mc/kw.py)
from .. import kw as _kw  # noqa: E402

_KW = _kw.KwSub("control")
SUBCHECKS["keywords"] = _KW
REPLAY["keywords"] = _KW.replay
