"""C01 - group axioms under the matrix representation.

explorer: words (explicit-state BFS over operation words) + full products of element alphabets.
state     : a group element (raw parameter vector) reached by API calls; reference state carried
            alongside = product of the matrix forms of the generators along the word.
oracle    : alpha = library to_Matrix;  alpha(X*Y)=alpha(X)alpha(Y), alpha(X^-1)=alpha(X)^-1,
            alpha(e)=I, e neutral, associativity, from_Matrix right inverse of to_Matrix.
"""
from __future__ import annotations

import contextlib
import io
import itertools
from collections import deque

import casadi as ca

import numpy as np

from .. import alpha, core, gutil, lib, numapi
from ..gutil import TOL, close, key_of, maxabs, rep_tag

LEVEL = "model_checking"
RULE = ("configs: 16 base groups (12 singletons + SE3/SE23 over Dcm/Euler) and direct products built with *; "
        "per config: (a) full product elements x reduced elements for the homomorphism/inverse/identity/"
        "from_Matrix clauses, (b) small^3 for associativity, (c) BFS over operation words {X*g, g*X, X^-1} "
        "from identity and generators with states de-duplicated on the 12-digit raw parameter vector. "
        "non-trivial = element pair whose reference product matrix differs from both factors (neither is identity); "
        "distinct = by raw parameter bytes.")
ASSUMPTIONS = ["CasADi evaluation of SX functions, numpy matrix algebra (1e-16) trusted",
               "values between alphabet members and words longer than the depth are not covered",
               "direct products: quick tier explores 24 ordered pairs + 4 triples, thorough 144 + 24"]


def bounds(tier):
    return dict(depth=4 if tier == "thorough" else 3, n_products=len(gutil.product_configs(tier)),
                pair_reduced=60 if tier == "thorough" else 40)


OPS = ["product", "inverse", "identity", "to_Matrix", "from_Matrix"]


def _alpha(B, p):
    return B.call("to_Matrix", p)


def explore_config(case):
    name, tier, seed = case["config"], case["tier"], case["seed"]
    res = core.Result()
    G = lib.resolve(name)
    B = lib.built(name, G)
    L = lib.layout(G)
    is_dp = "*" in name
    # ---- build: every offered operation must construct -------------------------------------
    for op in OPS:
        B.get(op)
        st = B.status[op]
        res.count("evaluations")
        if st.startswith("error"):
            res.fail(site="%s.%s" % (name, op), clause="operation_raises", cls=st.split(":")[1],
                     detail=dict(status=st), sub="config", case=case)
    if any(B.status[o] != "ok" for o in ("product", "inverse", "identity", "to_Matrix")):
        return res
    n = B.mshape[0]
    I = np.eye(n)
    elems = alpha.elements(L, seed, small=is_dp)
    if not is_dp:
        # members on both sides of every comparison the compiled operations make along designed rays (see harvest.lie_members)
        from .. import harvest
        for op_ in ("to_Matrix", "inverse", "product"):
            for p_ in harvest.lie_members(B, op_, seed, tier):
                elems.append(dict(tag="harvest(%s)" % op_, p=p_, refs=None))
                res.add_set("harvested_members", "%s.%s" % (name, op_))
    elems = [e for e in elems if gutil.elem_excluded(L, e["p"]) is None]
    dep = case.get("only")
    depth = 4 if tier == "thorough" else 3
    if is_dp:
        elems = alpha.reduced(elems, 80 if tier == "thorough" else 50)
        depth = 3 if tier == "thorough" else 2
    M = [_alpha(B, e["p"]) for e in elems]
    red_n = 60 if tier == "thorough" else 40
    red_idx = sorted(set(int(i * len(elems) / float(min(red_n, len(elems)))) for i in range(min(red_n, len(elems)))))

    # ---- identity ---------------------------------------------------------------------------
    e_id = B.vec("identity")
    Me = _alpha(B, e_id)
    res.count("evaluations")
    ok, err = close(Me, I)
    if e_id.shape != (B.n,) or not ok:
        res.fail(site=name + ".identity", clause="identity_maps_to_I", cls="-",
                 detail=dict(identity=e_id, to_Matrix=Me, err=err), sub="config", case=case)

    # ---- per element: inverse, neutral identity, from_Matrix round trip ---------------------
    fm = B.status["from_Matrix"] == "ok"
    if B.status["from_Matrix"] == "not_implemented":
        res.count("from_Matrix_not_offered")
    for e, Mx in zip(elems, M):
        p = e["p"]
        res.count("evaluations")
        cls = rep_tag(e)
        nontriv = maxabs(Mx - I) > 1e-6
        if nontriv:
            res.nontrivial.add(hash(p.tobytes()))
        res.outcomes.add(hash(np.round(Mx, 9).tobytes()))
        if gutil.inverse_excluded(L, p) is None:
            pi = B.vec("inverse", p)
            Mi = _alpha(B, pi)
            ok1, e1 = close(Mi @ Mx, I, scale=1 + maxabs(Mx) * maxabs(Mi))
            ok2, e2 = close(Mx @ Mi, I, scale=1 + maxabs(Mx) * maxabs(Mi))
            if not (ok1 and ok2):
                res.fail(site=name + ".inverse", clause="inverse_is_matrix_inverse", cls=cls,
                         detail=dict(X=p, tag=e["tag"], inv=pi, err=max(e1, e2)), sub="config", case=case)
        else:
            res.count("excluded_by_reference")
        for side, q in (("left", B.vec("product", e_id, p)), ("right", B.vec("product", p, e_id))):
            if gutil.product_excluded(L, e_id if side == "left" else p, p if side == "left" else e_id):
                res.count("excluded_by_reference")
                continue
            ok, er = close(_alpha(B, q), Mx)
            if not ok:
                res.fail(site=name + ".product", clause="identity_neutral_" + side, cls=cls,
                         detail=dict(X=p, tag=e["tag"], result=q, err=er), sub="config", case=case)
        if fm:
            q = B.vec("from_Matrix", Mx)
            res.count("from_Matrix_roundtrips")
            okq = q.shape == (B.n,) and np.all(np.isfinite(q))
            ok, er = (close(_alpha(B, q), Mx) if okq else (False, float("inf")))
            if not ok:
                res.fail(site=name + ".from_Matrix", clause="from_Matrix_right_inverse", cls=cls,
                         detail=dict(X=p, tag=e["tag"], back=q, err=er), sub="config", case=case)

    # ---- pairs: homomorphism ----------------------------------------------------------------
    for i, (ex, Mx) in enumerate(zip(elems, M)):
        for j in red_idx:
            ey, My = elems[j], M[j]
            res.count("evaluations")
            why = gutil.product_excluded(L, ex["p"], ey["p"])
            if why:
                res.count("excluded_by_reference")
                continue
            pz = B.vec("product", ex["p"], ey["p"])
            Mz = _alpha(B, pz)
            Mref = Mx @ My
            ok, er = close(Mz, Mref, scale=1 + maxabs(Mx) * maxabs(My))
            if maxabs(Mx - I) > 1e-6 and maxabs(My - I) > 1e-6:
                res.nontrivial.add(hash(ex["p"].tobytes() + ey["p"].tobytes()))
            if not ok:
                res.fail(site=name + ".product", clause="homomorphism", cls="X:%s;Y:%s" % (rep_tag(ex), rep_tag(ey)),
                         detail=dict(X=ex["p"], Y=ey["p"], tagX=ex["tag"], tagY=ey["tag"], XY=pz, err=er),
                         sub="config", case=case)

    # ---- triples: associativity ---------------------------------------------------------------
    t_n = 9 if tier == "thorough" else 7
    tri = alpha.reduced([elems[k] for k in red_idx], t_n)
    for ex, ey, ez in itertools.product(tri, repeat=3):
        res.count("evaluations")
        if gutil.product_excluded(L, ex["p"], ey["p"]) or gutil.product_excluded(L, ey["p"], ez["p"]):
            res.count("excluded_by_reference")
            continue
        xy = B.vec("product", ex["p"], ey["p"])
        yz = B.vec("product", ey["p"], ez["p"])
        if gutil.product_excluded(L, xy, ez["p"]) or gutil.product_excluded(L, ex["p"], yz) \
                or gutil.elem_excluded(L, xy) or gutil.elem_excluded(L, yz):
            res.count("excluded_by_reference")
            continue
        A1 = _alpha(B, B.vec("product", xy, ez["p"]))
        A2 = _alpha(B, B.vec("product", ex["p"], yz))
        ok, er = close(A1, A2, scale=1 + maxabs(A2) + maxabs(_alpha(B, ex["p"])) * maxabs(_alpha(B, ey["p"])) * maxabs(_alpha(B, ez["p"])))
        if not ok:
            res.fail(site=name + ".product", clause="associativity", cls="%s;%s;%s" % (rep_tag(ex), rep_tag(ey), rep_tag(ez)),
                     detail=dict(X=ex["p"], Y=ey["p"], Z=ez["p"], err=er), sub="config", case=case)

    # ---- direct numeric use of the API, object reuse, argument mutation (see numapi) -------------------
    sel = alpha.reduced(elems, 24 if not is_dp else 10)
    numapi.check_group(res, B, [e["p"] for e in sel], [], case, "config", ("product", "inverse", "to_Matrix"))
    numapi.check_forms(res, B, [e["p"] for e in sel], [], case, "config", ("product", "inverse", "to_Matrix"))
    numapi.check_composed(res, B, [e["p"] for e in sel][:14], [], case, "config", firsts=["inverse", "square"], seconds=["to_Matrix", "inverse", "param_g"])
    numapi.check_aliasing(res, B, [e["p"] for e in sel][:14], [], case, "config", ("inverse", "to_Matrix"))
    numapi.check_symbol_names(res, B, [e["p"] for e in sel][:6], [], case, "config", ("to_Matrix", "inverse", "product"))
    numapi.check_history(res, B, [e["p"] for e in sel][:8], [], case, "config", ["to_Matrix", "inverse"], ["Ad", "log", "inverse", "to_Matrix"])
    numapi.check_threads(res, B, numapi.generic_pair([e["p"] for e in sel]), [], case, "config", ("to_Matrix", "inverse", "product"))
    if is_dp:
        gutil.check_product_by_position(res, B, [e["p"] for e in sel], [], case, "config", ("identity", "to_Matrix", "inverse", "product"))
    numapi.check_spellings(res, B, [e["p"] for e in sel][:8], [x["p"] for x in alpha.reduced(alpha.elements(lib.alg_layout(G), seed, small=True), 6)], case, "config")
    # ---- words: BFS over {X*g, g*X, X^-1} ---------------------------------------------------------
    gens = _word_generators(elems, M, I, 6 if not is_dp else 4)
    words_bfs(res, name, B, L, gens, e_id, depth, case)
    res.samples.append(dict(config=name, n_elements=len(elems), example=elems[min(3, len(elems) - 1)]["tag"],
                            generators=[g["tag"] for g, _ in gens]))
    return res


_VDC = [0.5, 0.25, 0.75, 0.125, 0.625, 0.375, 0.875]


def _word_generators(elems, M, I, k):
    """pick k generators round-robin over representative classes, preferring non-canonical
    representatives (q-, shadow MRP) and non-zero translations; deterministic"""
    groups = {}
    for idx, (e, Mx) in enumerate(zip(elems, M)):
        if maxabs(Mx - I) < 1e-3 or maxabs(Mx) > 10:
            continue
        t = e["tag"]
        score = (("q-" in t) * 2 + ("shadow" in t) * 2 + (not any(s in t for s in ("v0", "a0|"))) * 1)
        groups.setdefault(rep_tag(e), []).append((-score, idx))
    for g in groups.values():
        g.sort()
        # spread inside the class: take evenly spaced members of the best-score prefix
    picked = []
    order = sorted(groups.keys(), key=lambda t: (-(("q-" in t) + ("shadow" in t)), t))
    r = 0
    while len(picked) < k and any(groups.values()):
        for t in order:
            g = groups[t]
            if not g:
                continue
            # r-th pick of this class: spaced through the class
            pos = int(len(g) * _VDC[r % len(_VDC)])
            picked.append(g.pop(min(pos, len(g) - 1))[1])
            if len(picked) >= k:
                break
        r += 1
    if not picked:
        picked = list(range(min(k, len(elems))))
    return [(elems[i], M[i]) for i in picked]


def apply_word(B, L, gens_p, e_id, word):
    """replay an operation word on the real code (used by the explorer and by --replay)"""
    p = np.array(e_id, dtype=float)
    for op, gi in word:
        if op == "R":
            p = B.vec("product", p, gens_p[gi])
        elif op == "L":
            p = B.vec("product", gens_p[gi], p)
        elif op == "I":
            p = B.vec("inverse", p)
    return p


def words_bfs(res, name, B, L, gens, e_id, depth, case):
    n = B.mshape[0]
    I = np.eye(n)
    start = (np.array(e_id, dtype=float), I.copy(), 0, ())
    seen = {key_of(e_id)}
    frontier = deque([start])
    res.count("states")
    moves = [("R", i) for i in range(len(gens))] + [("L", i) for i in range(len(gens))] + [("I", -1)]
    while frontier:
        p, Mref, d, word = frontier.popleft()
        res.counters["max_depth"] = max(res.counters["max_depth"], d)
        if d >= depth:
            continue
        Mp = _alpha(B, p)
        for op, gi in moves:
            if op == "I":
                if gutil.inverse_excluded(L, p):
                    res.count("excluded_by_reference")
                    continue
                q = B.vec("inverse", p)
                Mq_ref = np.linalg.inv(Mref)
                step_ref = None
            else:
                g, Mg = gens[gi]
                a, b = (p, g["p"]) if op == "R" else (g["p"], p)
                if gutil.product_excluded(L, a, b):
                    res.count("excluded_by_reference")
                    continue
                q = B.vec("product", a, b)
                Mq_ref = Mref @ Mg if op == "R" else Mg @ Mref
                step_ref = Mp @ Mg if op == "R" else Mg @ Mp
            if gutil.elem_excluded(L, q):
                res.count("excluded_by_reference")
                continue
            res.count("transitions")
            res.count("evaluations")
            res.count("traces_validated_against_impl")
            Mq = _alpha(B, q)
            sc = (1 + maxabs(Mq_ref)) * (d + 2) * (1 + maxabs(Mp))
            ok, er = close(Mq, Mq_ref, scale=sc)
            ok2 = True
            if step_ref is not None:
                ok2, er2 = close(Mq, step_ref, scale=sc)
                er = max(er, er2)
            if not (ok and ok2):
                w = list(word) + [(op, gi)]
                res.fail(site=name + ".words", clause="word_matches_reference_product", cls="op:" + op,
                         detail=dict(word=w, generators=[g["tag"] for g, _ in gens], state=p, result=q, err=er),
                         sub="config", case=case)
                continue
            k = key_of(q)
            if k not in seen:
                seen.add(k)
                res.count("states")
                res.outcomes.add(hash(np.round(Mq_ref, 8).tobytes()))
                frontier.append((q, Mq_ref, d + 1, word + ((op, gi),)))


class _Sub:
    chunks = 1

    def cases(self, tier, seed):
        names = list(gutil.BASE) + gutil.product_configs(tier)
        return [dict(config=n, tier=tier, seed=seed) for n in names]

    def run(self, case):
        import time, os, sys
        t = time.time()
        r = explore_config(case)
        if os.environ.get("VERIF_VERBOSE"):
            print("    %-40s %.1fs evals=%d states=%d trans=%d" % (case["config"], time.time() - t, r.counters["evaluations"], r.counters["states"], r.counters["transitions"]), file=sys.stderr)
        return r


SUBCHECKS = {"config": _Sub()}


def _replay(case):
    return explore_config(case).fails


REPLAY = {"config": _replay}

def explore_chain(case):
    """long chains: the matrix of X1 * X2 * ... * Xn equals the product of the factors' matrices for every prefix (a defect that is
    below round-off for one product but compounds shows only here).  One deterministic chain per group and starting offset."""
    name, tier, seed, start = case["config"], case["tier"], case["seed"], case["start"]
    res = core.Result()
    n_len = 200 if tier == "thorough" else 64
    B = lib.built(name)
    L = lib.layout(B.G)
    for op in ("product", "to_Matrix"):
        B.get(op)
    if B.status["product"] != "ok" or B.status["to_Matrix"] != "ok":
        res.count("evaluations")
        res.count("not_offered")
        return res
    pool = [e for e in alpha.elements(L, seed, small=True) if gutil.elem_excluded(L, e["p"]) is None and maxabs(e["p"]) < 50]
    pool = alpha.reduced(pool, 24)
    acc = pool[start % len(pool)]["p"]
    Mref = _alpha(B, acc)
    used = 1
    k = start
    skipped = 0
    while used < n_len and skipped < 4 * n_len:
        k += 1
        q = pool[(k * 7 + start) % len(pool)]["p"]
        if gutil.product_excluded(L, acc, q):
            skipped += 1
            continue
        Mq = _alpha(B, q)
        nxt = B.vec("product", acc, q)
        Mn = Mref @ Mq
        if maxabs(Mn) > 1e6 or gutil.elem_excluded(L, nxt) is not None:
            skipped += 1
            continue
        res.count("evaluations")
        res.count("transitions")
        res.count("traces_validated_against_impl")
        res.nontrivial.add(hash((name, start, used)))
        ok, err = close(_alpha(B, nxt), Mn, scale=1 + maxabs(Mn))
        if not ok:
            res.fail(site=name + ".product", clause="matrix_of_product_is_product_of_matrices", cls="chain", detail=dict(chain_length=used + 1, start=start, err=err, element=nxt), sub="chain", case=case)
            break
        acc, Mref = nxt, _alpha(B, nxt)  # re-anchor the reference on the (just validated) element: round-off does not accumulate in the oracle
        used += 1
    res.counters["max_depth"] = used
    res.count("states", used)
    res.outcomes.add(hash(np.round(Mref, 6).tobytes()))
    res.samples.append(dict(config=name, chain_length=used, skipped=skipped))
    return res


def explore_reuse(case):
    """group objects used more than once: a product that becomes a factor of further products must stay intact; elements of equal but
    distinct group objects (a product or semidirect product built twice, a deep copy of an element) multiply like elements of one object"""
    import copy
    tier, seed, a, b, c, d = case["tier"], case["seed"], case["a"], case["b"], case["c"], case["d"]
    res = core.Result()
    S = lib.base_groups()
    name = "%s*%s" % (a, b)
    ref_B = lib.built(name)  # the same product built independently from its expression
    L = lib.layout(ref_B.G)
    elems = [e["p"] for e in alpha.reduced([e for e in alpha.elements(L, seed, small=True) if gutil.elem_excluded(L, e["p"]) is None], 10)]

    def snapshot(G):
        Bx = lib.Built("reuse", G)
        out = {}
        for op in ("to_Matrix", "inverse", "log", "Ad"):
            if Bx.get(op) is None:
                continue
            out[op] = [Bx.call(op, p) for p in elems if (op != "inverse" or gutil.inverse_excluded(L, p) is None)]
        if Bx.get("product") is not None:
            out["product"] = [Bx.call("product", p, q) for p, q in zip(elems, elems[1:]) if not gutil.product_excluded(L, p, q)]
        if Bx.get("identity") is not None:
            out["identity"] = [Bx.call("identity")]
        return out

    def same(x, y):
        return x.keys() == y.keys() and all(len(x[k]) == len(y[k]) and all(u.shape == v.shape and np.array_equal(np.nan_to_num(u), np.nan_to_num(v)) for u, v in zip(x[k], y[k])) for k in x)
    res.count("evaluations")
    res.nontrivial.add(hash((a, b, c, d)))
    res.nontrivial.add(hash((a, b, c, d, 1)))
    try:
        with contextlib.redirect_stdout(io.StringIO()):
            base = S[a] * S[b]
            before = snapshot(base)
            aug1 = base * S[c]
            mid = snapshot(base)
            aug2 = base * S[d]
            nested = S[d] * base
            twice = base * base
            after = snapshot(base)
            want = snapshot(ref_B.G)
    except Exception as ex:
        res.fail(site=name, clause="product_group_reusable_as_factor", cls="raises", detail=dict(then=[c, d], error="%s: %s" % (type(ex).__name__, str(ex)[:200])), sub="reuse", case=case)
        return res
    if not (same(before, want) and same(mid, want) and same(after, want)):
        res.fail(site=name, clause="product_group_reusable_as_factor", cls="changed", detail=dict(then=[c, d], before_ok=bool(same(before, want)), after_first_ok=bool(same(mid, want)),
                 after_all_ok=bool(same(after, want))), sub="reuse", case=case)
    # the products built from the (re)used object equal the ones built from a fresh expression
    for tag, Gx, expr in (("aug1", aug1, "(%s*%s)*%s" % (a, b, c)), ("aug2", aug2, "(%s*%s)*%s" % (a, b, d)), ("nested", nested, "%s*(%s*%s)" % (d, a, b))):
        res.count("evaluations")
        Bf = lib.built(expr)
        Lf = lib.layout(Bf.G)
        pf = [e["p"] for e in alpha.reduced([e for e in alpha.elements(Lf, seed, small=True) if gutil.elem_excluded(Lf, e["p"]) is None], 6)]
        try:
            with contextlib.redirect_stdout(io.StringIO()):
                Bx = lib.Built("reuse_" + tag, Gx)
                ok = Gx.n_param == Bf.G.n_param and all(np.array_equal(Bx.call("to_Matrix", p), Bf.call("to_Matrix", p)) for p in pf) and \
                    all(np.array_equal(Bx.call("product", p, q), Bf.call("product", p, q)) for p, q in zip(pf, pf[1:]) if not gutil.product_excluded(Lf, p, q))
        except Exception as ex:
            res.fail(site=expr, clause="product_built_from_reused_factor_equals_fresh_one", cls="raises", detail=dict(error="%s: %s" % (type(ex).__name__, str(ex)[:200])), sub="reuse", case=case)
            continue
        if not ok:
            res.fail(site=expr, clause="product_built_from_reused_factor_equals_fresh_one", cls=tag, detail=dict(n_param=int(Gx.n_param), expected_n_param=int(Bf.G.n_param)), sub="reuse", case=case)
    # equal but distinct group objects, deep copies
    G1, G2 = lib.resolve(name), lib.resolve(name)
    for p, q in list(zip(elems, elems[1:]))[:6]:
        if gutil.product_excluded(L, p, q):
            continue
        res.count("evaluations")
        want_pq = ref_B.call("product", p, q)
        for tag, mkx, mky in (("two_group_objects", lambda: G1.elem(ca.DM(p)), lambda: G2.elem(ca.DM(q))), ("deep_copy", lambda: copy.deepcopy(G1.elem(ca.DM(p))), lambda: G1.elem(ca.DM(q)))):
            try:
                with contextlib.redirect_stdout(io.StringIO()):
                    got = numapi.ev((mkx() * mky()).param)
            except Exception as ex:
                res.fail(site=name + ".product", clause="elements_of_equal_group_objects_multiply", cls=tag, detail=dict(error="%s: %s" % (type(ex).__name__, str(ex)[:200])), sub="reuse", case=case)
                break
            if not numapi._same(got.reshape(want_pq.shape), want_pq, 1e-12)[0]:
                res.fail(site=name + ".product", clause="elements_of_equal_group_objects_multiply", cls=tag, detail=dict(X=p, Y=q, got=got, want=want_pq), sub="reuse", case=case)
                break
    res.outcomes.add(hash((a, b, c, d)))
    res.count("states", 4)
    res.count("transitions", 5)
    res.samples.append(dict(reuse=[a, b, c, d]))
    return res


def explore_helpers(case):
    """entry points outside cyecca.lie that expose the same facts: `rdd2.derive_common()` rotates a vector with the matrix form of a
    quaternion (body -> world) and of its inverse (world -> body); `X @ v` is the matrix-vector product"""
    seed = case["seed"]
    res = core.Result()
    with contextlib.redirect_stdout(io.StringIO()):
        from cyecca.models import rdd2
        fns = rdd2.derive_common()
    want_keys = {"rotate_vector_w_to_b", "rotate_vector_b_to_w"}
    res.count("evaluations")
    if set(fns) != want_keys:
        res.fail(site="rdd2.derive_common", clause="shipped_rotation_helpers_present", cls="-", detail=dict(keys=sorted(fns)), sub="helpers", case=case)
        return res
    vs = [np.array([1.0, 0, 0]), np.array([1.0, -2.0, 3.0]), alpha.generic_vec(seed, 3)]
    for rv in alpha.rotvecs(seed, small=True):
        for tag, q, R in alpha.rot_reps("Quat", rv):
            for v in vs:
                res.count("evaluations", 3)
                res.nontrivial.add(hash((q.tobytes(), v.tobytes())))
                vb = np.array(fns["rotate_vector_w_to_b"](q, v), dtype=float).reshape(-1)
                vw = np.array(fns["rotate_vector_b_to_w"](q, v), dtype=float).reshape(-1)
                res.outcomes.add(hash(np.round(R @ v, 8).tobytes()))
                if maxabs(vb - R.T @ v) > 1e-9 * (1 + maxabs(v)):
                    res.fail(site="rdd2.rotate_vector_w_to_b", clause="matrix_form_of_inverse_acts_as_matrix_inverse", cls=tag, detail=dict(q=q, v=v, got=vb, want=R.T @ v), sub="helpers", case=case)
                if maxabs(vw - R @ v) > 1e-9 * (1 + maxabs(v)):
                    res.fail(site="rdd2.rotate_vector_b_to_w", clause="action_is_matrix_vector_product", cls=tag, detail=dict(q=q, v=v, got=vw, want=R @ v), sub="helpers", case=case)
                # the operator spelling on every SO(3) parameterisation
                for kind, Gk in lib.SO3S.items():
                    for t2, pk, Rk in alpha.rot_reps(kind, rv)[:1]:
                        try:
                            with contextlib.redirect_stdout(io.StringIO()):
                                got = numapi.ev(Gk.elem(ca.DM(pk)) @ ca.DM(v)).reshape(-1)
                        except NotImplementedError:
                            continue
                        if maxabs(got - Rk @ v) > 1e-9 * (1 + maxabs(v)):
                            res.fail(site="SO3%s.@" % kind, clause="action_is_matrix_vector_product", cls=t2, detail=dict(p=pk, v=v, got=got, want=Rk @ v), sub="helpers", case=case)
    res.count("states", 2)
    res.count("transitions", 2)
    res.samples.append(dict(helpers=sorted(want_keys)))
    return res


class _Help:
    chunks = 1

    def cases(self, tier, seed):
        return [dict(sub="helpers", tier=tier, seed=seed)]

    def run(self, case):
        return explore_helpers(case)


class _Reuse:
    chunks = 1

    def cases(self, tier, seed):
        quads = [("SE3Quat", "R3", "SO2", "SE2"), ("SO3Mrp", "R3", "SO3Quat", "SE2"), ("SE2", "SE2", "SO3Quat", "R2"), ("SO3Quat", "SO3Mrp", "SE23Quat", "SO2"),
                 ("SE3Dcm", "SO2", "R3", "SE3Euler"), ("SE23Mrp", "SO3EulerB321", "R2", "SO3Dcm")]
        if tier == "thorough":
            quads += [("R3", "SE3Mrp", "SE23Quat", "SO3Dcm"), ("SO2", "SO2", "SE2", "SE2"), ("SE23Dcm", "R2", "SO3Mrp", "SE3Quat")]
        return [dict(sub="reuse", tier=tier, seed=seed, a=a, b=b, c=c, d=d) for a, b, c, d in quads]

    def run(self, case):
        return explore_reuse(case)


class _Chain:
    chunks = 1

    def cases(self, tier, seed):
        names = list(gutil.BASE) + ["SO3Quat*SE2", "SE3Quat*SO3Mrp"]
        return [dict(sub="chain", config=n, tier=tier, seed=seed, start=s) for n in names for s in ((0, 5) if tier != "thorough" else (0, 5, 11, 17))]

    def run(self, case):
        return explore_chain(case)


SUBCHECKS["chain"] = _Chain()
REPLAY["chain"] = lambda c: explore_chain(c).fails
SUBCHECKS["reuse"] = _Reuse()
REPLAY["reuse"] = lambda c: explore_reuse(c).fails
SUBCHECKS["helpers"] = _Help()
REPLAY["helpers"] = lambda c: explore_helpers(c).fails


# results must not depend on which library calls were made earlier in the process (see mc/order.py)
from .. import order as _order  # noqa: E402

_ORDER = _order.OrderSub("C01", "lie", lambda k: k.split('/')[-1] in ('to_Matrix','product','inverse','from_Matrix','identity','times_identity'))
SUBCHECKS["order"] = _ORDER
REPLAY["order"] = _ORDER.replay
