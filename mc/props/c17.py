"""C17 - the shipped control cascade stabilises the shipped quadrotor model.

explorer : history.  System = quadrotor.derive_model()['f'] (default parameters) integrated by RK4 with 10 sub-steps per 10 ms control
           period, closed with either shipped cascade wired exactly as scripts/rdd2_sim.py (gains, F_max = 20, trim = m g, fed-back z_i,
           i0, e0, de0).  Each initial condition of the lattice yields one deterministic history; every visited state is monitored.
           quick = deterministic pairwise-covering sub-lattice, thorough = the full product.
oracle   : every state finite, z > 0, |q| = 1 (1e-6), motor commands within [0, sqrt(F_max/CT)]; over the last 2 s of the horizon
           (20 s position controller / 30 s log-linear): position error < 0.05 m, tilt < 0.02 rad, |w| < 0.02 rad/s, |v| < 0.02 m/s.
"""
from __future__ import annotations

import itertools
import math

import numpy as np

from .. import core, loop17, ref

LEVEL = "model_checking"
RULE = ("initial conditions: position offset in {0} U {+-1.5}^3 x attitude in {level} U {30,60 deg} x {e1,e2,(1,1,0)/sqrt2} x both quaternion signs x v in {0,(1,-1,0.5)} x "
        "w in {0,(1,-1,0.5)} x yaw set-point {0, 0.5, 2} x 2 control modes x set-point position {(0,0,5),(40,-30,20)}; + ground starts (motors stopped, 3 headings) and literal half-turn attitudes (0,0,0,+-1); a state = one 10 ms sample of the closed loop, a transition = one control period of the real functions. "
        "non-trivial = initial condition differs from hover at the set-point")
ASSUMPTIONS = ["perfect state feedback (the estimator is C08/C11/C12's business)", "RK4 with 1 ms sub-steps is the plant integrator",
               "initial conditions between lattice points and beyond the envelope are not covered"]
TARGET = np.array([0.0, 0.0, 5.0])
TOL = dict(pos=0.05, tilt=0.02, w=0.02, v=0.02)


def bounds(tier):
    return dict(horizon=dict(mellinger=20, loglinear=30))


def lattice(tier):
    offs = [(0.0, 0.0, 0.0)] + [(a, b, c) for a in (-1.5, 1.5) for b in (-1.5, 1.5) for c in (-1.5, 1.5)]
    atts = [(0.0, (1.0, 0, 0), 1)]
    for deg in (30.0, 60.0):
        for ax in ((1.0, 0, 0), (0, 1.0, 0), (1.0, 1.0, 0)):
            for s in (1, -1):
                atts.append((math.radians(deg), ax, s))
    vs = [(0.0, 0.0, 0.0), (1.0, -1.0, 0.5)]
    ws = [(0.0, 0.0, 0.0), (1.0, -1.0, 0.5)]
    yaws = [0.0, 0.5, 2.0]
    modes = ["mellinger", "loglinear"]
    targets = [(0.0, 0.0, 5.0), (40.0, -30.0, 20.0)]
    dims = [len(offs), len(atts), 2, 2, 3, 2, 2]
    full = list(itertools.product(*[range(d) for d in dims]))
    if tier != "thorough":
        need = set((i, a, j, b) for i in range(7) for j in range(i + 1, 7) for a in range(dims[i]) for b in range(dims[j]))
        chosen = []
        while need:
            best, bc = None, -1
            for c in full:
                cov = sum(1 for i in range(7) for j in range(i + 1, 7) if (i, c[i], j, c[j]) in need)
                if cov > bc:
                    best, bc = c, cov
            chosen.append(best)
            for i in range(7):
                for j in range(i + 1, 7):
                    need.discard((i, best[i], j, best[j]))
        full = chosen
    if tier == "thorough":
        # the set-point position is a translation of the whole problem: full product at the first target, the pairwise-covering
        # sub-lattice at the far one
        far = [c[:6] + (1,) for c in lattice_index_cover(dims)]
        full = [c for c in full if c[6] == 0] + far
    out = [dict(off=offs[a], att=atts[b], v=vs[c], w=ws[d], yaw=yaws[e], mode=modes[f], target=targets[g]) for a, b, c, d, e, f, g in full]
    # special initial conditions (complete small product): at rest on the ground with the motors stopped (where the repository's
    # simulator starts) at three headings, and attitudes written literally as (0,0,0,+-1): a yaw error of exactly half a turn
    for mode in modes:
        for ysp in (0.0, 0.5):
            for yaw0 in (0.0, 60.0, 100.0):
                out.append(dict(off=(0.5, -0.5, -5.0), att=(math.radians(yaw0), (0, 0, 1.0), 1), v=(0.0, 0.0, 0.0), w=(0.0, 0.0, 0.0), yaw=ysp, mode=mode,
                                target=targets[0], ground=True))
            for sgn in (1.0, -1.0):
                out.append(dict(off=(0.5, 0.0, 0.0), att=(0.0, (0, 0, 1.0), 1), v=(0.0, 0.0, 0.0), w=(0.0, 0.0, 0.0), yaw=ysp, mode=mode,
                                target=targets[0], literal_q=[0.0, 0.0, 0.0, sgn]))
    # the plant advanced through the model's integrator interface (model["dae"] with cvodes) instead of RK4 on model["f"]
    for mode in modes:
        for ysp in (0.0, 0.5):
            out.append(dict(off=(1.5, -1.5, 1.5), att=(math.radians(30.0), (1.0, 0, 0), 1), v=(1.0, -1.0, 0.5), w=(1.0, -1.0, 0.5), yaw=ysp, mode=mode, target=targets[0], plant="dae"))
        # released at rest (zero velocity and rate: the implicit integrator differentiates the model exactly where |v| = 0)
        out.append(dict(off=(0.5, 0.0, -1.0), att=(0.0, (0, 0, 1.0), 1), v=(0.0, 0.0, 0.0), w=(0.0, 0.0, 0.0), yaw=0.0, mode=mode, target=targets[0], plant="dae"))
    return out


def lattice_index_cover(dims):
    full = list(itertools.product(*[range(d) for d in dims[:6]]))
    need = set((i, a, j, b) for i in range(6) for j in range(i + 1, 6) for a in range(dims[i]) for b in range(dims[j]))
    chosen = []
    while need:
        best, bc = None, -1
        for c in full:
            cov = sum(1 for i in range(6) for j in range(i + 1, 6) if (i, c[i], j, c[j]) in need)
            if cov > bc:
                best, bc = c, cov
        chosen.append(best)
        for i in range(6):
            for j in range(i + 1, 6):
                need.discard((i, best[i], j, best[j]))
    return chosen


def explore(case):
    cfg = case["cfg"]
    res = core.Result()
    S = loop17.setup()
    pd = S["pd"]
    hover = math.sqrt(pd["m"] * pd["g"] / 4 / pd["CT"])
    th, ax, sgn = cfg["att"]
    axv = np.array(ax, dtype=float)
    axv /= np.linalg.norm(axv)
    q = ref.quat_of(axv * th, sgn)
    if cfg.get("literal_q"):
        q = np.array(cfg["literal_q"], dtype=float)
    TARGET = np.array(cfg.get("target", (0.0, 0.0, 5.0)), dtype=float)
    x0 = np.concatenate([TARGET + np.array(cfg["off"]), cfg["v"], q, cfg["w"], np.full(4, 0.0 if cfg.get("ground") else hover)])
    tf = 20.0 if cfg["mode"] == "mellinger" else 30.0
    res.count("evaluations")
    if any(cfg["off"]) or th or any(cfg["v"]) or any(cfg["w"]):
        res.nontrivial.add(hash(str(cfg)))
    cls = "%s;yaw=%g" % (cfg["mode"], cfg["yaw"]) + (";ground_start" if cfg.get("ground") else "") + (";literal_half_turn" if cfg.get("literal_q") else "") + (";dae_cvodes" if cfg.get("plant") == "dae" else "")
    try:
        r = loop17.run(cfg["mode"], x0, TARGET, cfg["yaw"], tf, plant=cfg.get("plant", "rk4"))
    except Exception as ex:
        res.fail(site="closed_loop", clause="no_exception", cls=cls, detail=dict(cfg=cfg, error="%s: %s" % (type(ex).__name__, str(ex)[:300])), sub="loop", case=case)
        return res
    X, U = r["X"], r["U"]
    res.count("states", len(X))
    res.count("transitions", len(U))
    res.count("traces_validated_against_impl", len(U))
    if r["nan_at"] is not None:
        res.fail(site="closed_loop", clause="nothing_becomes_nan", cls=cls, detail=dict(cfg=cfg, step=r["nan_at"]), sub="loop", case=case)
        return res
    umax = math.sqrt(20.0 / pd["CT"])
    if U.min() < -1e-9 or U.max() > umax * (1 + 1e-9) or not np.all(np.isfinite(U)):
        res.fail(site="closed_loop", clause="motor_commands_within_limits", cls=cls, detail=dict(cfg=cfg, u_min=float(U.min()), u_max=float(U.max()), limit=umax), sub="loop", case=case)
    if X[:, 2].min() <= (-0.01 if cfg.get("ground") else 0.0):
        res.fail(site="closed_loop", clause="stays_above_ground", cls=cls, detail=dict(cfg=cfg, z_min=float(X[:, 2].min())), sub="loop", case=case)
    qn = np.linalg.norm(X[:, 6:10], axis=1)
    if np.max(np.abs(qn - 1)) > 1e-6:
        res.fail(site="closed_loop", clause="quaternion_stays_unit", cls=cls, detail=dict(cfg=cfg, worst=float(np.max(np.abs(qn - 1)))), sub="loop", case=case)
    last = X[-200:]
    pos = float(np.max(np.linalg.norm(last[:, 0:3] - TARGET, axis=1)))
    v = float(np.max(np.linalg.norm(last[:, 3:6], axis=1)))
    w = float(np.max(np.linalg.norm(last[:, 10:13], axis=1)))
    Rz = ref.Rz(cfg["yaw"])
    tilt = max(math.acos(max(-1.0, min(1.0, ref.R_from_quat(x[6:10])[2, 2]))) for x in last[::10])
    yaw_err = max(ref.rot_dist(ref.R_from_quat(x[6:10]), Rz) for x in last[::10])
    res.outcomes.add(hash((round(pos, 5), round(tilt, 5))))
    m = dict(pos=pos, v=v, w=w, tilt=tilt, yaw_err=yaw_err)
    for k, lim in TOL.items():
        if not m[k] < lim:
            res.fail(site="closed_loop", clause="settles_%s" % k, cls=cls, detail=dict(cfg=cfg, measured=m, limit=lim), sub="loop", case=case)
    if not yaw_err < 0.05:
        res.fail(site="closed_loop", clause="settles_attitude_to_heading_setpoint", cls=cls, detail=dict(cfg=cfg, measured=m, limit=0.05), sub="loop", case=case)
    for kk, vv in m.items():
        if math.isfinite(vv):
            res.counters["max_settled_%s_micro[%s]" % (kk, cls)] = int(min(vv, 1e6) * 1e6)
    if case.get("sample"):
        res.samples.append(dict(cfg=cfg, settled=m, states=int(len(X))))
    return res


class _Sub:
    chunks = 1

    def cases(self, tier, seed):
        return [dict(sub="loop", cfg=c, sample=(i < 3)) for i, c in enumerate(lattice(tier))]

    def run(self, case):
        return explore(case)


SUBCHECKS = {"loop": _Sub()}
REPLAY = {"loop": lambda c: explore(c).fails}

# keyword / dict calls bind the documented names (see mc/kw.py)
from .. import kw as _kw  # noqa: E402

_KW = _kw.KwSub("cascade")
SUBCHECKS["keywords"] = _KW
REPLAY["keywords"] = _KW.replay
