"""C13 - control allocation yields reachable motor commands and honours feasible demands.

explorer : product, exact.  The compiled control_allocation program (outputs Fp_sum, F_moment, F_thrust, M_sat) is executed by sxvm in
           exact rational arithmetic.  Demands are generated (a) as the image G*F of a complete lattice of target motor-force vectors
           (entries below 0, exactly 0, inside, exactly F_max, above) so that every exact tie C1 = 0 / C2 = 0 / spread = F_max occurs,
           and (b) as a cube of raw (T, M) values from negative to far beyond saturation; 3 geometry/propulsion constant sets.
oracle   : 0 <= Fp_i <= F_max; jointly achievable (F_sum within limits) => Fp = F_sum and G Fp = (T_sat, M_sat) exactly; moment alone
           achievable (spread of F_moment <= F_max) => G_M Fp = M_sat exactly and Fp - F_sum = c*1 with c the least shift; G A = I;
           omega (double) finite, >= 0, omega^2 Ct = Fp.
"""
from __future__ import annotations

import contextlib
import io
import itertools
import math
from fractions import Fraction as Fr

import casadi as ca
import numpy as np

from .. import core, sxvm

LEVEL = "exploration"
RULE = ("constants (F_max,l,Cm,Ct) in {(4,1,1,1),(20,1/4,2/125,1/117000),(1,3,1/2,2),(10,1/10,1/2,1),(2,1e-8,1e-7,1e-9),(1000,50,200,1e4)}; (a) target motor forces in {-F/4,0,F/4,F/2,F,5F/4}^4 mapped through the vehicle "
        "geometry G (1296 per constant set, all exact ties included); (b) T in {-5,0,1/1000,F,2F,4F-eps,4F,10F,1e6,1e18 F,-1e18} x M in {0,+-eps,+-F l/4,+-M_max,+-1e6,+-1e18 M_max}^3. "
        "(c) rays: one target motor force swept -F/4..5F/4 (3 bases x 4 motors), thrust and each moment demand swept through and beyond their range and through zero on a log grid (3 bases): members on both sides of every outcome change of the compiled program (comparisons, fmin/fmax, pieces of floor/sign/fabs) + cell midpoints. "
        "non-trivial = non-zero moment demand; distinct by exact input tuple")
ASSUMPTIONS = ["vehicle geometry G: motor sign pattern (-,-,-),(+,+,-),(+,-,+),(-,+,+) of roll, pitch, yaw-reaction moments as in the shipped quadrotor model",
               "exact rational arithmetic (Fraction) on the real instruction list; omega judged in double"]
SIGNS = [(-1, -1, -1), (1, 1, -1), (1, -1, 1), (-1, 1, 1)]
CONSTS = [(Fr(4), Fr(1), Fr(1), Fr(1)), (Fr(20), Fr(1, 4), Fr(2, 125), Fr(1, 117000)), (Fr(1), Fr(3), Fr(1, 2), Fr(2)),
          (Fr(10), Fr(1, 10), Fr(1, 2), Fr(1)),  # yaw-dominant geometry (Cm > l)
          (Fr(2), Fr(1, 10 ** 8), Fr(1, 10 ** 7), Fr(1, 10 ** 9)),  # constants many orders of magnitude below 1
          (Fr(1000), Fr(50), Fr(200), Fr(10 ** 4))]  # ... and above

_F = {}


def fns():
    if not _F:
        with contextlib.redirect_stdout(io.StringIO()):
            from cyecca.models import rdd2
            f = rdd2.derive_control_allocation()["f_alloc"]
        ins = [ca.SX.sym(f.name_in(i), f.sparsity_in(i)) for i in range(f.n_in())]
        outs = f(*ins)
        names = [f.name_out(i) for i in range(f.n_out())]
        idx = {n: i for i, n in enumerate(names)}
        _F["full"] = f
        _F["names_in"] = [f.name_in(i) for i in range(f.n_in())]
        _F["rat"] = ca.Function("alloc_rational", ins, [outs[idx[n]] for n in ("Fp_sum", "F_moment", "F_thrust", "M_sat")])
        _F["prog"] = sxvm.compile_fn(_F["rat"])
    return _F


def bounds(tier):
    return dict(targets_per_constant_set=6 ** 4, constants=len(CONSTS))


def G_apply(l, Cm, F):
    T = sum(F)
    Mx = l * sum(s[0] * f for s, f in zip(SIGNS, F))
    My = l * sum(s[1] * f for s, f in zip(SIGNS, F))
    Mz = Cm * sum(s[2] * f for s, f in zip(SIGNS, F))
    return T, (Mx, My, Mz)


def clamp(x, lo, hi):
    return hi if x > hi else (lo if x < lo else x)


def arg_order(names, F_max, l, Cm, Ct, T, M):
    d = dict(F_max=[F_max], l=[l], Cm=[Cm], Ct=[Ct], T=[T], M=list(M))
    return [d[n] for n in names]


def judge(res, consts, T, M, case, how):
    F_max, l, Cm, Ct = consts
    f = fns()
    flat = arg_order(f["names_in"], F_max, l, Cm, Ct, T, M)
    res.count("evaluations")
    if any(m != 0 for m in M):
        res.nontrivial.add(hash((consts, T, tuple(M))))
    info = dict(F_max=str(F_max), l=str(l), Cm=str(Cm), Ct=str(Ct), T=str(T), M=[str(x) for x in M], how=how)
    try:
        outs, sig = sxvm.run(f["prog"], flat, sxvm.FRACTION)
    except (ZeroDivisionError, sxvm.NotRational) as ex:
        res.fail(site="control_allocation", clause="exact_evaluation_defined", cls="-", detail=dict(info, error=str(ex)), sub=case["sub"], case=case)
        return None
    res.add_set("cells", sig)
    Fp, Fm, Ft, Ms = outs
    if any(v is sxvm.POISON for o in outs for v in o):
        res.fail(site="control_allocation", clause="outputs_finite", cls="-", detail=dict(info, Fp=[str(x) for x in Fp]), sub=case["sub"], case=case)
        return sig
    T_sat = clamp(T, Fr(0), 4 * F_max)
    M_max = l * 4 * F_max / 2
    M_sat = [clamp(m, -M_max, M_max) for m in M]
    res.outcomes.add(hash(tuple(Fp)))
    sFp = [str(x) for x in Fp]
    if list(Ms) != M_sat:
        res.fail(site="control_allocation", clause="moment_range_limit", cls="-", detail=dict(info, M_sat=[str(x) for x in Ms]), sub=case["sub"], case=case)
    # reference pre-saturation forces from the geometry (G A = I)
    F_ref = [T_sat / 4 + (s[0] * M_sat[0] + s[1] * M_sat[1]) / (4 * l) + s[2] * M_sat[2] / (4 * Cm) for s in SIGNS]
    F_sum = [a + b for a, b in zip(Fm, Ft)]
    if F_sum != F_ref:
        res.fail(site="control_allocation", clause="mixer_is_inverse_of_vehicle_geometry", cls="-",
                 detail=dict(info, F_sum=[str(x) for x in F_sum], reference=[str(x) for x in F_ref]), sub=case["sub"], case=case)
        return sig
    if any(x < 0 or x > F_max for x in Fp):
        res.fail(site="control_allocation", clause="motor_force_within_0_Fmax", cls="-", detail=dict(info, Fp=sFp), sub=case["sub"], case=case)
    mx, mn = max(F_ref), min(F_ref)
    tie = (mx == F_max, mn == 0)
    cls = "C1==0&&C2==0" if tie == (True, True) else ("C1==0" if tie[0] else ("C2==0" if tie[1] else "no_tie"))
    if mn >= 0 and mx <= F_max:
        Tr, Mr = G_apply(l, Cm, Fp)
        if list(Fp) != F_ref or Tr != T_sat or list(Mr) != M_sat:
            res.fail(site="control_allocation", clause="jointly_achievable_demand_reproduced_exactly", cls=cls,
                     detail=dict(info, Fp=sFp, F_demand=[str(x) for x in F_ref], realised_T=str(Tr), realised_M=[str(x) for x in Mr]), sub=case["sub"], case=case)
    Fmom = [(s[0] * M_sat[0] + s[1] * M_sat[1]) / (4 * l) + s[2] * M_sat[2] / (4 * Cm) for s in SIGNS]
    if max(Fmom) - min(Fmom) <= F_max:
        if mx > F_max:
            c = F_max - mx
        elif mn < 0:
            c = -mn
        else:
            c = Fr(0)
        want = [x + c for x in F_ref]
        Tr, Mr = G_apply(l, Cm, Fp)
        if list(Mr) != M_sat:
            res.fail(site="control_allocation", clause="achievable_moment_realised_exactly", cls=cls,
                     detail=dict(info, Fp=sFp, realised_M=[str(x) for x in Mr], M_sat=[str(x) for x in M_sat]), sub=case["sub"], case=case)
        elif list(Fp) != want:
            res.fail(site="control_allocation", clause="least_collective_shift", cls=cls,
                     detail=dict(info, Fp=sFp, want=[str(x) for x in want], shift=str(c)), sub=case["sub"], case=case)
    # double precision: omega finite, non-negative, consistent with Fp (CasADi's own evaluation), VM conformance-gated
    fl = [[float(x) for x in a] for a in flat]
    okc, worst, outs_d, _ = sxvm.conform(f["rat"], f["prog"], fl)
    res.count("traces_validated_against_impl")
    if not okc:
        raise core.HarnessError("sxvm does not conform to CasADi on control_allocation (%.1f ulp)" % worst)
    full = f["full"]
    r = full.call([ca.DM(a) for a in arg_order([full.name_in(i) for i in range(full.n_in())], *[float(x) for x in (F_max, l, Cm, Ct, T)], [float(m) for m in M])])
    om = np.array(r[0], dtype=float).reshape(-1)
    Fpd = np.array(r[1], dtype=float).reshape(-1)
    if not np.all(np.isfinite(om)) or np.any(om < 0) or np.max(np.abs(om ** 2 * float(Ct) - Fpd)) > 1e-12 * float(F_max) * 4:
        res.fail(site="control_allocation", clause="motor_speed_finite_nonnegative_consistent", cls="-", detail=dict(info, omega=om, Fp=Fpd), sub=case["sub"], case=case)
    # where the property fixes the value (demand or moment achievable) the map is continuous and the double evaluation must follow the
    # exact one; elsewhere (moment not achievable: the scaling has jumps, a rounding in the last place may pick the other side) only the
    # range is promised
    pinned = (mn >= 0 and mx <= F_max) or (max(Fmom) - min(Fmom) <= F_max)
    if not pinned:
        if not np.all(np.isfinite(Fpd)) or np.any(Fpd < 0) or np.any(Fpd > float(F_max)):
            res.fail(site="control_allocation", clause="motor_force_within_0_Fmax", cls="double", detail=dict(info, Fp_double=Fpd), sub=case["sub"], case=case)
    elif np.max(np.abs(Fpd - np.array([float(x) for x in Fp]))) > 1e-9 * float(F_max):
        res.fail(site="control_allocation", clause="double_matches_exact", cls="-", detail=dict(info, Fp_double=Fpd, Fp_exact=sFp), sub=case["sub"], case=case)
    return sig


def explore_targets(case):
    ci, part, nparts = case["consts"], case["part"], case["nparts"]
    res = core.Result()
    consts = CONSTS[ci]
    F_max, l, Cm, Ct = consts
    levels = [-F_max / 4, Fr(0), F_max / 4, F_max / 2, F_max, 5 * F_max / 4]
    allc = list(itertools.product(levels, repeat=4))[part::nparts]
    for Ft in allc:
        T, M = G_apply(l, Cm, Ft)
        judge(res, consts, T, M, case, "target_forces=%s" % [str(x) for x in Ft])
    res.samples.append(dict(consts=[str(x) for x in consts], targets=len(allc), example=[str(x) for x in allc[len(allc) // 2]]))
    return res


def explore_cube(case):
    ci, ti = case["consts"], case["ti"]
    res = core.Result()
    consts = CONSTS[ci]
    F_max, l, Cm, Ct = consts
    eps = Fr(1, 2 ** 40)
    Ts = [Fr(-5), Fr(0), Fr(1, 1000), F_max, 2 * F_max, 4 * F_max - eps, 4 * F_max, 10 * F_max, Fr(10 ** 6), Fr(10 ** 18) * F_max, Fr(-10 ** 18)]
    M_max = l * 4 * F_max / 2
    ms = [Fr(0), eps, -eps, F_max * l / 4, -F_max * l / 4, M_max, -M_max, Fr(10 ** 6), Fr(-10 ** 6), Fr(10 ** 18) * M_max, Fr(-10 ** 18) * M_max]
    T = Ts[ti]
    for M in itertools.product(ms, repeat=3):
        judge(res, consts, T, M, case, "cube")
    res.samples.append(dict(consts=[str(x) for x in consts], T=str(T), cube=len(ms) ** 3))
    return res


def explore_rays(case):
    """demands next to every outcome change of the compiled allocation along rays through demand space: one target motor force swept
    from below 0 to above F_max (others fixed), the thrust demand and each moment demand swept through and beyond their ranges, and
    one moment demand swept through zero on a logarithmic grid while the others are held (a demand that is small RELATIVE to another).
    A band, dead zone, snap or quantiser that a change introduces between two lattice members shows up as a signature flip, a window in
    a comparison margin or a new piece of floor / sign, and the members harvested next to it are judged exactly like the lattice."""
    from .. import harvest
    ci = case["consts"]
    res = core.Result()
    consts = CONSTS[ci]
    F_max, l, Cm, Ct = consts
    f = fns()
    Ff, lf, Cmf = float(F_max), float(l), float(Cm)
    M_max = lf * 4 * Ff / 2

    def args_of(T, M):
        return arg_order(f["names_in"], Ff, lf, Cmf, float(Ct), float(T), [float(x) for x in M])
    rays = []
    for F0 in ((0.5, 0.5, 0.5, 0.5), (0.25, 0.5, 0.75, 0.5), (0.9, 0.6, 0.3, 0.45)):
        for i in range(4):
            def mk(t, F0=F0, i=i):
                Ft = [x * Ff for x in F0]
                Ft[i] = t * Ff
                return G_apply(lf, Cmf, Ft)
            rays.append(("target_force_%d_from_%s" % (i, F0), mk, [k / 20.0 for k in range(-5, 26)]))
    logs = [0.0] + [s_ * 10.0 ** e for e in range(-9, 1) for s_ in (1.0, -1.0)]
    for T0, M0 in ((2.0 * Ff, (0.1 * M_max, -0.05 * M_max, 0.02 * Cmf * Ff)), (1.1 * Ff, (0.2 * lf * Ff, 0.05 * lf * Ff, 0.0)), (3.5 * Ff, (0.0, 0.0, 0.0))):
        rays.append(("thrust_from_%r" % (M0,), (lambda t, M0=M0: (t * Ff, M0)), [k / 8.0 for k in range(-8, 49)]))
        for k in range(3):
            def mk(t, T0=T0, M0=M0, k=k):
                M = list(M0)
                M[k] = t * M_max
                return T0, tuple(M)
            rays.append(("moment_%d_at_T=%g" % (k, T0), mk, [j / 10.0 for j in range(-15, 16)]))
            rays.append(("moment_%d_through_zero_at_T=%g" % (k, T0), mk, sorted(logs)))
    nmem = 0
    for tag, mk, ts in rays:
        mem = harvest.ray_members(f["prog"], lambda t: args_of(*mk(t)), ts, per_cell=(12 if case["tier"] == "quick" else 40))
        # members strictly inside each cell as well (midpoints), so that the ray itself is explored and not only its boundaries
        mids = [(a + b) / 2 for a, b in zip(ts, ts[1:])][::3]
        res.count("harvested_members", len(mem))
        nmem += len(mem)
        for t in list(mem) + mids:
            T, M = mk(t)
            judge(res, consts, Fr(float(T)), [Fr(float(x)) for x in M], case, "ray %s t=%r" % (tag, t))
            if len(res.fails) > 40:
                return res
    res.samples.append(dict(consts=[str(x) for x in consts], rays=len(rays), harvested_members=nmem))
    return res


class _R:
    chunks = 1

    def cases(self, tier, seed):
        return [dict(sub="rays", consts=c, tier=tier) for c in range(4)]

    def run(self, case):
        return explore_rays(case)


class _T:
    chunks = 1

    def cases(self, tier, seed):
        return [dict(sub="targets", consts=c, part=p, nparts=6) for c in range(len(CONSTS)) for p in range(6)]

    def run(self, case):
        return explore_targets(case)


class _C:
    chunks = 1

    def cases(self, tier, seed):
        return [dict(sub="cube", consts=c, ti=t) for c in range(len(CONSTS)) for t in range(11)]

    def run(self, case):
        return explore_cube(case)


def post(total, tier, seed):
    cells = total.sets.get("cells", set())
    total.sets["cells"] = set("%d comparisons: %s" % (len(s), "".join(map(str, s))) for s in list(cells)[:40])
    total.counters["cells_entered"] = len(cells)


SUBCHECKS = {"rays": _R(), "targets": _T(), "cube": _C()}
REPLAY = {"targets": lambda c: explore_targets(c).fails, "cube": lambda c: explore_cube(c).fails, "rays": lambda c: explore_rays(c).fails}

# keyword / dict calls bind the documented names (see mc/kw.py)
from .. import kw as _kw  # noqa: E402

_KW = _kw.KwSub("allocation")
SUBCHECKS["keywords"] = _KW
REPLAY["keywords"] = _KW.replay

# results must not depend on which library calls were made earlier in the process (see mc/order.py)
from .. import order as _order  # noqa: E402

_ORDER = _order.OrderSub("C13", "allocation", None, nchunks=8)
SUBCHECKS["order"] = _ORDER
REPLAY["order"] = _ORDER.replay
