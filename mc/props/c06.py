"""C06 - small-angle handling is singularity free, accurate and differentiable.

explorer : product over rotation magnitudes [0,1] on a logarithmic lattice down to denormals and exactly 0, plus both
           adjacent doubles of every Taylor/closed-form switch found by signature-flip bisection on the compiled
           functions themselves; x 3 axes x {zero, O(1)} translational parts.
oracle   : (a) finite; (b) |double output - exact| <= 1e-9 absolute, exact = 50-digit expm / power series of ad /
           round trip; (c) no jump > 1e-9 across a switch; (d) formula error of every table entry: the compiled
           table program evaluated in 60-digit arithmetic vs the exact function (adaptive precision) on both sides of
           its switch; (e) casadi.jacobian of every consumer finite at and around zero.
"""
from __future__ import annotations

import math

import casadi as ca
import mpmath
import numpy as np

from .. import alpha, core, gutil, harvest, lib, ref, sxvm
from ..gutil import maxabs

LEVEL = "exploration"
RULE = ("theta in {0, 5e-324, 1e-300, 1e-200, 1e-160, 1e-100, 1e-50, 1e-20, 1e-12} U {10^(k/4), k=-36..0} U harvested switch "
        "neighbours, axes {e3, (1,1,0)/sqrt2, seeded generic}, translational parts {0, |.|=3}; table entries on u in the same "
        "lattice (both signs for the plain series). non-trivial = theta > 0; distinct by raw bytes")
ASSUMPTIONS = ["mpmath arithmetic (50-3000 digits) is the exact reference", "the table entries' double round-off just above the "
               "switch is not judged (C06 speaks about exp/log/Jacobian outputs), only their formula error in 60 digits",
               "magnitudes between lattice points inside one branch cell are not covered"]

MPX = mpmath.mp.clone()

THETAS = [0.0, 5e-324, 1e-300, 1e-200, 1e-160, 1e-100, 1e-50, 1e-20, 1e-12] + [10.0 ** (k / 4.0) for k in range(-36, 1)]
THETAS_FINE = sorted(set(THETAS + [10.0 ** (k / 16.0) for k in range(-64, 1)] + [0.05 * k for k in range(1, 21)]))


def thetas(tier):
    return THETAS_FINE if tier == "thorough" else THETAS


def bounds(tier):
    return dict(n_theta=len(thetas(tier)), axes=9 if tier == "thorough" else 2)


# ---------------------------------------------------------------------------------------------------
# (d) table entries
# ---------------------------------------------------------------------------------------------------
def _exact_table():
    m = MPX
    c, s, t, at = m.cos, m.sin, m.tan, m.atan
    return {
        "cos(x)": lambda x: c(x),
        "sin(x)/x": lambda x: s(x) / x,
        "x/sin(x)": lambda x: x / s(x),
        "(1 - cos(x))/x": lambda x: (1 - c(x)) / x,
        "(1 - cos(x))/x^2": lambda x: (1 - c(x)) / x ** 2,
        "(x - sin(x))/x^3": lambda x: (x - s(x)) / x ** 3,
        "(1 - x*sin(x)/(2*(1 - cos(x))))/x^2": lambda x: (1 - x * s(x) / (2 * (1 - c(x)))) / x ** 2,
        "(-x^2/2 - cos(x) + 1)/x^2": lambda x: (-x ** 2 / 2 - c(x) + 1) / x ** 2,
        "(x^2/2 + cos(x) - 1)/x^4": lambda x: (x ** 2 / 2 + c(x) - 1) / x ** 4,
        "1/x^2 + sin(x)/(2 x (cos(x) - 1))": lambda x: 1 / x ** 2 + s(x) / (2 * x * (c(x) - 1)),
        "(x^2 + 2 cos(x) - 2)/(2 x^4)": lambda x: (x ** 2 + 2 * c(x) - 2) / (2 * x ** 4),
        "(x cos(x) + 2 x - 3 sin(x))/(2 x^5)": lambda x: (x * c(x) + 2 * x - 3 * s(x)) / (2 * x ** 5),
        "(x^2 + x sin(x) + 4 cos(x) - 4)/(2 x^6)": lambda x: (x ** 2 + x * s(x) + 4 * c(x) - 4) / (2 * x ** 6),
        "(2 - 2 cos(x) - x sin(x))/(2 x^4))": lambda x: (2 - 2 * c(x) - x * s(x)) / (2 * x ** 4),
        "tan(x/4)/x": lambda x: t(x / 4) / x,
        "4 atan(x)/x": lambda x: 4 * at(x) / x,
    }


NO_FINITE_LIMIT = {"1/x^2", "(2 - x cos(x))/(2 x^2)"}


def exact_entry(key, u, squared):
    """exact value of table function `key` at argument u (for the squared tables the function of sqrt(u))"""
    f = _exact_table()[key]
    m = MPX
    uu = abs(float(u))
    tiny = uu == 0.0
    if tiny:
        uu = 1e-300  # the limit: relative change O(x^2) ~ 1e-300
    digits = max(0.0, -math.log10(uu))
    if squared:
        digits /= 2.0
    m.dps = int(120 + 8 * digits)
    x = m.mpf(float(u)) if not tiny else m.mpf(10) ** (-300)
    if squared:
        x = m.sqrt(x)
    v = f(x)
    m.dps = 60
    return +v


def explore_table(case):
    key, squared, tier, seed = case["key"], case["squared"], case["tier"], case["seed"]
    res = core.Result()
    from cyecca import symbolic
    table = symbolic.SQUARED_SERIES if squared else symbolic.SERIES
    site = ("SQUARED_SERIES" if squared else "SERIES") + "[%s]" % key
    if key not in table:
        res.count("evaluations")
        res.fail(site=site, clause="table_entry_exists", cls="-", detail={}, sub="table", case=case)
        return res
    fn = table[key]
    prog = sxvm.compile_fn(fn)
    us = [t for t in THETAS if t <= 1.0]
    if not squared:
        us = us + [-t for t in us if t > 0]
    pairs = harvest.walk(prog, lambda t: [[t]], sorted(us))
    for lo, hi in pairs:
        res.add_set("harvested_boundaries", "%s u=%r|%r" % (site, lo, hi))
        us += [lo, hi]
    if not pairs:
        res.fail(site=site, clause="has_small_argument_switch", cls="-", detail=dict(note="no branch boundary found in [-1,1]"),
                 sub="table", case=case)
    sig_seen = set()
    for u in us:
        res.count("evaluations")
        flat = [[float(u)]]
        okc, worst, outs_ca, sig = sxvm.conform(fn, prog, flat)
        res.count("traces_validated_against_impl")
        sig_seen.add(sig)
        if not okc:
            raise core.HarnessError("sxvm does not conform to CasADi on %s at %r (%.1f ulp)" % (site, u, worst))
        val_mp = sxvm.run(prog, flat, sxvm.MPF)[0][0][0]
        ex = exact_entry(key, u, squared)
        if u != 0:
            res.nontrivial.add(hash((key, squared, float(u))))
        res.outcomes.add(hash(round(float(ex), 10)))
        cls = "u=0" if u == 0 else ("series_side" if abs(u) < abs(pairs[0][0]) * 1.0000001 + 0 and pairs else "closed_form_side")
        err = abs(val_mp - ex)
        if not mpmath.isfinite(val_mp) or err > mpmath.mpf(1e-9) * max(1, abs(ex)):
            res.fail(site=site, clause="table_formula_error", cls=cls,
                     detail=dict(u=float(u), program_60digit=float(val_mp), exact=float(ex), err=float(err) if mpmath.isfinite(err) else "nan"),
                     sub="table", case=case)
        # (a) finiteness in double precision
        if not math.isfinite(outs_ca[0][0]):
            res.fail(site=site, clause="finite_in_double", cls=cls, detail=dict(u=float(u), value=outs_ca[0][0]), sub="table", case=case)
    # the table entry called with its argument in the numeric types a Python caller has at hand (exactly representable values on both sides
    # of the switch): what is accepted is evaluated in double precision
    for u in (0.5, 0.75, 2.0 ** -6, 2.0 ** -12, 2.0 ** -24):
        # (differential against the plain float call: the double round-off of the closed forms themselves is not judged here, see ASSUMPTIONS)
        try:
            ex = float(np.asarray(fn(float(u)), dtype=float).reshape(-1)[0])
        except Exception:  # noqa: BLE001
            continue
        for tname, mk in (("numpy.float64", lambda v: np.float64(v)), ("float64_array", lambda v: np.array([v])), ("float32_array", lambda v: np.array([v], dtype=np.float32)),
                          ("float16_array", lambda v: np.array([v], dtype=np.float16)), ("zero_d_float32", lambda v: np.array(v, dtype=np.float32)), ("numpy.float32", lambda v: np.float32(v)), ("DM", lambda v: ca.DM(v))):
            res.count("evaluations")
            res.nontrivial.add(hash((key, squared, u, tname)))
            try:
                got = float(np.asarray(fn(mk(u)), dtype=float).reshape(-1)[0])
            except Exception:  # noqa: BLE001 - a type the table refuses
                res.count("refused")
                continue
            if not (math.isfinite(got) and abs(got - float(ex)) <= 1e-12 * max(1.0, abs(float(ex)))):
                res.fail(site=site, clause="table_entry_in_double_precision_for_every_accepted_argument_type", cls=tname, detail=dict(u=u, argument_type=tname, got=got, float_call=float(ex)), sub="table", case=case)
    res.add_set("cells_entered", "%s:%d" % (site, len(sig_seen)))
    res.samples.append(dict(table=site, points=len(us), switch=[list(p) for p in pairs][:2]))
    return res


# ---------------------------------------------------------------------------------------------------
# (a)(b)(c) consumers in double precision against exact references
# ---------------------------------------------------------------------------------------------------
CONSUMER_GROUPS = ["SO3Quat", "SO3Mrp", "SO3Dcm", "SO3EulerB321", "SE2", "SE3Quat", "SE3Mrp", "SE23Quat", "SE23Mrp"]


def _axes(seed):
    return [np.array([0.0, 0, 1.0]), np.array([1.0, 1.0, 0]) / alpha.S2, alpha.generic_axis(seed)]


def _mk_x(AL, ax, th, tr):
    parts = []
    for s in AL:
        if s[0] == "rotvec":
            parts.append(ax * th)
        elif s[0] == "angle":
            parts.append(np.array([th]))
        else:
            v = np.array([1.0, -2.0, 3.0][: s[1]]) if s[1] <= 3 else np.ones(s[1])
            parts.append(v * (tr / max(np.linalg.norm(v), 1e-300)))
    return np.concatenate(parts)


def _ref_ad(B, x):
    na = B.na
    Ia = np.eye(na)
    basis = [B.call("wedge", Ia[:, i]) for i in range(na)]
    W = B.call("wedge", x)
    ad = np.zeros((na, na))
    for j in range(na):
        c, r = ref.solve_vee(basis, W @ basis[j] - basis[j] @ W)
        ad[:, j] = c
    return ad


def _series_J(ad, sign):
    m = ref.MP
    n = ad.shape[0]
    A = m.matrix([[m.mpf(float(sign * ad[i, j])) for j in range(n)] for i in range(n)])
    J = m.eye(n)
    term = m.eye(n)
    for k in range(1, 120):
        term = term * A / (k + 1)
        J = J + term
        if max(abs(term[i, j]) for i in range(n) for j in range(n)) < m.mpf(10) ** (-45):
            break
    return J


def explore_consumer(case):
    name, tier, seed = case["config"], case["tier"], case["seed"]
    res = core.Result()
    B = lib.built(name)
    L, AL = lib.layout(B.G), lib.alg_layout(B.G)
    for op in ("exp", "log", "to_Matrix", "wedge"):
        B.get(op)
        if B.status[op] != "ok":
            res.count("evaluations")
            res.fail(site="%s.%s" % (name, op), clause="operation_raises", cls=B.status[op], detail={}, sub="consumer", case=case)
            return res
    progs = {op: sxvm.compile_fn(B.get(op)) for op in ("exp", "log")}
    jac_ops = []
    if name in ("SO3Quat", "SE3Quat", "SE23Quat"):
        jac_ops = ["left_jacobian", "right_jacobian", "left_jacobian_inv", "right_jacobian_inv"]
        for op in jac_ops:
            B.get(op)
            progs[op] = sxvm.compile_fn(B.get(op))
    axes = (_axes(seed) + alpha.axes(seed)[7:]) if tier == "thorough" else [_axes(seed)[0], _axes(seed)[2]]
    TH = thetas(tier)
    has_tr = any(s[0] == "vec" for s in AL)
    n = B.mshape[0]
    signed = any(sl[0] == "angle" for sl in AL)
    for ax in axes:
        for tr in ([0.0, 3.0] if has_tr else [0.0]):
            ths = list(TH) + ([-t for t in TH if t > 0] if signed else [])
            # harvest the switches of every compiled function along this ray
            bpairs = []
            for op, prog in progs.items():
                if op == "log":
                    continue
                for lo, hi in harvest.walk(prog, lambda t: [list(_mk_x(AL, ax, t, tr))], sorted(TH)):
                    res.add_set("harvested_boundaries", "%s.%s theta=%r|%r" % (name, op, lo, hi))
                    bpairs.append((op, lo, hi))
                    ths += [lo, hi]
            prev = {}
            for th in sorted(set(ths)):
                x = _mk_x(AL, ax, th, tr)
                res.count("evaluations")
                if th != 0:
                    res.nontrivial.add(hash(x.tobytes() + name.encode()))
                cls = "theta=0" if th == 0 else ("theta<0" if th < 0 else ("theta<1e-100" if th < 1e-100 else ("theta<switch" if th < 0.0316 else "theta>=switch")))
                # Euler: exclusion of the gimbal band is irrelevant below 1 rad about these axes except pitch; decided by reference
                if any(s[0] == "rot" and s[1] == "Euler" for s in L) and gutil.euler_in_band(ref.rot(ax * th)):
                    res.count("excluded_by_reference")
                    continue
                W = B.call("wedge", x)
                Mref = ref.mp_to_np(ref.expm_mp(W.tolist()))
                X = B.vec("exp", x)
                MX = B.call("to_Matrix", X)
                res.outcomes.add(hash(np.round(Mref, 10).tobytes()))
                if not np.all(np.isfinite(X)) or maxabs(MX - Mref) > 1e-9:
                    res.fail(site=name + ".exp", clause="accurate_to_1e-9", cls=cls,
                             detail=dict(x=x, theta=th, err=maxabs(MX - Mref), exp=X), sub="consumer", case=case)
                xb = B.vec("log", X)
                if not np.all(np.isfinite(xb)) or maxabs(xb - x) > 1e-9:
                    res.fail(site=name + ".log", clause="accurate_to_1e-9", cls=cls,
                             detail=dict(x=x, theta=th, back=xb, err=maxabs(xb - x)), sub="consumer", case=case)
                cur = {"exp": MX}
                if jac_ops:
                    ad = _ref_ad(B, x)
                    Jl = ref.mp_to_np(_series_J(ad, +1))
                    Jr = ref.mp_to_np(_series_J(ad, -1))
                    refs = {"left_jacobian": Jl, "right_jacobian": Jr,
                            "left_jacobian_inv": np.linalg.inv(Jl), "right_jacobian_inv": np.linalg.inv(Jr)}
                    for op in jac_ops:
                        J = B.call(op, x)
                        cur[op] = J
                        if not np.all(np.isfinite(J)) or maxabs(J - refs[op]) > 1e-9 * max(1.0, maxabs(refs[op]) / 10):
                            res.fail(site="%s.%s" % (name, op), clause="accurate_to_1e-9", cls=cls,
                                     detail=dict(x=x, theta=th, err=maxabs(J - refs[op])), sub="consumer", case=case)
                prev[th] = cur
            # (c) jumps across harvested switches
            for op, lo, hi in bpairs:
                if lo in prev and hi in prev and op in prev[lo] and op in prev[hi]:
                    j = maxabs(prev[lo][op] - prev[hi][op])
                    res.count("switch_jumps_checked")
                    if j > 1e-9:
                        res.fail(site="%s.%s" % (name, op), clause="no_jump_at_switch", cls="switch",
                                 detail=dict(lo=lo, hi=hi, jump=j, axis=ax, translation=tr), sub="consumer", case=case)
    res.samples.append(dict(config=name, thetas=len(TH), axes=len(axes)))
    return res


# ---------------------------------------------------------------------------------------------------
# (e) automatic differentiation finite at and around zero
# ---------------------------------------------------------------------------------------------------
AD_THETAS = [0.0, 5e-324, 1e-200, 1e-100, 1e-20, 1e-12, 1e-8, 1e-6, 1e-4, 9.9e-4, 1e-3]


def explore_ad(case):
    name, tier, seed = case["config"], case["tier"], case["seed"]
    res = core.Result()
    B = lib.built(name)
    G = B.G
    L, AL = lib.layout(G), lib.alg_layout(G)
    x = ca.SX.sym("x", B.na)
    a = ca.SX.sym("a", B.n)
    fns = {}
    try:
        fns["exp"] = ("alg", ca.Function("dexp", [x], [ca.densify(ca.jacobian(G.algebra.elem(x).exp(G).param, x))]))
        fns["log"] = ("grp", ca.Function("dlog", [a], [ca.densify(ca.jacobian(G.elem(a).log().param, a))]))
        if name in ("SO3Quat", "SE3Quat", "SE23Quat"):
            for op in ("left_jacobian", "right_jacobian", "left_jacobian_inv", "right_jacobian_inv"):
                J = getattr(G.algebra.elem(x), op)()
                fns[op] = ("alg", ca.Function("d" + op, [x], [ca.densify(ca.jacobian(ca.vec(ca.densify(J)), x))]))
    except Exception as ex:
        res.count("evaluations")
        res.fail(site=name + ".ad", clause="operation_raises", cls=type(ex).__name__, detail=dict(msg=str(ex)[:300]), sub="ad", case=case)
        return res
    axes = _axes(seed)
    for ax in axes:
        for tr in ([0.0, 3.0] if any(s[0] == "vec" for s in AL) else [0.0]):
            for th in AD_THETAS:
                xv = _mk_x(AL, ax, th, tr)
                Xv = B.vec("exp", xv)
                for op, (kind, f) in fns.items():
                    res.count("evaluations")
                    res.nontrivial.add(hash(xv.tobytes() + op.encode() + name.encode()))
                    D = np.array(f(xv if kind == "alg" else Xv), dtype=float)
                    res.outcomes.add(hash(np.round(D, 6).tobytes()))
                    if not np.all(np.isfinite(D)):
                        res.fail(site="%s.%s" % (name, op), clause="autodiff_finite_near_zero",
                                 cls="theta=0" if th == 0 else ("0<theta<=1e-8" if th <= 1e-8 else "1e-8<theta<=1e-3"),
                                 detail=dict(x=xv, theta=th, n_nonfinite=int(np.sum(~np.isfinite(D)))), sub="ad", case=case)
                        continue
                    # "... so the functions can be linearised": the AD matrix is the derivative of the function's own values (central
                    # differences of the values that the other sub-checks compare with the exact ones; step 1e-5, tolerance 1e-5)
                    if op in ("exp", "log"):
                        arg = np.asarray(xv if kind == "alg" else Xv, dtype=float)
                        h_ = 1e-5
                        FD = np.zeros_like(D)
                        for k_ in range(arg.size):
                            e_ = np.zeros(arg.size)
                            e_[k_] = h_
                            FD[:, k_] = (B.vec(op, arg + e_) - B.vec(op, arg - e_)) / (2 * h_)
                        res.count("evaluations")
                        if np.all(np.isfinite(FD)) and maxabs(D - FD) > 1e-5 * (1 + maxabs(FD)):
                            res.fail(site="%s.%s" % (name, op), clause="autodiff_is_the_derivative_of_the_values", cls="theta=0" if th == 0 else ("0<theta<=1e-8" if th <= 1e-8 else "1e-8<theta<=1e-3"),
                                     detail=dict(x=xv, theta=th, err=maxabs(D - FD), autodiff_col0=D[:, 0], differences_col0=FD[:, 0]), sub="ad", case=case)
    res.samples.append(dict(config=name, ad_functions=sorted(fns)))
    return res


def explore_mixed(case):
    """exp_mixed / calculate_N consume three series coefficients: accuracy over the same theta lattice (theta = |w| dt, dt = 1)"""
    from . import c08
    config, tier, seed = case["config"], case["tier"], case["seed"]
    res = core.Result()
    x0 = c08.initial_states(config, seed)[1]
    p0, v0, R0 = c08.split(config, x0)
    a = np.array([1.0, -2.0, 3.0]) * (3.0 / math.sqrt(14.0))
    prog = sxvm.compile_fn(c08.fn(config))
    TH = thetas(tier)
    for ax in _axes(seed):
        ths = list(TH)
        for lo, hi in harvest.walk(prog, lambda t: [list(x0), list(a), list(ax * t), [9.8], [1.0]], sorted(TH)):
            res.add_set("harvested_boundaries", "%s theta=%r|%r" % (config, lo, hi))
            ths += [lo, hi]
        for th in sorted(set(ths)):
            for g in (0.0, 9.8):
                res.count("evaluations")
                if th > 0:
                    res.nontrivial.add(hash((config, ax.tobytes(), th, g)))
                w = ax * th
                x1 = c08.step(config, x0, a, w, g, 1.0)
                pr, vr, Rr = c08.ref_step(p0, v0, R0, a, w, g, 1.0)
                p1, v1, R1 = c08.split(config, x1)
                res.outcomes.add(hash(np.round(np.concatenate([pr, vr]), 9).tobytes()))
                err = max(maxabs(p1 - pr), maxabs(v1 - vr), ref.rot_dist(R1, Rr)) if np.all(np.isfinite(x1)) else float("inf")
                if not err <= 1e-9 * (1 + maxabs(pr) + maxabs(vr)):
                    res.fail(site=config + ".exp_mixed", clause="accurate_to_1e-9", cls="theta=0" if th == 0 else ("theta<switch" if th < 0.0316 else "theta>=switch"),
                             detail=dict(theta=th, axis=ax, g=g, err=err, x1=x1), sub="mixed", case=case)
    res.samples.append(dict(config=config, mixed_thetas=len(THETAS)))
    return res


class _SubM:
    chunks = 1

    def cases(self, tier, seed):
        return [dict(config=c, tier=tier, seed=seed) for c in ("strapdown_quat", "exp_mixed_mrp")]

    def run(self, case):
        return explore_mixed(case)


class _SubT:
    chunks = 1

    def cases(self, tier, seed):
        from cyecca import symbolic
        out = []
        for sq, table in ((False, symbolic.SERIES), (True, symbolic.SQUARED_SERIES)):
            keys = sorted(set(table.keys()) | set(_exact_table().keys()))
            for k in keys:
                if k in NO_FINITE_LIMIT:
                    continue
                if k not in _exact_table():
                    continue  # an entry added later without a reference: not judged (no finite-limit knowledge)
                out.append(dict(key=k, squared=sq, tier=tier, seed=seed))
        return out

    def run(self, case):
        return explore_table(case)


class _SubC:
    chunks = 1

    def cases(self, tier, seed):
        return [dict(config=n, tier=tier, seed=seed) for n in CONSUMER_GROUPS]

    def run(self, case):
        return explore_consumer(case)


class _SubAD:
    chunks = 1

    def cases(self, tier, seed):
        return [dict(config=n, tier=tier, seed=seed) for n in CONSUMER_GROUPS]

    def run(self, case):
        return explore_ad(case)


SUBCHECKS = {"table": _SubT(), "consumer": _SubC(), "ad": _SubAD(), "mixed": _SubM()}
REPLAY = {"table": lambda c: explore_table(c).fails, "consumer": lambda c: explore_consumer(c).fails, "ad": lambda c: explore_ad(c).fails,
          "mixed": lambda c: explore_mixed(c).fails}


# ---------------- the same small-angle inputs given as numbers (Python API), in every input form ----------------------------------
def explore_pyapi(case):
    """small and mixed-magnitude rotation vectors (one tiny component next to ordinary ones, everything tiny, exact zeros) through the
    numeric Python API: the result must equal the symbolic-Function path judged by the other sub-checks, in every input form"""
    from .. import numapi
    name, seed = case["group"], case["seed"]
    res = core.Result()
    B = lib.built(name)
    AL = lib.alg_layout(B.G)
    tiny = [np.array(v) for v in ([0.3, 4e-7, -0.2], [5e-7, 0.0, 0.0], [1e-9, 1e-3, 0.0], [0.0, 0.0, 2e-8], [9e-7, -9e-7, 9e-7], [0.0, 1e-4, 1.2], [2e-6, 3e-6, -1e-6])]
    xs = []
    for rv in tiny:
        parts = []
        for k, sl in enumerate(AL):
            if sl[0] == "rotvec":
                parts.append(rv)
            elif sl[0] == "angle":
                parts.append(np.array([rv[0] if rv[0] else rv[2]]))
            else:
                parts.append(np.array([0.7, 3e-7, -1.3, 0.4][:sl[1]]) if k % 2 == 0 else np.array([2e-7, 0.0, 5.0][:sl[1]]))
        xs.append(np.concatenate(parts))
    ops = ("exp", "wedge", "ad", "left_jacobian", "right_jacobian", "left_jacobian_inv", "right_jacobian_inv")
    for op in ops:
        B.get(op)
    numapi.check_group(res, B, [], xs, case, "pyapi", ops, tol=1e-11)
    numapi.check_forms(res, B, [], xs, case, "pyapi", ops, tol=1e-11)
    B.get("log")
    B.get("Ad")
    if B.status.get("exp") == "ok":
        elems = [B.vec("exp", x) for x in xs]
        elems = [e for e in elems if np.all(np.isfinite(e))]
        numapi.check_group(res, B, elems, [], case, "pyapi", ("log", "Ad", "to_Matrix"), tol=1e-9)
        numapi.check_forms(res, B, elems, [], case, "pyapi", ("log", "Ad", "to_Matrix"), tol=1e-9)
    for x in xs:
        res.nontrivial.add(hash((name, x.tobytes())))
    res.outcomes.add(int(res.counters.get("evaluations", 0)))
    res.samples.append(dict(group=name, small_inputs=len(xs)))
    return res


class _SubPy:
    chunks = 1

    def cases(self, tier, seed):
        return [dict(sub="pyapi", group=g, tier=tier, seed=seed) for g in ("SO3Quat", "SO3Mrp", "SO3Dcm", "SO3EulerB321", "SE3Quat", "SE3Mrp", "SE23Quat", "SE23Mrp", "SE2", "SO2")]

    def run(self, case):
        return explore_pyapi(case)


SUBCHECKS["pyapi"] = _SubPy()
REPLAY["pyapi"] = lambda c: explore_pyapi(c).fails

# results must not depend on which library calls were made earlier in the process (see mc/order.py): the series tables are process-wide
from .. import order as _order  # noqa: E402

_ORDER = _order.OrderSub("C06", "lie", lambda k: k.split('/')[-1] in ("exp", "log", "a_left_jacobian", "a_right_jacobian_inv", "from_Matrix", "Ad"))
SUBCHECKS["order"] = _ORDER
REPLAY["order"] = _ORDER.replay
