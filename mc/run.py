"""CLI:  python -m mc.run C07 [--tier quick|thorough] [--replay path] [--only sub1,sub2]"""
from __future__ import annotations

import argparse
import importlib
import json
import os
import sys
import time


def main(argv=None):
    ap = argparse.ArgumentParser()
    ap.add_argument("pid")
    ap.add_argument("--tier", default=None)
    ap.add_argument("--replay", default=None)
    ap.add_argument("--only", default=None, help="comma separated sub-check names (debugging)")
    ap.add_argument("--nproc", type=int, default=None)
    a = ap.parse_args(argv)
    tier = a.tier or os.environ.get("VERIF_TIER") or "quick"  # the command line (MANIFEST commands name their tier) wins over the environment
    if tier not in ("quick", "thorough"):
        tier = "quick"
    seed = int(os.environ.get("VERIF_SEED", "0") or 0)
    t0 = time.time()
    from . import core

    if a.nproc:
        core.NPROC = a.nproc
    pid = a.pid.upper()
    mod = importlib.import_module("mc.props." + pid.lower())

    if a.replay:
        with open(a.replay) as fh:
            rec = json.load(fh)
        fn = mod.REPLAY[rec["sub"]]
        fails = fn(rec["case"])
        hit = [f for f in fails if core.fail_key(f) == rec["key"]]
        for f in fails:
            print("replay failure:", core.fail_key(f), json.dumps(core._clean(f["detail"]))[:1000])
        if hit:
            print("VIOLATION property=%s replay=%s" % (pid, a.replay))
            return 1
        print("replay: recorded violation does not occur on this tree (%d other failures)" % len(fails))
        return 0

    total = core.Result()
    only = set(a.only.split(",")) if a.only else None
    subs = mod.SUBCHECKS
    meta = {}
    known = core.load_known(pid)
    for name, sc in subs.items():
        if only and name not in only:
            continue
        if any(core.match_known(known, f) is None for f in total.fails) and not os.environ.get("VERIF_NO_FAILFAST"):
            meta[name] = dict(units=0, wall_s=0.0, evaluations=0, skipped="an earlier sub-check already found violations")
            total.counters["capped"] = 1
            continue
        ts = time.time()
        cases = sc.cases(tier, seed)
        r = core.pmap(pid + "." + name, sc.run, cases, chunks=getattr(sc, "chunks", 1))
        for f in r.fails:
            if f.get("sub") is None:
                f["sub"] = name
        total.merge(r)
        meta[name] = dict(units=len(cases), wall_s=round(time.time() - ts, 2),
                          evaluations=int(r.counters.get("evaluations", 0)))
        if os.environ.get("VERIF_VERBOSE"):
            print("  sub %-28s units=%-6d evals=%-9d fails=%-5d %.1fs" % (
                name, len(cases), r.counters.get("evaluations", 0), len(r.fails), time.time() - ts), file=sys.stderr)
    extra = dict(subchecks=meta, bounds=mod.bounds(tier) if hasattr(mod, "bounds") else {})
    if hasattr(mod, "post"):
        mod.post(total, tier, seed)
    rule = mod.RULE
    if "order" in subs and (not only or "order" in only):
        from . import order
        rule += ("; call order: every prelude of library calls from the menu (group x operation x {structurally sparse numeric, dense numeric, symbolic} input), depth %d, each "
                 "followed by the probe battery in a process forked from a fresh interpreter (%d preludes); a state = one prelude" % (2 if tier == "thorough" else 1, len(order.menu(tier))))
    return core.finish(pid, tier, seed, mod.LEVEL, total, t0, mod.REPLAY, rule, mod.ASSUMPTIONS,
                       extra=extra, exhaustive=not (total.counters.get("capped", 0) or total.counters.get("thread_schedules_capped", 0) or total.counters.get("capped_at_runs", 0)))


if __name__ == "__main__":
    try:
        rc = main()
        sys.stdout.flush()
        sys.stderr.flush()
        os._exit(rc if isinstance(rc, int) else 0)  # verdict and evidence are written; skip interpreter finalisation (see core.pmap)
    except Exception as ex:  # noqa: BLE001 - a failure of the machinery itself: exit 2, never a VIOLATION
        from . import core as _core
        if isinstance(ex, _core.HarnessError):
            print("HARNESS-ERROR: %s" % ex)
            sys.exit(2)
        raise
