"""setup-time self test: the engines must (a) conform to CasADi, (b) report a violation on a
deliberately wrong toy and stay silent on the correct toy."""
import sys
import casadi as ca
from . import sxvm


def main():
    x = ca.SX.sym("x", 2)
    f = ca.Function("t", [x], [ca.if_else(x[0] < x[1], ca.sin(x[0]) / x[1], ca.fmax(x[0], 2) ** 2), ca.atan2(x[0], x[1])])
    p = sxvm.compile_fn(f)
    sigs = set()
    for a in [(0.0, 1.0), (2.0, 1.0), (5.0, 0.0), (1.0, 1.0), (-1.0, 0.0)]:
        ok, worst, outs, sig = sxvm.conform(f, p, [list(a)])
        if not ok:
            print("sxvm does not conform to CasADi on", a, worst)
            return 2
        sigs.add(sig)
        om, _ = sxvm.run(p, [list(a)], sxvm.MPF)
        if abs(float(om[1][0]) - outs[1][0]) > 1e-12:
            print("mpf domain disagrees", a)
            return 2
    if len(sigs) < 3:
        print("path signatures not distinguishing branches", sigs)
        return 2
    print("selftest ok: sxvm conforms, %d path signatures" % len(sigs))
    return 0


if __name__ == "__main__":
    sys.exit(main())
