"""setup-time self test: the engines must (a) conform to CasADi, (b) report a violation on a
deliberately wrong toy and stay silent on the correct toy."""
import sys
import casadi as ca
from . import sxvm


def main():
    x = ca.SX.sym("x", 2)
    f = ca.Function("t", [x], [ca.if_else(x[0] < x[1], ca.sin(x[0]) / x[1], ca.fmax(x[0], 2) ** 2), ca.atan2(x[0], x[1])])
    p = sxvm.compile_fn(f)
    sigs = set()
    for a in [(0.0, 1.0), (2.0, 1.0), (5.0, 0.0), (1.0, 1.0), (-1.0, 0.0)]:
        ok, worst, outs, sig = sxvm.conform(f, p, [list(a)])
        if not ok:
            print("sxvm does not conform to CasADi on", a, worst)
            return 2
        sigs.add(sig)
        om, _ = sxvm.run(p, [list(a)], sxvm.MPF)
        if abs(float(om[1][0]) - outs[1][0]) > 1e-12:
            print("mpf domain disagrees", a)
            return 2
    if len(sigs) < 3:
        print("path signatures not distinguishing branches", sigs)
        return 2
    # exact domain: a division by zero in an unselected branch must not poison the result, in a selected one it must
    g = ca.Function("g", [x], [ca.if_else(x[0] > 0, x[1] / x[0], 7)])
    pg = sxvm.compile_fn(g)
    from fractions import Fraction as Fr
    o, _ = sxvm.run(pg, [[Fr(0), Fr(3)]], sxvm.FRACTION)
    if o[0][0] != 7:
        print("exact domain: unselected division by zero leaked", o)
        return 2
    h = ca.Function("h", [x], [x[1] / x[0]])
    o, _ = sxvm.run(sxvm.compile_fn(h), [[Fr(0), Fr(3)]], sxvm.FRACTION)
    if o[0][0] is not sxvm.POISON:
        print("exact domain: selected division by zero not flagged", o)
        return 2
    # signature-flip bisection finds a threshold of a toy program to adjacent doubles
    from . import harvest
    import math
    t = ca.Function("t", [x], [ca.if_else(x[0] * x[0] < 1e-3, 1, 2)])
    pairs = harvest.walk(sxvm.compile_fn(t), lambda v: [[v, 0.0]], [0.0, 1e-3, 0.1, 1.0])
    if len(pairs) != 1 or not (pairs[0][0] ** 2 < 1e-3 <= pairs[0][1] ** 2) or pairs[0][1] != math.nextafter(pairs[0][0], 2.0):
        print("harvest: boundary not bracketed by adjacent doubles", pairs)
        return 2
    # schedule explorer: 3 events tied at one instant -> 1 FIFO schedule + (3-1) + (2-1) single deviations; a toy bus that drops a
    # message under a non-FIFO order must be reported, the correct toy must stay silent
    from . import sched
    import simpy

    def toy(chooser, buggy):
        sched.ControlledCore.chooser = chooser
        c = sched.ControlledCore()
        log = []

        def proc(name):
            yield simpy.Timeout(c, 1)
            if buggy and name == "b" and log and log[-1] == "c":
                return  # wrong: loses b when c fired first
            log.append(name)
        for n in "abc":
            simpy.Process(c, proc(n))
        c.run(until=2)
        sched.ControlledCore.chooser = None
        return sorted(log)
    for buggy, want_fail in ((False, False), (True, True)):
        runs = list(sched.explore(lambda ch: toy(ch, buggy), 1))
        bad = [r for r in runs if r[2] != ["a", "b", "c"]]
        if bool(bad) != want_fail or len(runs) < 4:
            print("sched explorer selftest failed: buggy=%s runs=%d bad=%d" % (buggy, len(runs), len(bad)))
            return 2
    # thread-interleaving explorer: a routine that parks a value in a shared place and reads it back is caught with one preemption,
    # a routine that keeps it local is not; the same schedule replays to the same observation
    from . import threads, _selftest_threads as tt
    for shared, want_fail in ((False, False), (True, True)):
        fns = [lambda: tt.work(3, shared), lambda: tt.work(5, shared)]
        alone = [f() for f in fns]
        runs = list(threads.explore(fns, ("_selftest_threads.py",), 1))
        bad = [r for r in runs if [x[1] for x in r[1]] != alone]
        if bool(bad) != want_fail or len(runs) < 4:
            print("thread explorer selftest failed: shared=%s runs=%d bad=%d" % (shared, len(runs), len(bad)))
            return 2
        if bad:
            again = threads.run(fns, ("_selftest_threads.py",), bad[0][0])[0]
            if again != bad[0][1]:
                print("thread explorer selftest failed: a schedule did not replay to the same observation")
                return 2
    print("selftest ok: sxvm conforms (%d path signatures), exact-domain poison, boundary harvesting, schedule explorer, thread explorer" % len(sigs))
    return 0


if __name__ == "__main__":
    sys.exit(main())
