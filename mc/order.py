"""Call-order (process-history) exploration: results must not depend on which library calls were made earlier in the process.

The library keeps process-wide objects (group singletons, module-level tables, anything a change may memoise lazily).  A check that
builds its functions once, in one fixed order, in one process, sees exactly one history.  This module enumerates *every* prelude of
library calls up to a depth from a finite menu (group x operation x kind of input: structurally sparse numeric, dense numeric,
symbolic) and, for each, runs the prelude followed by a probe (a fixed battery of evaluations) in a process whose only history is
`import`: a zygote interpreter is started fresh, imports the library, and forks once per prelude.  Oracle (differential, no
hand-written expectation): the probe results after any prelude equal the results after the empty prelude.  Two different values
for the same input cannot both satisfy a property that fixes the value, so any difference is a violation; which of the two is
the wrong one is visible in the replay file (the sub-checks that compare with the reference models run in yet another history).

Protocol: `python -m mc.order <probe>` reads one JSON list of preludes from stdin and writes one JSON line per prelude.
"""
from __future__ import annotations

import contextlib
import io
import itertools
import json
import os
import subprocess
import sys

import numpy as np

GROUPS = ["SO3Quat", "SO3Mrp", "SO3Dcm", "SO3EulerB321", "SE3Quat", "SE23Quat", "SE2", "SO2", "SE3Mrp", "SE23Mrp"]
OPS = ["to_Matrix", "from_Matrix", "inverse", "product", "log", "Ad", "g_left_jacobian", "g_right_jacobian", "convert", "exp", "ad", "a_jacobians", "vecmul"]
KINDS = ["sparse", "dense", "sym"]


# preludes that are not (group, operation, input kind): building other objects from shared pieces, deriving the model / estimator functions
EXTRA_STEPS = [("construct", "euler_groups_from_shared_sequence", "-"), ("construct", "euler_groups_fresh", "-"), ("construct", "semidirect_and_products", "-"),
               ("derive", "rdd2", "-"), ("derive", "rdd2_loglinear", "-"), ("derive", "bezier", "-"), ("derive", "quadrotor", "-"), ("derive", "estimator", "-"),
               ("derive", "mr_ref_traj", "-"),
               # life-cycle preludes: many calls with ever new numeric inputs (bounded caches fill and evict, counters run), objects copied,
               # pickled, dropped and collected, library modules re-imported, calls from another thread
               ("lifecycle", "many_calls", "-"), ("lifecycle", "copy_drop_collect", "-"), ("lifecycle", "reload", "-"), ("lifecycle", "other_thread", "-"),
               ("lifecycle", "dropped_product_groups", "-")]
# histories of the shape  A  B^n  A : the probe itself runs first, then many other calls (or object births and deaths), then the probe that
# is judged - a bounded cache that hands a recycled slot to an evicted key, or a table keyed by the address of a dead object, only shows
# when something seen before is asked for again
REVISIT = [[("lifecycle", "probe_first", "-"), ("lifecycle", "many_calls", "-")], [("lifecycle", "probe_first", "-"), ("lifecycle", "dropped_product_groups", "-")],
           [("lifecycle", "probe_first", "-"), ("lifecycle", "copy_drop_collect", "-")]]
_CURRENT_PROBE = [None]


def menu(tier):
    """list of preludes; a prelude is a list of steps (group, op, kind)"""
    steps = [(g, o, k) for g in GROUPS for o in OPS for k in KINDS]
    if tier != "thorough":
        return _menu_quick() + [[s] for s in EXTRA_STEPS] + [list(r) for r in REVISIT]
    return _menu_thorough(steps) + [[s] for s in EXTRA_STEPS] + [list(r) for r in REVISIT] + [[a, b] for a in EXTRA_STEPS for b in EXTRA_STEPS if a != b]


def _menu_thorough(steps):
    pre = [[s] for s in steps]
    core_steps = [(g, o, "sparse") for g in ("SO3Quat", "SO3Dcm", "SO3Mrp") for o in OPS]
    pre += [[a, b] for a in core_steps for b in core_steps if a != b]
    return [[]] + pre


def _menu_quick():
    pre = [[(g, o, "sparse")] for g in GROUPS for o in OPS]
    pre += [[("SO3Quat", o, k)] for o in OPS for k in ("dense", "sym")]
    pre += [[(GROUPS[(i + j) % len(GROUPS)], o, KINDS[1 + (i + j) % 2])] for i, o in enumerate(OPS) for j in (1, 4)]
    return [[]] + pre


# ---------------------------------------------------------------------------------------------------------------------------
# child side
# ---------------------------------------------------------------------------------------------------------------------------
def _lie():
    import cyecca.lie as lie
    return lie


def _group(name):
    lie = _lie()
    return getattr(lie, name)


def _ident_param(G):
    import casadi as ca
    with contextlib.redirect_stdout(io.StringIO()):
        p = G.identity().param
    return np.array(ca.evalf(ca.densify(ca.SX(p))), dtype=float).reshape(-1)


def _dense_param(G, name):
    """a generic element: exp of a generic algebra vector, numeric"""
    import casadi as ca
    n = G.algebra.n_param
    x = np.array([0.31, -0.47, 0.23, 0.4, -0.2, 0.5, 0.1, -0.3, 0.2][:n]) if n <= 9 else np.linspace(-0.4, 0.5, n)
    X = G.algebra.elem(ca.DM(x)).exp(G)
    return np.array(ca.evalf(ca.densify(ca.SX(X.param))), dtype=float).reshape(-1)


def _elem(G, name, kind):
    import casadi as ca
    if kind == "sym":
        return G.elem(ca.SX.sym("p_" + name, G.n_param))
    if kind == "dense":
        return G.elem(ca.DM(_dense_param(G, name)))
    # structurally sparse numeric: only the non-zero entries of the identity are stored
    p0 = _ident_param(G)
    p = ca.SX(G.n_param, 1)
    for i, v in enumerate(p0):
        if v != 0:
            p[i] = float(v)
    return G.elem(p)


def _alg_elem(G, kind):
    import casadi as ca
    A = G.algebra
    if kind == "sym":
        return A.elem(ca.SX.sym("x", A.n_param))
    if kind == "dense":
        return A.elem(ca.DM(np.linspace(-0.4, 0.5, A.n_param)))
    return A.elem(ca.SX(A.n_param, 1))


def do_extra(step):
    import casadi as ca
    lie = _lie()
    what, name, _ = step
    with contextlib.redirect_stdout(io.StringIO()):
        try:
            if what == "construct" and name.startswith("euler_groups"):
                from cyecca.lie.group_so3 import Axis, EulerType, SO3EulerLieGroup
                shared = lie.SO3EulerB321.sequence
                for et in (EulerType.space_fixed, EulerType.body_fixed):
                    seqs = [shared] if name.endswith("shared_sequence") else [[Axis.x, Axis.y, Axis.z], [Axis.z, Axis.x, Axis.z], [Axis.z, Axis.y, Axis.x]]  # a convention other than 3-2-1 first
                    for seq in seqs:
                        Gv = SO3EulerLieGroup(euler_type=et, sequence=seq)
                        Xv = Gv.elem(ca.DM([0.3, -0.4, 0.5]))
                        Xv.to_Matrix()
                        try:
                            Xv.log()
                            lie.SO3Quat.from_Euler(Xv)
                        except Exception:
                            pass
            elif what == "construct":
                from cyecca.lie.group_se3 import SE3LieGroup
                from cyecca.lie.group_se23 import SE23LieGroup
                base = lie.SE3Quat * lie.R3
                aug = base * lie.SO2
                aug2 = base * lie.SE2
                for Gp in (lie.SO3Quat * lie.R3, lie.SE2 * lie.SE2, lie.SO3Mrp * lie.SO3Quat, base, aug, aug2, lie.R3 * (lie.SO3Quat * lie.R3), SE3LieGroup(SO3=lie.SO3Dcm),
                           SE23LieGroup(SO3=lie.SO3EulerB321)):
                    try:
                        Xp = Gp.algebra.elem(ca.DM(np.linspace(-0.3, 0.4, Gp.algebra.n_param))).exp(Gp)
                        (Xp * Xp).log()
                        Xp.inverse().to_Matrix()
                    except Exception:
                        pass
            elif what == "derive":
                if name == "estimator":
                    from cyecca.estimate.attitude import algorithms
                    algorithms.eqs()
                elif name == "quadrotor":
                    from cyecca.models import quadrotor
                    quadrotor.derive_model()
                elif name == "mr_ref_traj":
                    from cyecca.models import mr_ref_traj
                    mr_ref_traj.derive_mr_ref_traj()
                else:
                    import importlib
                    mod = importlib.import_module("cyecca.models." + name)
                    for fn in sorted(n for n in dir(mod) if n.startswith("derive_")):
                        try:
                            getattr(mod, fn)()
                        except Exception:
                            pass
        except Exception:
            pass


def do_lifecycle(step):
    import copy
    import gc
    import importlib
    import pickle
    import threading
    import casadi as ca
    lie = _lie()
    name = step[1]

    def some_calls(n, scale=1.0):
        for k in range(n):
            for G in (lie.SO3Quat, lie.SO3Mrp, lie.SE3Quat, lie.SE23Mrp, lie.SE2):
                try:
                    x = G.algebra.elem(ca.DM(np.linspace(-0.3, 0.4, G.algebra.n_param) * scale + 1e-3 * k))
                    X = x.exp(G)
                    (X * X).log()
                    X.inverse().to_Matrix()
                    X.Ad()
                    x.ad()
                    x.to_Matrix()
                    if G is lie.SE3Quat:
                        # three more rotation angles per round through the se(3) Jacobians (more than a thousand distinct ones per prelude)
                        for s3 in (0.37, 0.61, 0.83):
                            G.algebra.elem(ca.DM(np.linspace(-0.3, 0.4, G.algebra.n_param) * scale * s3 + 1e-3 * k)).left_jacobian()
                except Exception:
                    pass
    with contextlib.redirect_stdout(io.StringIO()):
        try:
            if name == "many_calls":
                some_calls(700)
            elif name == "probe_first":
                PROBES[_CURRENT_PROBE[0]]()
            elif name == "dropped_product_groups":
                # product groups of several layouts are born, used and die one after the other (a helper that returns plain numbers)
                facs = [lie.R3, lie.SO3Quat, lie.SO3Mrp, lie.SE2, lie.SO2, lie.R2, lie.SE3Quat]
                for rnd in range(3):
                    for A in facs:
                        for B_ in facs:
                            try:
                                Gp = A * B_
                                e = Gp.identity()
                                Xp = Gp.algebra.elem(ca.DM(np.linspace(-0.3, 0.4, Gp.algebra.n_param))).exp(Gp)
                                (Xp * e).log()
                                Xp.inverse().to_Matrix()
                            except Exception:
                                pass
                            Gp = e = Xp = None
                            gc.collect()
            elif name == "copy_drop_collect":
                keep = []
                for G in (lie.SO3Quat, lie.SE3Quat, lie.SE23Mrp, lie.SO3EulerB321):
                    X = G.algebra.elem(ca.DM(np.linspace(-0.3, 0.4, G.algebra.n_param))).exp(G)
                    for fn in (copy.copy, copy.deepcopy, lambda o: pickle.loads(pickle.dumps(o))):
                        try:
                            Y = fn(X)
                            keep.append(Y)
                            Y.param[0] = 0.123
                            (Y * X).log()
                            Gc = fn(G)
                            Gc.identity()
                        except Exception:
                            pass
                del keep
                some_calls(3)
                gc.collect()
            elif name == "reload":
                for m in ("cyecca.symbolic", "cyecca.util", "cyecca.sim.msgs", "cyecca.lie.util"):
                    try:
                        importlib.reload(importlib.import_module(m))
                    except Exception:
                        pass
                some_calls(2)
            elif name == "other_thread":
                th = threading.Thread(target=lambda: some_calls(3, scale=2.0))
                th.start()
                th.join()
        except Exception:
            pass


def do_step(step):
    import casadi as ca
    lie = _lie()
    g, op, kind = step
    if g in ("construct", "derive"):
        return do_extra(step)
    if g == "lifecycle":
        return do_lifecycle(step)
    G = _group(g)
    with contextlib.redirect_stdout(io.StringIO()):
        try:
            if op in ("exp", "ad", "a_jacobians"):
                x = _alg_elem(G, kind)
                if op == "exp":
                    x.exp(G)
                elif op == "ad":
                    x.ad()
                    x.to_Matrix()
                else:
                    for nm in ("left_jacobian", "right_jacobian", "left_jacobian_inv", "right_jacobian_inv"):
                        try:
                            getattr(x, nm)()
                        except Exception:
                            pass
                return
            X = _elem(G, g, kind)
            if op == "to_Matrix":
                X.to_Matrix()
            elif op == "from_Matrix":
                if kind == "sparse":
                    G.from_Matrix(ca.SX.eye(G.matrix_shape[0]))
                else:
                    G.from_Matrix(X.to_Matrix())
            elif op == "inverse":
                X.inverse()
            elif op == "product":
                X * X
            elif op == "log":
                X.log()
            elif op == "Ad":
                X.Ad()
            elif op == "g_left_jacobian":
                X.left_jacobian()
            elif op == "g_right_jacobian":
                X.right_jacobian()
            elif op == "vecmul":
                X @ (ca.SX.sym("v", 3) if kind == "sym" else ca.DM([0.0, 0.0, 1.0]))
            elif op == "convert":
                # every conversion into and out of this SO(3) parameterisation
                names = {"SO3Quat": "Quat", "SO3Mrp": "Mrp", "SO3Dcm": "Dcm", "SO3EulerB321": "Euler"}
                if g in names:
                    for h, hn in names.items():
                        if h == g:
                            continue
                        H = _group(h)
                        for fn, arg in ((getattr(H, "from_" + names[g], None), X), (getattr(G, "from_" + hn, None), _elem(H, h, kind))):
                            if fn is not None:
                                try:
                                    fn(arg)
                                except Exception:
                                    pass
        except Exception:
            pass  # operations a group does not offer (or refuses for this input) are not part of any history


def _flat(x):
    import casadi as ca
    if isinstance(x, (list, tuple)):
        out = []
        for y in x:
            out.extend(_flat(y))
        return out
    a = np.array(ca.evalf(ca.densify(ca.SX(x))) if not isinstance(x, (ca.DM, np.ndarray, float, int)) else ca.DM(x), dtype=float).reshape(-1, order="F")
    return [float(v) for v in a]


def _fn_inputs(f, variant):
    """deterministic generic inputs for a casadi Function from its input shapes; 4-vectors named like quaternions are normalised"""
    args = []
    for i in range(f.n_in()):
        n = f.size1_in(i) * f.size2_in(i)
        base = np.array([((7 * (k + 3 * i + 1) * (variant + 2)) % 11) / 11.0 - 0.45 for k in range(n)])
        if variant == 1:
            base = -1.3 * base + 0.07
        nm = f.name_in(i)
        if n == 4 and (nm.startswith("q") or "quat" in nm):
            base = base + np.array([0.9, 0, 0, 0])
            base = base / np.linalg.norm(base)
            if variant == 1:
                base = -base
        if n == 1 and (nm in ("dt", "T", "m", "f_cut") or nm.startswith("thrust") or nm.startswith("J")):
            base = np.abs(base) + 0.5
        args.append(base.reshape(f.size1_in(i), f.size2_in(i), order="F"))
    return args


def _probe_fns(fns, out, prefix):
    import casadi as ca
    for name in sorted(fns):
        f = fns[name]
        if not isinstance(f, ca.Function):
            continue
        for variant in (0, 1):
            try:
                r = f.call([ca.DM(a) for a in _fn_inputs(f, variant)])
                vals = []
                for o in r:
                    vals.extend(float(v) for v in np.array(ca.densify(o), dtype=float).reshape(-1, order="F"))
                out["%s%s#%d" % (prefix, name, variant)] = vals
            except Exception as ex:
                out["%s%s#%d" % (prefix, name, variant)] = "raises %s" % type(ex).__name__


def probe_lie():
    """numeric-API battery over the groups: to_Matrix, product, inverse, log, Ad, Jacobians, conversions, exp"""
    import casadi as ca
    out = {}
    names = {"SO3Quat": "Quat", "SO3Mrp": "Mrp", "SO3Dcm": "Dcm", "SO3EulerB321": "Euler"}
    with contextlib.redirect_stdout(io.StringIO()):
        for g in GROUPS + ["SE3Dcm?"]:
            if g.endswith("?"):
                continue
            G = _group(g)
            n = G.algebra.n_param
            for vi, x in enumerate((np.linspace(-0.4, 0.5, n), np.linspace(0.9, -1.1, n), np.array(([0.0] * (n - 3) + [0.0, 0.0, 2.0])[-n:]))):
                key = "%s/%d/" % (g, vi)
                try:
                    X = G.algebra.elem(ca.DM(x)).exp(G)
                    p = _flat(X.param)
                    out[key + "exp"] = p
                    Y = G.elem(ca.DM(p))
                    for nm, fn in (("to_Matrix", lambda: Y.to_Matrix()), ("inverse", lambda: Y.inverse().param), ("product", lambda: (Y * Y).param), ("log", lambda: Y.log().param),
                                   ("Ad", lambda: Y.Ad()), ("g_left_jacobian", lambda: Y.left_jacobian()), ("g_right_jacobian", lambda: Y.right_jacobian()),
                                   ("from_Matrix", lambda: G.from_Matrix(Y.to_Matrix()).param), ("a_left_jacobian", lambda: G.algebra.elem(ca.DM(x)).left_jacobian()),
                                   ("a_right_jacobian_inv", lambda: G.algebra.elem(ca.DM(x)).right_jacobian_inv()), ("ad", lambda: G.algebra.elem(ca.DM(x)).ad())):
                        try:
                            r = fn()
                            if r is not None:
                                out[key + nm] = _flat(r)
                        except Exception as ex:
                            out[key + nm] = "raises %s" % type(ex).__name__
                    if g in names:
                        for h, hn in names.items():
                            if h != g:
                                fn = getattr(_group(h), "from_" + names[g], None)
                                if fn is not None:
                                    try:
                                        out[key + "to_" + hn] = _flat(fn(Y).param)
                                    except Exception as ex:
                                        out[key + "to_" + hn] = "raises %s" % type(ex).__name__
                except Exception as ex:
                    out[key + "exp"] = "raises %s" % type(ex).__name__
        # direct products built on the spot (as a caller does with `A * B`), several layouts of equal size
        lie = _lie()
        for tag, mk in (("SO3Mrp*R3", lambda: lie.SO3Mrp * lie.R3), ("R3*SO3Mrp", lambda: lie.R3 * lie.SO3Mrp), ("SO3Quat*R3", lambda: lie.SO3Quat * lie.R3), ("R3*SO3Quat", lambda: lie.R3 * lie.SO3Quat),
                        ("SE2*R3", lambda: lie.SE2 * lie.R3), ("R3*SE2", lambda: lie.R3 * lie.SE2)):
            key = "product_group:%s/" % tag
            try:
                Gp = mk()
                x = np.linspace(-0.4, 0.5, Gp.algebra.n_param)
                Xp = Gp.algebra.elem(ca.DM(x)).exp(Gp)
                out[key + "exp"] = _flat(Xp.param)
                for nm, fn in (("identity", lambda: Gp.identity().param), ("log", lambda: Xp.log().param), ("product", lambda: (Xp * Xp).param), ("inverse", lambda: Xp.inverse().param),
                               ("to_Matrix", lambda: Xp.to_Matrix()), ("times_identity", lambda: (Xp * Gp.identity()).param)):
                    try:
                        out[key + nm] = _flat(fn())
                    except Exception as ex:
                        out[key + nm] = "raises %s" % type(ex).__name__
            except Exception as ex:
                out[key + "exp"] = "raises %s" % type(ex).__name__
            Gp = Xp = None
    return out


def probe_setpoints():
    out = {}
    with contextlib.redirect_stdout(io.StringIO()):
        import cyecca.models.bezier as bz
        import cyecca.models.mr_ref_traj as mr
        import cyecca.models.rdd2 as rdd2
        import cyecca.models.rdd2_loglinear as ll
        for prefix, fn in (("rdd2.position_control/", rdd2.derive_position_control), ("rdd2.auto_level/", rdd2.derive_input_auto_level), ("rdd2.velocity/", rdd2.derive_input_velocity),
                           ("ll.outerloop/", ll.derive_outerloop_control), ("bezier.ref/", bz.derive_ref), ("bezier.dcm_to_quat/", bz.derive_dcm_to_quat),
                           ("bezier.euler_to_quat/", bz.derive_eulerB321_to_quat), ("mr_ref_traj/", mr.derive_mr_ref_traj)):
            try:
                _probe_fns(fn(), out, prefix)
            except Exception as ex:
                out[prefix] = "raises %s" % type(ex).__name__
    return out


def probe_control():
    out = {}
    with contextlib.redirect_stdout(io.StringIO()):
        import cyecca.models.rdd2 as rdd2
        import cyecca.models.rdd2_loglinear as ll
        for prefix, fn in (("rdd2.attitude_control/", rdd2.derive_attitude_control), ("rdd2.rate/", rdd2.derive_attitude_rate_control), ("rdd2.ins/", rdd2.derive_strapdown_ins_propagation),
                           ("ll.se23_error/", ll.derive_se23_error), ("ll.so3_attitude/", ll.derive_so3_attitude_control), ("rdd2.estimator/", rdd2.derive_attitude_estimator)):
            try:
                _probe_fns(fn(), out, prefix)
            except Exception as ex:
                out[prefix] = "raises %s" % type(ex).__name__
    return out


def probe_allocation():
    out = {}
    with contextlib.redirect_stdout(io.StringIO()):
        import casadi as ca
        import cyecca.models.rdd2 as rdd2
        f = rdd2.derive_control_allocation()["f_alloc"]
        demands = [(20.0, 0.25, 0.016, 8.5e-6, 30.0, [0.3, -0.2, 0.05]), (20.0, 0.25, 0.016, 8.5e-6, 75.0, [2.0, 1.0, -0.1]), (4.0, 1.0, 1.0, 1.0, 1.0, [1.0, -1.0, 1.0]),
                   (10.0, 0.1, 0.5, 1.0, -5.0, [0.0, 0.0, 0.0]), (1.0, 3.0, 0.5, 2.0, 2.0, [10.0, 10.0, 0.0])]
        for k, (Fm, l, Cm, Ct, T, M) in enumerate(demands):
            try:
                r = f.call({"F_max": Fm, "l": l, "Cm": Cm, "Ct": Ct, "T": T, "M": ca.DM(M)})
                vals = []
                for name in sorted(r):
                    vals.extend(float(v) for v in np.array(ca.densify(r[name]), dtype=float).reshape(-1, order="F"))
                out["control_allocation#%d" % k] = vals
            except Exception as ex:
                out["control_allocation#%d" % k] = "raises %s" % type(ex).__name__
    return out


def probe_quadrotor():
    out = {}
    with contextlib.redirect_stdout(io.StringIO()):
        import casadi as ca
        import cyecca.models.quadrotor as quad
        model = quad.derive_model()
        fns = {k: v for k, v in model.items() if isinstance(v, ca.Function)}
        # the model's own default parameters and initial state, two control / state variants
        p = np.array([model["p_defaults"][str(model["p"][i])] for i in range(model["p"].shape[0])], dtype=float) if "p_defaults" in model else None
        for name in sorted(fns):
            f = fns[name]
            for variant in (0, 1):
                args = _fn_inputs(f, variant)
                for i in range(f.n_in()):
                    if f.name_in(i) == "p" and p is not None:
                        args[i] = p.reshape(-1, 1)
                    if f.name_in(i) == "x":
                        x = args[i].reshape(-1)
                        x0 = model.get("x0_defaults")
                        args[i] = x.reshape(-1, 1)
                try:
                    r = f.call([ca.DM(a) for a in args])
                    vals = []
                    for o in r:
                        vals.extend(float(v) for v in np.array(ca.densify(o), dtype=float).reshape(-1, order="F"))
                    out["quadrotor.%s#%d" % (name, variant)] = vals
                except Exception as ex:
                    out["quadrotor.%s#%d" % (name, variant)] = "raises %s" % type(ex).__name__
    return out


PROBES = dict(lie=probe_lie, setpoints=probe_setpoints, control=probe_control, quadrotor=probe_quadrotor, allocation=probe_allocation)


def child_main(probe):
    with contextlib.redirect_stdout(io.StringIO()):
        import casadi  # noqa: F401
        import cyecca.lie  # noqa: F401
        if probe != "lie":
            import cyecca.models.bezier  # noqa: F401
            import cyecca.models.quadrotor  # noqa: F401
            import cyecca.models.rdd2  # noqa: F401
            import cyecca.models.rdd2_loglinear  # noqa: F401
    preludes = json.loads(sys.stdin.read())
    _CURRENT_PROBE[0] = probe
    real_out = os.fdopen(os.dup(1), "w")
    for pre in preludes:
        r, w = os.pipe()
        pid = os.fork()
        if pid == 0:
            os.close(r)
            try:
                for st in pre:
                    do_step(tuple(st))
                res = PROBES[probe]()
                data = json.dumps(dict(prelude=pre, result=res))
            except BaseException as ex:  # noqa: BLE001
                data = json.dumps(dict(prelude=pre, error="%s: %s" % (type(ex).__name__, str(ex)[:300])))
            with os.fdopen(w, "w") as fw:
                fw.write(data)
            os._exit(0)
        os.close(w)
        with os.fdopen(r) as fr:
            data = fr.read()
        os.waitpid(pid, 0)
        real_out.write((data or json.dumps(dict(prelude=pre, error="no output"))) + "\n")
        real_out.flush()


# ---------------------------------------------------------------------------------------------------------------------------
# parent side
# ---------------------------------------------------------------------------------------------------------------------------
def run_preludes(probe, preludes):
    """-> list of dict(prelude, result | error) from a fresh zygote interpreter"""
    env = dict(os.environ)
    p = subprocess.run([sys.executable, "-W", "ignore", "-m", "mc.order", probe], input=json.dumps(preludes), capture_output=True, text=True, env=env,
                       cwd=os.path.dirname(os.path.dirname(os.path.abspath(__file__))))
    out = []
    for line in p.stdout.splitlines():
        line = line.strip()
        if line.startswith("{"):
            out.append(json.loads(line))
    if len(out) != len(preludes):
        from . import core
        raise core.HarnessError("order zygote returned %d of %d results: %s" % (len(out), len(preludes), p.stderr[-400:]))
    return out


def differs(a, b, tol=1e-12):
    if isinstance(a, str) or isinstance(b, str):
        return a != b
    if len(a) != len(b):
        return True
    for x, y in zip(a, b):
        if x != x and y != y:
            continue
        if x != x or y != y:
            return True
        if x == y:
            continue
        if abs(x - y) > tol * (1 + abs(y)):
            return True
    return False


class OrderSub:
    """sub-check object: .cases / .run for a property module.  keys: only probe entries whose name passes `select` are judged"""
    chunks = 1

    def __init__(self, pid, probe, select=None, site="call_order", nchunks=14):
        self.pid, self.probe, self.select, self.site, self.nchunks = pid, probe, select or (lambda k: True), site, nchunks

    def cases(self, tier, seed):
        n = len(menu(tier))
        k = self.nchunks if tier != "thorough" else 4 * self.nchunks
        return [dict(sub="order", tier=tier, part=i, nparts=k) for i in range(min(k, n))]

    def run(self, case):
        from . import core
        res = core.Result()
        pres = menu(case["tier"])
        mine = pres[1:][case["part"]::case["nparts"]]
        outs = run_preludes(self.probe, [[]] + mine)
        base = outs[0]
        if "error" in base or not base["result"]:
            raise core.HarnessError("order probe %s failed on the empty history: %s" % (self.probe, base.get("error")))
        keys = [k for k in sorted(base["result"]) if self.select(k)]
        if not keys:
            raise core.HarnessError("order probe %s: no entries selected" % self.probe)
        nnum = sum(1 for k in keys if not isinstance(base["result"][k], str))
        if nnum < min(6, len(keys)):
            raise core.HarnessError("order probe %s: only %d of %d selected entries evaluate on the empty history" % (self.probe, nnum, len(keys)))
        res.count("probe_entries_numeric", nnum)
        res.count("probe_entries", len(keys))
        for o in outs[1:]:
            res.count("evaluations", len(keys))
            res.count("states")
            res.count("transitions", len(o["prelude"]))
            res.count("traces_validated_against_impl")
            res.nontrivial.add(hash(json.dumps(o["prelude"])))
            if "error" in o:
                res.fail(site=self.site, clause="result_independent_of_earlier_calls_in_process", cls="probe_raises", detail=dict(prelude=o["prelude"], error=o["error"]), sub="order", case=case)
                continue
            bad = [k for k in keys if differs(o["result"].get(k, "missing"), base["result"][k])]
            res.outcomes.add(hash(tuple(bad)))
            if bad:
                k = bad[0]
                res.fail(site=self.site, clause="result_independent_of_earlier_calls_in_process", cls=k.split("#")[0].split("/")[-1] if "/" in k else k.split("#")[0],
                         detail=dict(prelude=o["prelude"], entry=k, after_prelude=o["result"].get(k, "missing"), fresh_process=base["result"][k], entries_differing=len(bad)), sub="order", case=case)
        res.samples.append(dict(probe=self.probe, preludes=len(mine), entries=len(keys)))
        return res

    def replay(self, case):
        return self.run(case).fails


if __name__ == "__main__":
    child_main(sys.argv[1])
