"""Direct numeric use of the Python API (elements built from DM values, no casadi.Function in between) and object reuse.

The other explorers evaluate the library through casadi Functions built once from symbolic elements.  Users also call the API with
numeric parameters and keep element objects around; bugs that live in that path (structural-zero handling of numeric SX constants,
caches keyed on printed values, in-place mutation of arguments, stale per-object state after `param` is reassigned) are invisible to a
Function built once.  For every operation and every alphabet element this module checks, on the real objects:

  N1  numeric-path result == symbolic-Function result of the same operation (the latter is judged against the reference models elsewhere);
  N2  the call does not mutate its arguments (parameters bit-identical before / after);
  N3  calling again on the same element objects gives the same result (reuse);
  N4  after `X.param = p2` the element behaves like a fresh element of p2 (no stale per-object state);
  N5  an input that differs from a previous one only in the 9th significant digit gets its own result (no value-keyed cache collision).
"""
from __future__ import annotations

import contextlib
import io

import casadi as ca
import math

import numpy as np

from .gutil import maxabs


def ev(x):
    """numeric value of a constant SX / DM expression as a float array"""
    if isinstance(x, ca.DM):
        return np.array(x, dtype=float)
    return np.array(ca.evalf(ca.densify(x)), dtype=float)


def _same(a, b, tol=1e-12):
    a, b = np.asarray(a, dtype=float), np.asarray(b, dtype=float)
    if a.shape != b.shape:
        return False, float("inf")
    if not (np.all(np.isfinite(a)) and np.all(np.isfinite(b))):
        return bool(np.array_equal(np.isnan(a), np.isnan(b)) and np.array_equal(np.nan_to_num(a), np.nan_to_num(b))), float("nan")
    sc = 1.0 + maxabs(b)
    err = maxabs(a - b) / sc
    return err <= tol, err


def group_ops(B):
    """op name -> (kinds of arguments, python callable on element objects) for the operations the group offers"""
    G, A = B.G, B.G.algebra
    ops = {
        "product": (("g", "g"), lambda X, Y: (X * Y).param),
        "inverse": (("g",), lambda X: X.inverse().param),
        "to_Matrix": (("g",), lambda X: X.to_Matrix()),
        "log": (("g",), lambda X: X.log().param),
        "Ad": (("g",), lambda X: X.Ad()),
        "exp": (("a",), lambda x: x.exp(G).param),
        "ad": (("a",), lambda x: x.ad()),
        "wedge": (("a",), lambda x: x.to_Matrix()),
        "bracket": (("a", "a"), lambda x, y: (x * y).param),
        "left_jacobian": (("a",), lambda x: x.left_jacobian()),
        "right_jacobian": (("a",), lambda x: x.right_jacobian()),
        "left_jacobian_inv": (("a",), lambda x: x.left_jacobian_inv()),
        "right_jacobian_inv": (("a",), lambda x: x.right_jacobian_inv()),
        "g_left_jacobian": (("g",), lambda X: X.left_jacobian()),
        "g_right_jacobian": (("g",), lambda X: X.right_jacobian()),
    }
    return {k: v for k, v in ops.items() if B.get(k) is not None}


FORMS = ["sx", "sparse", "expr"]  # "expr_sum" perturbs the numbers by one rounding and is only used where the map is continuous


def eval_form(G, A, kind, fn, args, form):
    """evaluate fn on elements whose parameters carry the same numbers in another legitimate form:
    sx        numeric SX instead of DM
    sparse    SX in which the zero entries are structural zeros
    expr      the parameter is an expression 0.5 * s of a symbol (evaluated at s = 2 p through a casadi Function)
    expr_sum  the parameter is s + t with t a second symbol (evaluated at s = p - 1, t = 1)"""
    mk = (lambda par: G.elem(par)) if kind == "g" else (lambda par: A.elem(par))
    if form == "sx":
        return ev(fn(*[mk(ca.SX(ca.DM(p))) for p in args]))
    if form == "sparse":
        objs = []
        for p in args:
            par = ca.SX(len(p), 1)
            for i, v in enumerate(p):
                if v != 0:
                    par[i] = float(v)
            objs.append(mk(par))
        return ev(fn(*objs))
    syms, objs, vals = [], [], []
    for i, p in enumerate(args):
        n = len(p)
        s_ = ca.SX.sym("s%d" % i, n)
        if form == "expr":
            objs.append(mk(0.5 * s_))
            syms.append(s_)
            vals.append(ca.DM(2.0 * np.asarray(p, dtype=float)))
        else:
            t_ = ca.SX.sym("t%d" % i, n)
            objs.append(mk(s_ + t_))
            syms += [s_, t_]
            vals += [ca.DM(np.asarray(p, dtype=float) - 1.0), ca.DM(np.ones(n))]
    f = ca.Function("form", syms, [ca.densify(ca.SX(fn(*objs)))])
    return np.array(f.call(vals)[0], dtype=float)


def check_forms(res, B, elems, xs, case, sub, ops_wanted, tol=1e-11, forms=None):
    """N7: the result does not depend on the form in which the same numbers are supplied (see eval_form)"""
    G, A = B.G, B.G.algebra
    ops = {k: v for k, v in group_ops(B).items() if k in ops_wanted}
    for op, (kinds, fn) in ops.items():
        if len(set(kinds)) != 1:
            continue
        pool = elems if kinds[0] == "g" else xs
        for i, p in enumerate(pool):
            args = (p,) if len(kinds) == 1 else (p, pool[(i + 1) % len(pool)])
            if not all(np.all(np.isfinite(a)) for a in args):
                continue
            want = None
            for form in (forms or FORMS):
                if form == "sparse" and all(np.all(np.asarray(a) != 0) for a in args):
                    continue
                if form == "expr_sum" and maxabs(np.concatenate([np.asarray(a, dtype=float) for a in args])) > 1e6:
                    continue  # p - 1 + 1 is not p in double for huge components
                res.count("evaluations")
                res.count("input_form_calls")
                try:
                    with contextlib.redirect_stdout(io.StringIO()):
                        got = eval_form(G, A, kinds[0], fn, args, form)
                except NotImplementedError:
                    continue
                except Exception as ex:
                    res.fail(site="%s.%s" % (B.name, op), clause="numeric_api:call_raises", cls="form=" + form, detail=dict(args=[np.asarray(a) for a in args], error="%s: %s" % (type(ex).__name__, str(ex)[:200])),
                             sub=sub, case=case)
                    continue
                if want is None:
                    want = B.call(op, *args)
                t = tol if form != "expr_sum" else max(tol, 1e-9)
                ok, err = _same(got.reshape(want.shape) if got.size == want.size else got, want, t)
                if not ok:
                    res.fail(site="%s.%s" % (B.name, op), clause="numeric_api:result_independent_of_input_form", cls="form=" + form,
                             detail=dict(op=op, args=[np.asarray(a) for a in args], got=got, want=want, err=err), sub=sub, case=case)


def check_composed(res, B, elems, xs, case, sub, tol=1e-9, firsts=None, seconds=None):
    """N8: symbolic composition.  Users feed the symbolic result of one library call into the next and compile the whole expression once;
    the other explorers pass numbers between calls.  For every ordered pair (first, second) of compatible operations one casadi Function is
    built from second(first(symbolic element)) and compared, on every alphabet member, with the stepwise evaluation second(first(p))
    through the single-operation Functions (judged against the references elsewhere).  Differential oracle."""
    G, A = B.G, B.G.algebra
    # operation -> (argument kind, result kind, python callable on element objects)
    prod_with = {}
    table = {
        "exp": ("a", "g", lambda x: x.exp(G)),
        "log": ("g", "a", lambda X: X.log()),
        "inverse": ("g", "g", lambda X: X.inverse()),
        "square": ("g", "g", lambda X: X * X),
        "neg": ("a", "a", lambda x: -x),
        "to_Matrix": ("g", "M", lambda X: X.to_Matrix()),
        "Ad": ("g", "M", lambda X: X.Ad()),
        "ad": ("a", "M", lambda x: x.ad()),
        "wedge": ("a", "M", lambda x: x.to_Matrix()),
        "left_jacobian": ("a", "M", lambda x: x.left_jacobian()),
        "g_right_jacobian": ("g", "M", lambda X: X.right_jacobian()),
        "param_g": ("g", "M", lambda X: X.param),
        "param_a": ("a", "M", lambda x: x.param),
    }
    stepwise = {"exp": "exp", "log": "log", "inverse": "inverse", "to_Matrix": "to_Matrix", "Ad": "Ad", "ad": "ad", "wedge": "wedge", "left_jacobian": "left_jacobian",
                "g_right_jacobian": "g_right_jacobian"}

    def step_num(op, p):
        if op == "square":
            return B.call("product", p, p)
        if op == "neg":
            return -np.asarray(p, dtype=float)
        if op in ("param_g", "param_a"):
            return np.asarray(p, dtype=float)
        return B.call(stepwise[op], p)
    def offered(op):
        nm = {"square": "product", "neg": None, "param_g": None, "param_a": None}.get(op, stepwise.get(op))
        if nm is None:
            return True
        B.get(nm)
        return B.status.get(nm) == "ok"
    firsts = [o for o in (firsts or ["exp", "log", "inverse", "square", "neg"]) if offered(o)]
    seconds = [o for o in (seconds or ["exp", "log", "inverse", "to_Matrix", "Ad", "ad", "wedge", "left_jacobian", "g_right_jacobian", "param_g", "param_a"]) if offered(o)]
    for f1 in firsts:
        k1, r1, fn1 = table[f1]
        for f2 in seconds:
            k2, r2, fn2 = table[f2]
            if k2 != r1 or (f1, f2) in (("neg", "param_a"),):
                continue
            sym = ca.SX.sym("p", B.n if k1 == "g" else B.na)
            try:
                with contextlib.redirect_stdout(io.StringIO()):
                    e0 = G.elem(sym) if k1 == "g" else A.elem(sym)
                    out = fn2(fn1(e0))
                    if out is None:
                        continue
                    if hasattr(out, "param"):
                        out = out.param
                    F = ca.Function("composed", [sym], [ca.densify(ca.SX(out))])
            except NotImplementedError:
                continue
            except Exception as ex:
                res.count("evaluations")
                res.fail(site="%s.%s" % (B.name, f2), clause="numeric_api:call_raises", cls="composed_after_" + f1, detail=dict(error="%s: %s" % (type(ex).__name__, str(ex)[:200])), sub=sub, case=case)
                continue
            pool = elems if k1 == "g" else xs
            for p in pool:
                res.count("evaluations")
                res.count("composed_calls")
                try:
                    mid = step_num(f1, p).reshape(-1)
                    if not np.all(np.isfinite(mid)):
                        continue
                    want = step_num(f2, mid)
                except RuntimeError:
                    continue  # operation not offered numerically either
                got = np.array(F(ca.DM(np.asarray(p, dtype=float))), dtype=float)
                ok, err = _same(got.reshape(want.shape) if got.size == want.size else got, want, tol)
                if not ok:
                    res.fail(site="%s.%s" % (B.name, f2), clause="numeric_api:symbolic_composition_equals_stepwise_evaluation", cls="composed_after_" + f1,
                             detail=dict(first=f1, second=f2, x=np.asarray(p), composed=got, stepwise=want, err=err), sub=sub, case=case)
                    break


def check_aliasing(res, B, elems, xs, case, sub, ops_wanted, tol=1e-11):
    """N9 / N10: several objects alive at once.
    N9  two elements built one after the other from ONE SX work vector that is refilled in place (`buf[i] = ...`) - the first element
        must keep its own value;
    N10 the result of an operation on A is kept (as an SX, not yet evaluated) while the same operation is applied to B, and evaluated
        afterwards; and one casadi Function with the two outputs [op(A), op(B)] - each result must be the one of its own argument
        (work matrices stored on the group / class, mutable default arguments)."""
    G, A = B.G, B.G.algebra
    ops = {k: v for k, v in group_ops(B).items() if k in ops_wanted and len(v[0]) == 1}
    if "exp_to_Matrix" in ops_wanted and B.get("exp") is not None and B.get("to_Matrix") is not None:
        ops["exp_to_Matrix"] = (("a",), lambda x: x.exp(G).to_Matrix())  # the matrix form of exp(x): two of them alive at once

    def mk(kind, par):
        return G.elem(par) if kind == "g" else A.elem(par)

    class _Call:
        @staticmethod
        def call(op, p):
            if op == "exp_to_Matrix":
                return B.call("to_Matrix", B.vec("exp", p))
            return B.call(op, p)
    Bc = _Call

    for op, (kinds, fn) in ops.items():
        kind = kinds[0]
        pool = elems if kind == "g" else xs
        if len(pool) < 2:
            continue
        for i in range(len(pool)):
            pa, pb = np.asarray(pool[i], dtype=float), np.asarray(pool[(i + 1) % len(pool)], dtype=float)
            if np.array_equal(pa, pb) or not (np.all(np.isfinite(pa)) and np.all(np.isfinite(pb))):
                continue
            res.count("evaluations", 3)
            res.count("aliasing_calls", 3)
            try:
                want_a, want_b = Bc.call(op, pa), Bc.call(op, pb)
            except RuntimeError:
                break
            if not (np.all(np.isfinite(want_a)) and np.all(np.isfinite(want_b))):
                continue
            try:
                with contextlib.redirect_stdout(io.StringIO()):
                    # N9: one work vector, refilled in place
                    buf = ca.SX(len(pa), 1)
                    for k, v in enumerate(pa):
                        buf[k] = float(v)
                    ea = mk(kind, buf)
                    for k, v in enumerate(pb):
                        buf[k] = float(v)
                    eb = mk(kind, buf)
                    got9a, got9b = ev(fn(ea)), ev(fn(eb))
                    # N10: both results alive before either is evaluated
                    fa, fb = mk(kind, ca.DM(pa)), mk(kind, ca.DM(pb))
                    ra = fn(fa)
                    rb = fn(fb)
                    got10a, got10b = ev(ra), ev(rb)
                    sa, sb = ca.SX.sym("a", len(pa)), ca.SX.sym("b", len(pb))
                    o1 = fn(mk(kind, sa))
                    o2 = fn(mk(kind, sb))
                    F2 = ca.Function("two", [sa, sb], [ca.densify(ca.SX(o1)), ca.densify(ca.SX(o2))])
                    t1, t2 = [np.array(x, dtype=float) for x in F2(ca.DM(pa), ca.DM(pb))]
            except NotImplementedError:
                break
            except Exception as ex:
                res.fail(site="%s.%s" % (B.name, op), clause="numeric_api:call_raises", cls="aliasing", detail=dict(a=pa, b=pb, error="%s: %s" % (type(ex).__name__, str(ex)[:200])), sub=sub, case=case)
                break
            for clause, got, want, which in (("numeric_api:element_keeps_its_value_when_the_callers_buffer_is_refilled", got9a, want_a, "first"),
                                             ("numeric_api:element_keeps_its_value_when_the_callers_buffer_is_refilled", got9b, want_b, "second"),
                                             ("numeric_api:results_of_two_calls_are_independent_objects", got10a, want_a, "first"),
                                             ("numeric_api:results_of_two_calls_are_independent_objects", got10b, want_b, "second"),
                                             ("numeric_api:results_of_two_calls_are_independent_objects", t1, want_a, "first_output_of_one_function"),
                                             ("numeric_api:results_of_two_calls_are_independent_objects", t2, want_b, "second_output_of_one_function")):
                ok, err = _same(got.reshape(want.shape) if got.size == want.size else got, want, tol)
                if not ok:
                    res.fail(site="%s.%s" % (B.name, op), clause=clause, cls=which, detail=dict(op=op, a=pa, b=pb, got=got, want=want, err=err), sub=sub, case=case)
                    break


def check_spellings(res, B, elems, xs, case, sub, tol=1e-11):
    """N11: every public spelling of an operation gives the result of the spelling the other explorers use (element methods through
    casadi Functions): the group / algebra level functions (`G.product(X, Y)`, `G.log(X)`, `G.exp(x)`, `A.bracket(x, y)`, ...), the
    operators (`X + x`, `X - x`, `x + y`, `x - y`, `-x`, `2 * x`, `x * 2`, `X == Y`), `identity()` against the element of the identity
    parameters, `wedge` / `vee`, and shallow / deep copies and pickles of elements."""
    import copy
    from . import gutil, lib
    G, A = B.G, B.G.algebra
    L_ = lib.layout(G)
    for op in ("product", "inverse", "log", "exp", "to_Matrix", "Ad", "ad", "wedge", "bracket", "identity"):
        B.get(op)
    have = lambda op: B.status.get(op) == "ok"  # noqa: E731

    def E(p):
        return G.elem(ca.DM(p))

    def a(p):
        return A.elem(ca.DM(p))

    def judge(name, fn, want, info):
        res.count("evaluations")
        res.count("spelling_calls")
        try:
            with contextlib.redirect_stdout(io.StringIO()):
                got = fn()
        except NotImplementedError:
            return
        except Exception as ex:
            res.fail(site="%s.%s" % (B.name, name), clause="numeric_api:alternative_spelling_raises", cls=name, detail=dict(info, error="%s: %s" % (type(ex).__name__, str(ex)[:200])), sub=sub, case=case)
            return
        if got is None:
            return
        if hasattr(got, "param"):
            got = got.param
        got = ev(got)
        ok, err = _same(got.reshape(np.shape(want)) if got.size == np.size(want) else got, want, tol)
        if not ok:
            res.fail(site="%s.%s" % (B.name, name), clause="numeric_api:alternative_spelling_agrees", cls=name, detail=dict(info, got=got, want=want, err=err), sub=sub, case=case)

    for i, p in enumerate(elems):
        q = elems[(i + 1) % len(elems)]
        info = dict(X=np.asarray(p))
        if have("inverse"):
            judge("G.inverse(X)", lambda: G.inverse(E(p)), B.call("inverse", p), info)
        if have("to_Matrix"):
            judge("G.to_Matrix(X)", lambda: G.to_Matrix(E(p)), B.call("to_Matrix", p), info)
            for cname, cp in (("copy.copy", copy.copy), ("copy.deepcopy", copy.deepcopy)):  # (CasADi refuses to pickle SX outside its own context)
                judge("%s(X).to_Matrix()" % cname, lambda cp=cp: cp(E(p)).to_Matrix(), B.call("to_Matrix", p), info)
        if have("Ad"):
            judge("G.adjoint(X)", lambda: G.adjoint(E(p)), B.call("Ad", p), info)
        if have("log"):
            w_ = B.call("log", p)
            if np.all(np.isfinite(w_)):
                judge("G.log(X)", lambda: G.log(E(p)), w_, info)
        # copies of an element (a copy brings a copy of its group along) through the method AND through the module-level group's functions
        for cname, cp in (("copy.copy", copy.copy), ("copy.deepcopy", copy.deepcopy)):
            for opn, meth, gfn in (("inverse", lambda X: X.inverse().param, lambda X: G.inverse(X).param), ("Ad", lambda X: X.Ad(), lambda X: G.adjoint(X)),
                                   ("log", lambda X: X.log().param, lambda X: G.log(X).param), ("g_left_jacobian", lambda X: X.left_jacobian(), lambda X: G.left_jacobian(X)),
                                   ("g_right_jacobian", lambda X: X.right_jacobian(), lambda X: G.right_jacobian(X))):
                if not have(opn):
                    continue
                try:
                    w_ = B.call(opn, p)
                except Exception:  # noqa: BLE001
                    continue
                if not np.all(np.isfinite(w_)):
                    continue
                judge("%s(X).%s()" % (cname, opn), lambda cp=cp, meth=meth: meth(cp(E(p))), w_, info)
                judge("G.%s(%s(X))" % (opn, cname), lambda cp=cp, gfn=gfn: gfn(cp(E(p))), w_, info)
        if have("product") and not np.array_equal(p, q) and gutil.product_excluded(L_, p, q) is None:
            w_ = B.call("product", p, q)
            judge("G.product(X, Y)", lambda: G.product(E(p), E(q)), w_, dict(info, Y=np.asarray(q)))
            judge("G.product(left=X, right=Y)", lambda: G.product(left=E(p), right=E(q)), w_, dict(info, Y=np.asarray(q)))

            def imul(p=p, q=q):
                Xo = E(p)
                Xo *= E(q)  # augmented assignment
                return Xo
            judge("X *= Y", imul, w_, dict(info, Y=np.asarray(q)))
        judge("X == X", lambda: E(p) == E(p), np.array([[1.0]]), info)
        if not np.array_equal(p, q):
            judge("X == Y", lambda: E(p) == E(q), np.array([[0.0]]), dict(info, Y=np.asarray(q)))
    if have("identity"):
        pid_ = B.vec("identity")
        if have("to_Matrix"):
            judge("identity().to_Matrix()", lambda: G.identity().to_Matrix(), B.call("to_Matrix", pid_), dict())
        if have("product") and elems:
            judge("identity() * X", lambda: G.identity() * E(elems[0]), B.call("product", pid_, elems[0]), dict(X=np.asarray(elems[0])))
    for i, x in enumerate(xs):
        y = xs[(i + 1) % len(xs)]
        info = dict(x=np.asarray(x))
        x_ = np.asarray(x, dtype=float)
        y_ = np.asarray(y, dtype=float)
        if have("exp"):
            w_ = B.call("exp", x)
            if np.all(np.isfinite(w_)):
                judge("G.exp(x)", lambda: G.exp(a(x)), w_, info)
                if elems and have("product"):
                    X0 = elems[i % len(elems)]
                    if gutil.product_excluded(L_, X0, w_.reshape(-1)) is None:
                        judge("X + x", lambda: E(X0) + a(x), B.call("product", X0, w_.reshape(-1)), dict(info, X=np.asarray(X0)))
                    wm = B.call("exp", -x_)
                    if np.all(np.isfinite(wm)) and gutil.product_excluded(L_, X0, wm.reshape(-1)) is None:
                        judge("X - x", lambda: E(X0) - a(x), B.call("product", X0, wm.reshape(-1)), dict(info, X=np.asarray(X0)))
        if have("ad"):
            judge("A.adjoint(x)", lambda: A.adjoint(a(x)), B.call("ad", x), info)
        if have("wedge"):
            judge("A.to_Matrix(x)", lambda: A.to_Matrix(a(x)), B.call("wedge", x), info)
            judge("A.wedge(p).to_Matrix()", lambda: A.wedge(ca.DM(x_)).to_Matrix(), B.call("wedge", x), info)
        judge("x.vee()", lambda: a(x).vee(), x_.reshape(-1, 1), info)
        judge("A.vee(x)", lambda: A.vee(a(x)), x_.reshape(-1, 1), info)
        if have("bracket") and not np.array_equal(x_, y_):
            judge("A.bracket(x, y)", lambda: A.bracket(a(x), a(y)), B.call("bracket", x, y), dict(info, y=y_))
            judge("A.bracket(left=x, right=y)", lambda: A.bracket(left=a(x), right=a(y)), B.call("bracket", x, y), dict(info, y=y_))
        for name, fn, want in (("x + y", lambda: a(x) + a(y), x_ + y_), ("x - y", lambda: a(x) - a(y), x_ - y_), ("-x", lambda: -a(x), -x_), ("2 * x", lambda: 2 * a(x), 2 * x_),
                               ("x * 2", lambda: a(x) * 2, 2 * x_), ("0.5 * x", lambda: 0.5 * a(x), 0.5 * x_), ("A.addition(x, y)", lambda: A.addition(a(x), a(y)), x_ + y_),
                               ("A.scalar_multiplication(3, x)", lambda: A.scalar_multiplication(3, a(x)), 3 * x_), ("x == x", lambda: a(x) == a(x), np.array([[1.0]])),
                               ("copy.deepcopy(x).param", lambda: copy.deepcopy(a(x)), x_), ("copy.copy(x).param", lambda: copy.copy(a(x)), x_)):
            judge(name, fn, np.asarray(want, dtype=float).reshape(-1, 1) if np.size(want) > 1 else np.asarray(want, dtype=float), dict(info, y=y_))


def check_symbol_names(res, B, elems, xs, case, sub, ops_wanted, tol=1e-11):
    """N12: two DIFFERENT casadi symbols that carry the SAME NAME (`ca.SX.sym("q", n)` called twice - the usual way to build two elements)
    are different variables: one Function of both, [op(elem(a)), op(elem(b))] and the binary operations op(elem(a), elem(b)), evaluated at
    different values, gives each element its own result (tables or caches keyed on the printed form / the name merge them)."""
    G, A = B.G, B.G.algebra
    ops = {k: v for k, v in group_ops(B).items() if k in ops_wanted}

    def mk(kind, par):
        return G.elem(par) if kind == "g" else A.elem(par)
    for op, (kinds, fn) in ops.items():
        kind = kinds[0]
        pool = elems if kind == "g" else xs
        if len(pool) < 2 or len(set(kinds)) != 1:
            continue
        for i in range(min(len(pool), 6)):
            pa, pb = np.asarray(pool[i], dtype=float), np.asarray(pool[(i + 1) % len(pool)], dtype=float)
            if np.array_equal(pa, pb) or not (np.all(np.isfinite(pa)) and np.all(np.isfinite(pb))):
                continue
            for nm in ("q", "x", "X"):
                res.count("evaluations")
                res.count("same_name_symbol_calls")
                sa, sb = ca.SX.sym(nm, len(pa)), ca.SX.sym(nm, len(pb))
                try:
                    with contextlib.redirect_stdout(io.StringIO()):
                        if len(kinds) == 1:
                            F = ca.Function("two", [sa, sb], [ca.densify(ca.SX(fn(mk(kind, sa)))), ca.densify(ca.SX(fn(mk(kind, sb))))])
                            got = [np.array(v, dtype=float) for v in F(ca.DM(pa), ca.DM(pb))]
                            want = [B.call(op, pa), B.call(op, pb)]
                        else:
                            F = ca.Function("bin", [sa, sb], [ca.densify(ca.SX(fn(mk(kind, sa), mk(kind, sb))))])
                            got = [np.array(F(ca.DM(pa), ca.DM(pb)), dtype=float)]
                            want = [B.call(op, pa, pb)]
                except NotImplementedError:
                    break
                except RuntimeError as ex:
                    # e.g. "free variables": the expression refers to a symbol that is not one of the two inputs
                    res.fail(site="%s.%s" % (B.name, op), clause="numeric_api:same_named_symbols_are_different_variables", cls="raises", detail=dict(name=nm, error=str(ex)[:200]), sub=sub, case=case)
                    break
                bad = False
                for g_, w_ in zip(got, want):
                    if not np.all(np.isfinite(w_)):
                        continue
                    ok, err = _same(g_.reshape(w_.shape) if g_.size == w_.size else g_, w_, tol)
                    if not ok:
                        res.fail(site="%s.%s" % (B.name, op), clause="numeric_api:same_named_symbols_are_different_variables", cls="name=" + nm, detail=dict(op=op, a=pa, b=pb, got=g_, want=w_, err=err), sub=sub, case=case)
                        bad = True
                        break
                if bad:
                    break


# looking at an element must not change it: printing, formatting, comparing, copying, reading its parameters, listing its attributes
OBSERVERS = {"repr": lambda o: repr(o), "str": lambda o: str(o), "format": lambda o: "%s %r" % (o, o), "eq_self": lambda o: o == o, "copy": lambda o: __import__("copy").deepcopy(o),
             "read_param": lambda o: np.array(ca.DM(o.param)), "vars": lambda o: (dir(o), vars(o)), "bool_len": lambda o: (o.param.shape, o.param.is_dense())}


def check_history(res, B, elems, xs, case, sub, targets, preludes, tol=1e-11):
    """N6: the result of an operation on an element object does not depend on which other operations were called on that object before
    (lazily cached or silently rewritten per-object state).  For every element, every target op and every prelude op (same argument
    kind): fresh object, prelude(obj), target(obj) must equal the symbolic-path target at the ORIGINAL parameters."""
    G, A = B.G, B.G.algebra
    ops = group_ops(B)

    def mk(kind, p):
        return G.elem(ca.DM(p)) if kind == "g" else A.elem(ca.DM(p))

    for t in targets:
        if t not in ops or len(ops[t][0]) != 1:
            continue
        kind, ft = ops[t][0][0], ops[t][1]
        pool = elems if kind == "g" else xs
        for p in pool:
            want = None
            for pre in list(preludes) + list(OBSERVERS):
                if pre in OBSERVERS:
                    kp, fp = (kind,), OBSERVERS[pre]
                elif pre == t or pre not in ops:
                    continue
                else:
                    kp, fp = ops[pre]
                if kp[0] != kind:
                    continue
                res.count("evaluations")
                res.count("history_pairs")
                obj = mk(kind, p)
                try:
                    with contextlib.redirect_stdout(io.StringIO()):
                        if len(kp) == 1:
                            fp(obj)
                        else:
                            fp(obj, obj)
                        got = ev(ft(obj))
                except NotImplementedError:
                    continue
                except Exception as ex:
                    res.fail(site="%s.%s" % (B.name, t), clause="numeric_api:call_raises", cls=type(ex).__name__, detail=dict(x=np.asarray(p), after=pre, error=str(ex)[:200]), sub=sub, case=case)
                    continue
                if want is None:
                    want = B.call(t, p)
                ok, err = _same(got.reshape(want.shape) if got.size == want.size else got, want, tol)
                if not ok:
                    res.fail(site="%s.%s" % (B.name, t), clause="numeric_api:result_independent_of_earlier_calls_on_object", cls="after_" + pre,
                             detail=dict(x=np.asarray(p), after=pre, got=got, want=want, err=err), sub=sub, case=case)


def check_group(res, B, elems, xs, case, sub, ops_wanted, tol=1e-11):
    """elems / xs: lists of raw parameter arrays (group / algebra).  Fails are reported under clauses numeric_api:*"""
    G, A = B.G, B.G.algebra
    ops = {k: v for k, v in group_ops(B).items() if k in ops_wanted}
    name = B.name

    def mk(kind, p):
        return G.elem(ca.DM(p)) if kind == "g" else A.elem(ca.DM(p))

    def arglists(kinds):
        pools = [elems if k == "g" else xs for k in kinds]
        if len(kinds) == 1:
            return [(p,) for p in pools[0]]
        # pairs: each element with its successor and with itself (shared object!)
        out = []
        for i, p in enumerate(pools[0]):
            out.append((p, pools[1][(i + 1) % len(pools[1])]))
        return out

    for op, (kinds, fn) in ops.items():
        for args in arglists(kinds):
            res.count("evaluations")
            res.count("numeric_api_calls")
            objs = [mk(k, p) for k, p in zip(kinds, args)]
            before = [ev(o.param).copy() for o in objs]
            try:
                with contextlib.redirect_stdout(io.StringIO()):
                    r1 = ev(fn(*objs))
                    r2 = ev(fn(*objs))  # reuse of the same objects
            except NotImplementedError:
                continue
            except Exception as ex:
                res.fail(site="%s.%s" % (name, op), clause="numeric_api:call_raises", cls=type(ex).__name__, detail=dict(args=[np.asarray(a) for a in args], error=str(ex)[:200]),
                         sub=sub, case=case)
                continue
            want = B.call(op, *args)
            ok, err = _same(r1.reshape(want.shape) if r1.size == want.size else r1, want, tol)
            info = dict(op=op, args=[np.asarray(a) for a in args])
            if not ok:
                res.fail(site="%s.%s" % (name, op), clause="numeric_api:numeric_equals_symbolic_path", cls="-", detail=dict(info, numeric=r1, symbolic=want, err=err), sub=sub, case=case)
                continue
            ok3, _ = _same(r2, r1, 0.0)
            if not ok3:
                res.fail(site="%s.%s" % (name, op), clause="numeric_api:same_result_on_reuse", cls="-", detail=dict(info, first=r1, second=r2), sub=sub, case=case)
            for o, b0, a0 in zip(objs, before, args):
                if not _same(ev(o.param), b0, 0.0)[0]:
                    res.fail(site="%s.%s" % (name, op), clause="numeric_api:arguments_not_mutated", cls="-", detail=dict(info, before=b0, after=ev(o.param)), sub=sub, case=case)
            # N4: reassign param of the first argument to the next alphabet member and call again
            pool = elems if kinds[0] == "g" else xs
            p2 = pool[(next(i for i, p in enumerate(pool) if p is args[0]) + 2) % len(pool)] if len(pool) > 2 else None
            if p2 is not None and len(kinds) == 1:
                try:
                    with contextlib.redirect_stdout(io.StringIO()):
                        objs[0].param = ca.SX(ca.DM(p2))
                        r4 = ev(fn(*objs))
                    want4 = B.call(op, p2)
                    ok4, err4 = _same(r4.reshape(want4.shape) if r4.size == want4.size else r4, want4, tol)
                    if not ok4:
                        res.fail(site="%s.%s" % (name, op), clause="numeric_api:param_reassignment_takes_effect", cls="-",
                                 detail=dict(op=op, first=np.asarray(args[0]), then=np.asarray(p2), got=r4, want=want4, err=err4), sub=sub, case=case)
                except NotImplementedError:
                    pass
            # N5: a value differing in the 9th significant digit (fresh objects)
            if len(kinds) == 1 and maxabs(args[0]) > 0 and np.all(np.isfinite(args[0])):
                # (group parameters leave the manifold by ~1e-9; both paths evaluate the same formulas on the same raw input)
                p5 = np.asarray(args[0], dtype=float) * (1.0 + 3e-9)
                with contextlib.redirect_stdout(io.StringIO()):
                    r5 = ev(fn(mk(kinds[0], p5)))
                want5 = B.call(op, p5)
                ok5, err5 = _same(r5.reshape(want5.shape) if r5.size == want5.size else r5, want5, tol)
                if not ok5:
                    res.fail(site="%s.%s" % (name, op), clause="numeric_api:nearby_input_gets_its_own_result", cls="-",
                             detail=dict(op=op, x=p5, got=r5, want=want5, err=err5), sub=sub, case=case)


def check_algebra_arithmetic(res, B, xs, case, sub):
    """scalar multiplication, negation, addition, subtraction on algebra elements must not touch their operands"""
    A = B.G.algebra
    for i, p in enumerate(xs):
        q = xs[(i + 1) % len(xs)]
        x, y = A.elem(ca.DM(p)), A.elem(ca.DM(q))
        res.count("evaluations")
        try:
            outs = [ev((x * 0.25).param), ev((0.5 * x).param), ev((-x).param), ev((x + y).param), ev((x - y).param), ev((x * 0.25).param)]
        except NotImplementedError:
            continue
        want = [0.25 * p, 0.5 * p, -p, p + q, p - q, 0.25 * p]
        for k, (o, w) in enumerate(zip(outs, want)):
            if not _same(o.reshape(-1), w, 1e-13)[0]:
                res.fail(site="%s.algebra_arithmetic" % B.name, clause="numeric_api:vector_space_operations", cls="op%d" % k, detail=dict(x=p, y=q, got=o.reshape(-1), want=w), sub=sub, case=case)
        if not (_same(ev(x.param).reshape(-1), p, 0.0)[0] and _same(ev(y.param).reshape(-1), q, 0.0)[0]):
            res.fail(site="%s.algebra_arithmetic" % B.name, clause="numeric_api:arguments_not_mutated", cls="-", detail=dict(x=p, after=ev(x.param).reshape(-1)), sub=sub, case=case)
        # the scalar given as another numeric TYPE (a type the library refuses is fine; an accepted one must scale by its value)
        if i < 3:
            for tag, sc in (("int", 2), ("numpy.float64", np.float64(0.25)), ("numpy.float32", np.float32(0.25)), ("numpy.int64", np.int64(-3)), ("bool", True), ("0-d array", np.array(0.5)),
                            ("negative_zero", -0.0), ("DM_scalar", ca.DM(0.75))):
                for side in ("right", "left"):
                    res.count("evaluations")
                    try:
                        with contextlib.redirect_stdout(io.StringIO()):
                            r_ = (x * sc) if side == "right" else (sc * x)
                        if not hasattr(r_, "param"):
                            res.count("refused")
                            continue
                        got = ev(r_.param).reshape(-1)
                    except Exception:  # noqa: BLE001 - refusal
                        res.count("refused")
                        continue
                    want_ = float(np.asarray(sc, dtype=float).reshape(-1)[0]) * p
                    if got.shape != want_.shape or not _same(got, want_, 1e-13)[0]:
                        res.fail(site="%s.algebra_arithmetic" % B.name, clause="numeric_api:scalar_of_any_accepted_numeric_type_scales_by_its_value", cls="%s;%s" % (tag, side),
                                 detail=dict(x=p, scalar=repr(sc), side=side, got=got, want=want_), sub=sub, case=case)


def generic_pair(ps):
    """two members of moderate size with as few zero entries as possible (a thread check on two tiny or axis-aligned members compares results
    that many wrong formulas share)"""
    def score(p):
        p = np.asarray(p, dtype=float)
        n = float(np.linalg.norm(p))
        return (int(0.05 < n < 50.0), int(np.count_nonzero(p)), -abs(math.log(max(n, 1e-300))))
    ranked = sorted(range(len(ps)), key=lambda i: score(ps[i]), reverse=True)
    return [ps[i] for i in ranked[:2]]


QUICK_THREAD_GROUPS = ("SO3Quat", "SO3Mrp", "SO3EulerB321", "SE3Quat", "SE23Mrp", "SE23Quat", "SE2")
THOROUGH_THREAD_GROUPS = ("SO3Dcm", "SE3Mrp", "SO2", "SE2*SE2", "SO3Quat*SO3Quat", "R3*SO3Mrp*R3")


def check_threads(res, B, elems, xs, case, sub, ops_wanted, bound=1, max_runs=1500, only_pairs=None):
    """two numeric calls of the group operations in two threads, every interleaving of the library's Python statements with at most `bound`
    preemptions (mc/threads.py): the operations share nothing, so each returns what it returns alone.  Pairs: the same operation on two
    different elements, and each operation against `exp` / `to_Matrix` of the other element."""
    from . import threads
    G, A = B.G, B.G.algebra
    if B.name not in QUICK_THREAD_GROUPS + (THOROUGH_THREAD_GROUPS if case.get("tier") == "thorough" else ()):
        return
    ops = {k: v for k, v in group_ops(B).items() if k in ops_wanted}
    if not ops:
        return
    ops = {k: v for k, v in ops.items() if len(elems if v[0][0] == "g" else xs) >= 2}
    tracked = ("cyecca/lie/", "cyecca/symbolic.py")

    def mk(op, which):
        kinds, fn = ops[op]
        pool = elems if kinds[0] == "g" else xs
        ps = [pool[which]] + ([pool[1 - which]] if len(kinds) == 2 else [])

        def call():
            # (no stdout redirection in here: redirect_stdout swaps a process-wide variable, interleaved threads would restore it out of order)
            os_ = [G.elem(ca.DM(p)) if k_ == "g" else A.elem(ca.DM(p)) for k_, p in zip(kinds, ps)]
            return ev(fn(*os_)).tobytes()
        return call
    names = sorted(ops)
    pairs = [(o, o) for o in names] + [(o, names[(i + 1) % len(names)]) for i, o in enumerate(names) if len(names) > 1]
    if only_pairs is not None:
        pairs = [p_ for p_ in only_pairs if p_[0] in ops and p_[1] in ops]
    _quiet = contextlib.redirect_stdout(io.StringIO())
    _quiet.__enter__()
    try:
        _check_threads_pairs(res, B, pairs, mk, threads, tracked, bound, max_runs, sub, case)
    finally:
        _quiet.__exit__(None, None, None)


def _check_threads_pairs(res, B, pairs, mk, threads, tracked, bound, max_runs, sub, case):
    for a, b in pairs:
        fa, fb = mk(a, 0), mk(b, 1)
        try:
            alone = [fa(), fb()]
        except NotImplementedError:
            continue
        except Exception:  # noqa: BLE001 - reported by the sequential checks
            continue
        n = 0
        import time as _time
        t0_ = _time.time()
        for choices, results, npts, capped in threads.explore([fa, fb], tracked, bound, max_runs=max_runs):
            if capped or (n > 0 and _time.time() - t0_ > 90.0):
                # a cap (number of schedules or wall time for this pair) is reported, the pair is then not exhaustively explored
                res.counters["thread_schedules_capped"] += 1
                break
            n += 1
            res.count("evaluations")
            res.count("schedules")
            res.counters["max_scheduling_points"] = max(res.counters["max_scheduling_points"], npts)
            bad = [k for k, r in enumerate(results) if r is None or r[0] != "ok" or r[1] != alone[k]]
            if bad:
                k = bad[0]
                res.fail(site="%s.%s" % (B.name, (a, b)[k]), clause="numeric_api:result_independent_of_a_concurrent_call", cls="with_" + (b, a)[k],
                         detail=dict(pair=[a, b], thread=k, schedule=choices, outcome=(results[k][1] if results[k] and results[k][0] != "ok" else "differs from the call alone")), sub=sub, case=case)
                return  # one counterexample per group is enough (a change that makes every thread re-derive tables makes each run slow)
