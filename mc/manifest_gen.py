"""regenerates MANIFEST.json from the table below (keeps it valid at all times)"""
import json, os
V = os.path.dirname(os.path.dirname(os.path.abspath(__file__)))
CHECKS = {}
NA = {}

def check(pid, cat, text, note, technique, design):
    CHECKS[pid] = dict(
        property_id=pid, quick_cmd="./check %s --tier quick" % pid, thorough_cmd="./check %s --tier thorough" % pid,
        evidence_file="/verif/evidence/%s.json" % pid, replay_cmd_template="./check %s --replay {path}" % pid,
        engine="mc", level_claimed=dict(category=cat, text=text, design_ref=design), level_note=note, technique=technique)

from mc.manifest_table import fill
fill(check, NA)
props = [json.loads(l)["id"] for l in open(os.path.join(V, "properties.jsonl"))]
m = dict(
    version=1,
    setup_cmd="./setup.sh",
    hooks=dict(guard="COGNIPILOT_CYECCA_VERIF", enable="no source hooks are needed: checks import /repo's working tree directly (cyecca.pth) and observe through public objects; ./check exports COGNIPILOT_CYECCA_VERIF=1 for uniformity",
               baseline_off_cmd="cd /repo && env -u COGNIPILOT_CYECCA_VERIF /venv/bin/python -m pytest -ra -q -p no:cacheprovider --timeout=900 --continue-on-collection-errors",
               source_commits=[], add_only=True),
    engines=[dict(name="mc", path="/verif/mc", serves_properties=sorted(CHECKS),
                  kind_free_text="hand-written bounded-exhaustive explorer for Python/CasADi: product / words (BFS over operation words) / history (BFS over fed-back memories) / sched (deviation-bounded tie-break exploration of simpy) explorers, sxvm multi-domain interpreter of the real CasADi instruction lists, boring reference models")],
    checks=[CHECKS[p] for p in props if p in CHECKS],
    not_applicable=[dict(property_id=p, reason=NA.get(p, "check not built yet in this session; design in DESIGN.md section 4")) for p in props if p not in CHECKS],
    notes="see DESIGN.md; known findings in known_findings.json; seeded mutants in seeded/",
)
json.dump(m, open(os.path.join(V, "MANIFEST.json"), "w"), indent=1)
print("checks:", len(m["checks"]), "not_applicable:", len(m["not_applicable"]))
