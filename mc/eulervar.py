"""Euler groups other than the exported body-fixed 3-2-1 one.

`SO3EulerLieGroup(euler_type, sequence)` is a public, documented constructor; for a general convention the library offers to_Matrix,
Ad, `X @ v`, log and the conversions into the other parameterisations (product / inverse / exp / from_Matrix raise
NotImplementedError, which the properties exclude by their own wording).  The offered operations are explored here over a lattice
of angle triples for several conventions; the reference is the textbook composition of elementary rotations written out
independently (body-fixed: R = R_a1(t1) R_a2(t2) R_a3(t3); space-fixed: R = R_a3(t3) R_a2(t2) R_a1(t1))."""
from __future__ import annotations

import contextlib
import io
import itertools
import math

import casadi as ca
import numpy as np

from . import ref

with contextlib.redirect_stdout(io.StringIO()):
    import cyecca.lie as lie
    from cyecca.lie.group_so3 import Axis, EulerType, SO3EulerLieGroup

ELEM = {"x": ref.Rx, "y": ref.Ry, "z": ref.Rz}
CONVENTIONS = [("body", "xyz"), ("body", "zxz"), ("body", "yxz"), ("space", "zyx"), ("space", "xyz"), ("space", "zxz"), ("body", "zyx")]
ANGLES = [0.0, 0.3, -0.4, 1.1, 2.0, -2.8]


def ref_R(kind, seq, t):
    Rs = [ELEM[a](float(x)) for a, x in zip(seq, t)]
    return Rs[0] @ Rs[1] @ Rs[2] if kind == "body" else Rs[2] @ Rs[1] @ Rs[0]


_G = {}


def group(kind, seq):
    k = (kind, seq)
    if k not in _G:
        G = SO3EulerLieGroup(euler_type=EulerType.body_fixed if kind == "body" else EulerType.space_fixed, sequence=[getattr(Axis, a) for a in seq])
        p = ca.SX.sym("e", 3)
        fns = {}
        with contextlib.redirect_stdout(io.StringIO()):
            for name, build in (("to_Matrix", lambda: G.elem(p).to_Matrix()), ("Ad", lambda: G.elem(p).Ad()), ("log", lambda: G.elem(p).log().param),
                                ("to_Quat", lambda: lie.SO3Quat.from_Euler(G.elem(p)).param), ("to_Dcm", lambda: lie.SO3Dcm.from_Euler(G.elem(p)).param),
                                ("to_Mrp", lambda: lie.SO3Mrp.from_Euler(G.elem(p)).param), ("act", lambda: G.elem(p) @ ca.SX([0.3, -0.5, 0.8]))):
                try:
                    fns[name] = ca.Function(name, [p], [ca.densify(build())])
                except NotImplementedError:
                    fns[name] = None
                except Exception as ex:  # an offered operation that raises on a symbolic element is reported by the caller
                    fns[name] = "raises %s: %s" % (type(ex).__name__, str(ex)[:160])
        _G[k] = (G, fns)
    return _G[k]


def explore(res, case, sub, wanted, core):
    """wanted: subset of {"to_Matrix", "Ad", "act", "log", "convert"}"""
    from .gutil import ref_R_of_slot
    triples = list(itertools.product(ANGLES, repeat=3))
    for kind, seq in CONVENTIONS:
        G, fns = group(kind, seq)
        site = "SO3Euler(%s,%s)" % (kind, seq)
        names = [n for n in ("to_Matrix", "Ad", "act", "log") if n in wanted] + (["to_Quat", "to_Dcm", "to_Mrp"] if "convert" in wanted else [])
        for n in names:
            if isinstance(fns[n], str):
                res.count("evaluations")
                res.fail(site=site + "." + n, clause="operation_raises", cls=fns[n].split(":")[0], detail=dict(error=fns[n]), sub=sub, case=case)
        for t in triples:
            R = ref_R(kind, seq, t)
            th = ref.rot_angle(R)
            for n in names:
                f = fns[n]
                if f is None or isinstance(f, str):
                    continue
                res.count("evaluations")
                res.count("euler_convention_calls")
                if any(t):
                    res.nontrivial.add(hash((kind, seq, t, n)))
                got = np.array(f(np.array(t, dtype=float)), dtype=float)
                info = dict(convention=[kind, seq], angles=list(t))
                if not np.all(np.isfinite(got)):
                    res.fail(site=site + "." + n, clause="result_finite", cls="-", detail=dict(info, got=got), sub=sub, case=case)
                    continue
                if n in ("to_Matrix", "Ad"):
                    bad = np.max(np.abs(got - R)) > 1e-9
                elif n == "act":
                    bad = np.max(np.abs(got.reshape(-1) - R @ np.array([0.3, -0.5, 0.8]))) > 1e-9
                elif n == "log":
                    if th > math.pi - 0.01:
                        res.count("excluded_by_reference")
                        continue
                    bad = np.max(np.abs(got.reshape(-1) - ref.logm_rot(R))) > 1e-9 * (1 + 1 / max(math.pi - th, 1e-2))
                else:
                    bad = ref.rot_dist(ref_R_of_slot(n[3:], got.reshape(-1)), R) > 1e-9
                    if not bad and n == "to_Quat":
                        bad = abs(np.linalg.norm(got) - 1) > 1e-9
                if bad:
                    clause = {"to_Matrix": "matrix_is_composition_of_elementary_rotations", "Ad": "Ad_is_rotation_matrix", "act": "action_is_matrix_vector_product",
                              "log": "log_is_principal_rotation_vector"}.get(n, "same_rotation")
                    res.fail(site=site + "." + n, clause=clause, cls="euler_convention", detail=dict(info, got=got, reference_R=R), sub=sub, case=case)
    res.samples.append(dict(euler_conventions=len(CONVENTIONS), triples=len(triples), operations=sorted(wanted)))
