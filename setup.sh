#!/bin/bash
# nothing to build: smoke import of the code under check + self-test of the engines
cd "$(dirname "$0")"
export PYTHONHASHSEED=0
/venv/bin/python -W ignore -m mc.selftest
